#!/bin/bash
# usage: try_patch.sh <patch.diff> <PID> [PID...]  — applies patch in a scratch worktree, runs checks with --root, reverts.
set -u
patch=$1; shift
wt=${SCRATCH_WT:-/tmp/wt/scratch}
if [ ! -d "$wt" ]; then git -C /repo worktree add -q --detach "$wt" HEAD; fi
git -C "$wt" checkout -q --detach $(git -C /repo rev-parse HEAD) 2>/dev/null
git -C "$wt" checkout -q -- . && git -C "$wt" clean -fdq 
if ! git -C "$wt" apply "$patch"; then echo "PATCH-APPLY-FAILED $patch"; exit 3; fi
export VERIF_OUT_DIR=/tmp/verif_scratch_out
for pid in "$@"; do
  /venv/bin/python /verif/check.py "$pid" --root "$wt" 2>&1 | grep -E "^(VIOLATION|ANALYSIS-ERROR|KNOWN|C[0-9]+ |  rule)" | cut -c1-260
done
git -C "$wt" checkout -q -- . && git -C "$wt" clean -fdq
