#!/usr/bin/env python3
"""
Re-runs every check against every recorded seeded change (/verif/seeded/<id>/patch.diff) and refreshes `detected_by` / `status`
in its meta.json (the `confirmed` block - tests and demonstration, recorded when the change was first confirmed - is left alone).
The checks run from a private snapshot of the checker sources.  Usage: refresh_seeded.py [id-prefix ...]
"""
import json, os, shutil, subprocess, sys, concurrent.futures as cf

PY = "/venv/bin/python"
SEEDED = "/verif/seeded"
SNAP = "/tmp/verif_snap_%d" % os.getpid()
ALL = [c["property_id"] for c in json.load(open("/verif/MANIFEST.json"))["checks"]]


def sh(cmd, cwd=None, env=None, timeout=1800):
    p = subprocess.run(cmd, shell=True, cwd=cwd, env=env, capture_output=True, text=True, timeout=timeout)
    return p.returncode, p.stdout + p.stderr


def prepare(sid):
    wt = "/tmp/wt/rs_%s" % sid
    sh("git -C /repo worktree remove --force %s" % wt)
    sh("git -C /repo worktree add -q --detach %s HEAD" % wt)
    rc, out = sh("git -C %s apply %s/%s/patch.diff" % (wt, SEEDED, sid))
    if rc:
        rc, out = sh("git -C %s apply --3way %s/%s/patch.diff" % (wt, SEEDED, sid))
    return wt, rc, out


def run_check(job):
    sid, wt, p = job
    e2 = dict(os.environ, VERIF_OUT_DIR="/tmp/verif_scratch_out/rs_%s_%s" % (sid, p))
    rc, out = sh("%s %s/check.py %s --root %s" % (PY, SNAP, p, wt), env=e2)
    shutil.rmtree("/tmp/verif_scratch_out/rs_%s_%s" % (sid, p), ignore_errors=True)
    if rc == 1:
        return sid, p, sorted({l.split("rule ")[1].split(" ")[0] for l in out.splitlines() if l.strip().startswith("rule ")})
    if rc == 2:
        return sid, p, ["ANALYSIS-ERROR"]
    return sid, p, None


def main():
    shutil.rmtree(SNAP, ignore_errors=True)
    os.makedirs(SNAP)
    shutil.copytree("/verif/sa", SNAP + "/sa", ignore=shutil.ignore_patterns("__pycache__"))
    for f in ("check.py", "known_findings.json", "properties.jsonl", "MANIFEST.json"):
        shutil.copy("/verif/" + f, SNAP + "/" + f)
    only = sys.argv[1:]
    sids = [d for d in sorted(os.listdir(SEEDED)) if os.path.exists(os.path.join(SEEDED, d, "meta.json")) and (not only or any(d.startswith(o) for o in only))]
    batch = 24
    for i in range(0, len(sids), batch):
        chunk = sids[i:i + batch]
        wts, jobs = {}, []
        for sid in chunk:
            wt, rc, out = prepare(sid)
            if rc:
                print("%-12s PATCH-DOES-NOT-APPLY %s" % (sid, out.strip()[-120:]))
                sh("git -C /repo worktree remove --force %s" % wt)
                continue
            wts[sid] = wt
            jobs += [(sid, wt, p) for p in ALL]
        res = {}
        with cf.ThreadPoolExecutor(max_workers=14) as ex:
            for sid, p, r in ex.map(run_check, jobs):
                if r is not None:
                    res.setdefault(sid, {})[p] = r
        for sid, wt in wts.items():
            sh("git -C /repo worktree remove --force %s" % wt)
            mp = os.path.join(SEEDED, sid, "meta.json")
            meta = json.load(open(mp))
            pid = meta["breaks_property"]
            checks = res.get(sid, {})
            own = checks.get(pid, [])
            viol = {p: v for p, v in checks.items() if v != ["ANALYSIS-ERROR"]}
            status = "CAUGHT" if own and own != ["ANALYSIS-ERROR"] else ("caught-by-other" if viol else ("inconclusive" if own == ["ANALYSIS-ERROR"] else "MISSED"))
            old = meta.get("status")
            meta["detected_by"], meta["status"] = checks, status
            json.dump(meta, open(mp, "w"), indent=1)
            print("%-12s %-16s (was %s) own=%s others=%s" % (sid, status, old, own, sorted(p for p in viol if p != pid)), flush=True)


if __name__ == "__main__":
    try:
        main()
    finally:
        shutil.rmtree(SNAP, ignore_errors=True)
