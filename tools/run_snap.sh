#!/bin/bash
# Development regression: runs every claimed check from a private SNAPSHOT of /verif (so that editing /verif/sa while it runs cannot
# leak half-edited modules into it) against /repo, writing evidence/replay files to a scratch directory. The registered commands in
# MANIFEST.json always run from /verif itself; this is only for long (thorough) regression runs during development.
tier=${1:-thorough}
snap=/tmp/verif_snap_run
rm -rf "$snap" /tmp/verif_snap_out; mkdir -p "$snap" /tmp/verif_snap_out
rsync -a --exclude .git --exclude __pycache__ --exclude evidence --exclude replay /verif/ "$snap"/
cd "$snap"
export VERIF_OUT_DIR=/tmp/verif_snap_out
pids=$(python3 -c "import json;print(' '.join(c['property_id'] for c in json.load(open('MANIFEST.json'))['checks']))")
for p in $pids; do ( /venv/bin/python check.py $p --tier $tier > /tmp/verif_snap_out/run_$p.log 2>&1; echo "exit=$? $(tail -1 /tmp/verif_snap_out/run_$p.log)" ) & done
wait
