#!/bin/bash
# Runs every claimed check on /repo (clean tree expected) in parallel; prints the summary lines.
cd /verif
tier=${1:-quick}
pids=$(python3 -c "import json;print(' '.join(c['property_id'] for c in json.load(open('MANIFEST.json'))['checks']))")
for p in $pids; do ( /venv/bin/python check.py $p --tier $tier > /tmp/runall_$p.log 2>&1; echo "exit=$? $(tail -1 /tmp/runall_$p.log)" ) & done
wait
