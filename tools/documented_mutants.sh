#!/bin/bash
# documented mutants from why_tests_cant
W=/tmp/wt/scratch
run() { # name file sedexpr pid
  git -C $W checkout -q -- .
  sed -i "$3" $W/$2
  if git -C $W diff --quiet; then echo "$1: SED DID NOT APPLY"; return; fi
  out=$(VERIF_OUT_DIR=/tmp/verif_scratch_out /venv/bin/python /verif/check.py $4 --root $W | grep -E "^  rule|^C[0-9]+ " | cut -c1-150 | head -2 | tr '\n' '|')
  echo "$1 [$4]: $out"
  git -C $W checkout -q -- .
}
run "tn+=0" score_analysis/scores.py 's/        tn += self.nb_easy_neg/        tn += 0/' C01
run "method-reversal-deleted" score_analysis/scores.py '0,/            method = reverse_method\[method\]/{s/            method = reverse_method\[method\]/            pass/}' C02
run "eer min->max" score_analysis/scores.py 's/max_eer = min(self.hard_pos_ratio, self.hard_neg_ratio)/max_eer = max(self.hard_pos_ratio, self.hard_neg_ratio)/' C06
run "auc side right->left" score_analysis/scores.py 's/right = np.searchsorted(x, upper, side="right")/right = np.searchsorted(x, upper, side="left")/' C07
run "by_min max" score_analysis/showbias.py 's/denominator_metric = np.min(group_metrics, axis=0)/denominator_metric = np.max(group_metrics, axis=0)/' C18
run "single-pass neg uses pos count" score_analysis/scores.py 's/size=self.nb_hard_neg, n=nb_hard_neg, p=1.0 \/ self.nb_hard_neg/size=self.nb_hard_neg, n=nb_hard_pos, p=1.0 \/ self.nb_hard_neg/' C11
run "bc factor 2 dropped" score_analysis/utils.py 's/z_upper = 2 \* z0 + z_alpha_upper/z_upper = z0 + z_alpha_upper/' C13
run "swap easy not swapped" score_analysis/scores.py 's/            nb_easy_pos=self.nb_easy_neg,/            nb_easy_pos=self.nb_easy_pos,/' C08
run "easy_neg_ratio in tpr" score_analysis/scores.py 's|np.minimum((1.0 - np.asarray(tpr)) / self.hard_pos_ratio, 1.0)|np.minimum((1.0 - np.asarray(tpr)) / self.hard_neg_ratio, 1.0)|' C09
