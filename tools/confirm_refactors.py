#!/usr/bin/env python3
"""
Runs every claimed check against behaviour-preserving refactorings written by independent sub-agents
(/tmp/refac/<tag>/<rK>/patch.diff) and records them under /verif/refactors/<tag>-<rK>/.
Expectation: the suite stays 384 passed and every check exits 0 (no VIOLATION, no ANALYSIS-ERROR).
"""
import json, os, shutil, subprocess, sys, concurrent.futures as cf

SRC = os.environ.get("REFAC_SRC", "/tmp/refac")
DST = "/verif/refactors"
PY = "/venv/bin/python"
# the checks run from a private snapshot of the checker sources, so that editing /verif/sa while a confirmation runs cannot leak half-edited modules into it
SNAP = "/tmp/verif_snap_%d" % os.getpid()


def snapshot():
    shutil.rmtree(SNAP, ignore_errors=True)
    os.makedirs(SNAP)
    shutil.copytree("/verif/sa", SNAP + "/sa", ignore=shutil.ignore_patterns("__pycache__"))
    for f in ("check.py", "known_findings.json", "properties.jsonl", "MANIFEST.json"):
        shutil.copy("/verif/" + f, SNAP + "/" + f)
ALL = [c["property_id"] for c in json.load(open("/verif/MANIFEST.json"))["checks"]]


def sh(cmd, cwd=None, env=None):
    p = subprocess.run(cmd, shell=True, cwd=cwd, env=env, capture_output=True, text=True, timeout=1200)
    return p.returncode, p.stdout + p.stderr


def work(item):
    tag, rk = item
    src = os.path.join(SRC, tag, rk)
    wt = "/tmp/wt/ref_%s_%s" % (tag, rk)
    res = {"id": "%s-%s" % (tag, rk)}
    sh("git -C /repo worktree remove --force %s" % wt)
    sh("git -C /repo worktree add -q --detach %s HEAD" % wt)
    try:
        rc, out = sh("git -C %s apply %s/patch.diff" % (wt, src))
        if rc:
            res["error"] = "patch does not apply: " + out[-200:]
            return res
        rc, out = sh("%s -m pytest -q -p no:cacheprovider tests 2>&1 | tail -3" % PY, cwd=wt)
        res["tests_ok"] = "384 passed" in out
        e2 = dict(os.environ, VERIF_OUT_DIR="/tmp/verif_scratch_out/ref_%s_%s" % (tag, rk))
        alarms = {}
        for p in ALL:
            rc, out = sh("%s %s/check.py %s --root %s" % (PY, SNAP, p, wt), env=e2)
            if rc != 0:
                lines = [l.strip()[:300] for l in out.splitlines() if l.startswith("ANALYSIS-ERROR") or l.strip().startswith("rule ")]
                alarms[p] = {"exit": rc, "lines": lines[:4]}
        res["alarms"] = alarms
    finally:
        sh("git -C /repo worktree remove --force %s" % wt)
        shutil.rmtree("/tmp/verif_scratch_out/ref_%s_%s" % (tag, rk), ignore_errors=True)
    return res


def main():
    snapshot()
    items = []
    for tag in sorted(os.listdir(SRC)):
        for rk in sorted(os.listdir(os.path.join(SRC, tag))):
            if os.path.exists(os.path.join(SRC, tag, rk, "patch.diff")):
                items.append((tag, rk))
    with cf.ThreadPoolExecutor(max_workers=8) as ex:
        results = list(ex.map(work, items))
    os.makedirs(DST, exist_ok=True)
    for r in results:
        tag, rk = r["id"].split("-", 1)
        print("%-8s tests=%s alarms=%s" % (r["id"], r.get("tests_ok"), {k: (v["exit"], v["lines"][:1]) for k, v in r.get("alarms", {}).items()} or "none", ), r.get("error", ""))
        d = os.path.join(DST, r["id"])
        os.makedirs(d, exist_ok=True)
        shutil.copy(os.path.join(SRC, tag, rk, "patch.diff"), d)
        note = os.path.join(SRC, tag, rk, "note.md")
        if os.path.exists(note):
            shutil.copy(note, d)
        json.dump(r, open(os.path.join(d, "result.json"), "w"), indent=1)


if __name__ == "__main__":
    try:
        main()
    finally:
        shutil.rmtree(SNAP, ignore_errors=True)
