#!/usr/bin/env python3
"""Regenerates /verif/MANIFEST.json from the table below (claimed checks + not_applicable)."""
import json, os
V = os.path.dirname(os.path.dirname(os.path.abspath(__file__)))
props = [json.loads(l) for l in open(os.path.join(V, "properties.jsonl"))]
MODEL = ("trusted: the library model (numpy/scipy/pandas entries in sa/libmodel.py), absence of NaN scores, dtype effects "
         "(integer truncation, wrap-around, float32) and floating-point rounding are outside the model")
CLAIMED = {
 "C01": dict(cat="proof", tech="conditional constant propagation + value numbering of Scores.cm/pointwise_cm per configuration; sortedness typestate over construction sites",
   text="All 16 (configuration, cell) entries of the decision table derived from the source equal the documented counting rule in polynomial normal form (symbolic in scores and threshold, hence all order types), conservation is threshold-free, pointwise_cm's table equals the rule, every construction site that may skip sorting receives provably ascending arrays.",
   ref="DESIGN §4 C01"),
 "C04": dict(cat="proof", tech="global value numbering of all metric functions over a symbolic matrix; polynomial normal form against the definition table; guarded-division guard/fill analysis",
   text="Each of the 9 counts, 12 rates, 4 interval wrappers, binomial_ci, 10 aliases and 37 ConfusionMatrix methods is reduced to a closed term over the four cells and compared with its definition; complements, [0,1] range and the exact NaN locus are derived from the verified (numerator, denominator) pairs.",
   ref="DESIGN §4 C04"),
 "C05": dict(cat="other", tech="abstract evaluation of the accumulation loop (loop-carried array discipline), re-ordering comprehensions, the parametric one-vs-all iteration and the per-class decorator; role extraction from derived terms",
   text="Decides the structural clauses: which datum feeds row/column/increment, both axes re-ordered by the requested class order with key-set checks, the four one-vs-all conservation identities for a parametric class j (incl. zero-initialised buffer), metric-on-one_vs_all and class axis of as_dict for all 34 decorated methods, accuracy = trace/population.",
   ref="DESIGN §4 C05"),
 "C02": dict(cat="other", tech="value numbering of the threshold front-ends with helper stubs (population, alias forwarding, flip parity, interpolation weights) + exact evaluation of the derived closed forms on order-type representatives",
   text="Structural clauses are decided for all inputs on value numbers (which population is inverted, aliases forward target and method, target/method flip parity equals the direction derived from cm(), interpolation weights sum to one and are score-free). The magnitude clauses (within one sample, tie bracketing, lower/higher are samples with ordered rates, linear between, monotone in r) are decided by bounded enumeration: the derived closed forms are evaluated exactly on representatives of all order types with class sizes 1..4.",
   ref="DESIGN §4 C02"),
 "C03": dict(cat="other", tech="sentinel-coverage analysis: derived threshold and metric terms evaluated in exact arithmetic on one representative per cell of the finite order partition (target region x N=1/N>=2 x order type x easy counts)",
   text="For every metric, configuration and method the composed closed form rate(threshold_at(r)) derived from the source is evaluated on representatives of each cell of the order partition for r<=0 and r>=1 and must equal the lowest/highest achievable value of the same derived rate term.",
   ref="DESIGN §4 C03"),
 "C08": dict(cat="other", tech="symbolic evaluation of swap(); polynomial identities between derived cm tables (swap and mirror images); derived threshold terms evaluated on representative pairs",
   text="swap() builds exactly the mirrored object (8 instances); the cm table of the swapped object equals the role-transposed table and the reversed-direction table equals the mirror image of the original (32 identities valid for all inputs); threshold equivariance under affine maps and negation is decided on order-type representatives (bounded).",
   ref="DESIGN §4 C08"),
 "C09": dict(cat="other", tech="inverse-map derivation from the object's own rate term (substituting 0/len for counting atoms) compared with each front-end's rescale in normal form on every path",
   text="Easy counts enter TP/TN with coefficient 1 in all 16 cells; all 13 count/ratio properties equal their definitions on every path; each of the 24 (metric, configuration) front-ends applies exactly the inverse of the forward map m = m_min + (m_max-m_min)*F derived from cm() and the metric definition.",
   ref="DESIGN §4 C09"),
 "C06": dict(cat="other", tech="path-by-path abstract evaluation of eer() with stubbed setters/root finder; guard/value correlation per return path; case analysis of the bisection loop body; prerequisites re-decided (cm table, FPR/FNR inverse maps and flip parity)",
   text="Every return path of eer() yields an admissible EER value (0 under strict separation with the midpoint threshold, the cap min(hard fractions), the smaller hard fraction under its guard with the setter of the non-saturating rate, or a root midpoint on [0, cap]); the crossing function is sign*(T_fpr - T_fnr) normalised at 0; _find_root follows the bisection schema. The one-sample magnitude and convergence are not decided.",
   ref="DESIGN §4 C06"),
 "C07": dict(cat="other", tech="formula conformance of auc() against a reference term (value numbering with rate stubs) + exact evaluation of the fully inlined closed form on order-type representatives against Mann-Whitney / step area",
   text="auc() equals, as a term, the reference construction (sorted float neighbours of all scores, own rates on both axes, joint reversal, closed window via searchsorted sides and clamps, flat extension, |trapezoid(y,x)|) for 4 axis pairs; on representatives (ties, easy samples, 4 configurations, 5 windows) the derived closed form equals the Mann-Whitney statistic and the exact step area (bounded).",
   ref="DESIGN §4 C07"),
 "C13": dict(cat="other", tech="formula conformance: specialisation of utils.bootstrap_ci per method, value numbering with shape bookkeeping dropped and masked gather/scatter lifted, named-axis role inference for the quantile branch; effect analysis of the three branches (arguments read-only)",
   text="The derived level terms of quantile/bc/bca equal the documented formulas in normal form (alpha/2 and 1-alpha/2 over the replicate axis; z0 from #{theta<=theta_hat}/#{not NaN}; 2 z0 + z_alpha; acceleration nansum(d^3)/(6 nansum(d^2)^1.5) with 0 fallback; adjusted level where z0 finite; per-component nanquantile over axis 0) and the quantile branch delivers axes metric+alpha+(lower,upper). Ordering/nesting corollaries are not separately decided. The caller's replicate array, estimate and alpha are not written in place in any branch.",
   ref="DESIGN §4 C13"),
 "C10": dict(cat="other", tech="alias and effect analysis on the abstract evaluator (storage roots through view operators; in-place writes, attribute stores, RNG reachability) over ~180 public callables; elementwise-dependence check of derived terms; alias forwarding",
   text="Sufficient condition for 'no query mutates the object or caller arrays and repeats give identical results': over all public deterministic callables (symbolic arguments, every path) no subscript store / augmented assignment / out= / .sort() / shuffle reaches parameter or receiver storage, no attribute is re-bound outside constructors, no random draw is reachable (with a positive control). cm() writes (..., i, j) cells of a (*t.shape, 2, 2) buffer with terms elementwise in t; rates and thresholds are elementwise in their argument; aliases forward every parameter.",
   ref="DESIGN §4 C10"),
 "C14": dict(cat="other", tech="abstract evaluation of the replicate loop and CI assembly with stubbed sampler/metric (parametric loop iteration, virtual dispatch, type(self) resolution), entropy-source reachability over all sampling paths, plus the C13 formula rules; sampler-dispatch and sortedness-typestate prerequisites",
   text="Row j is the metric of the sample drawn in iteration j by the receiver's own bootstrap_sample with the caller's config and kwargs (both classes, name and callable metrics); bootstrap_ci passes replicates, metric(self, **kwargs), alpha and config.bootstrap_method to the (verified) formula; a callable sampler's result is used unchanged; all random draws come from the global numpy.random state. Prerequisites re-decided: the configured stratification reaches the index sampler (R11.7) and every sample construction site is in the ordered typestate (R01.4).",
   ref="DESIGN §4 C14"),
 "C15": dict(cat="other", tech="abstract evaluation of roc() with the Scores API stubbed: multiset-preserving threshold construction, reversal-parity against the rate direction derived from cm(), count algebra, derived views; purity prerequisite of the setters; per-path containment; effect analysis of the support helper in roc() mode",
   text="FNR/FPR are the object's rates at the returned array; every supplied threshold and setter(supplied rate) is contained; the number of reversals after the ascending sort matches the direction of the x-axis metric for all 8 axis names x 4 configurations; default supports have nb_points (or one per scored sample) points; the 12 derived views are complements/aliases. Containment holds on every path feasible with non-empty supplied arrays; supplied fnr/fpr/thresholds are only read.",
   ref="DESIGN §4 C15"),
 "C16": dict(cat="other", tech="call conformance of all statically resolvable internal call sites; stubbed exploration of the band functions (joint metric, unpack order, rule-of-three arguments, mirrored envelope calls); exact evaluation of trigger conditions on the integer grid; envelope formula and effect analysis; effect analysis of the support helper with extra points; sample well-formedness prerequisite (R11.1/R11.5/R11.8)",
   text="All 185 resolvable internal calls bind (the experimental band functions' helper calls included); each band function evaluates rates at its thresholds, bootstraps stack([FNR@FPR, FPR@FNR]) with the caller's alpha/config, unpacks in that order, gives the rule of three the denominator of the corrected rate, and builds bands from mirrored envelope calls; the correction triggers select exactly counts 0 and n; the envelope is min/max over rectangles whose closed x-interval contains the point, computed on copies. NaN-freeness under random samplers is not decided. Supplied arrays are only read (with and without extra points); every built-in sampler delivers at least one scored positive and negative (prerequisite of setting thresholds at FNR/FPR on each replicate).",
   ref="DESIGN §4 C16"),
 "C11": dict(cat="other", tech="path-by-path abstract evaluation of bootstrap_sample/_sample_indices over the built-in configuration matrix; count algebra in normal form; interval facts with guard refinement for delivered sizes; sortedness typestate; pos/neg mirror lint; sampler-dispatch stub comparison; effect analysis (no in-place write reaches the source arrays)",
   text="Decides the structural clauses on every path: flags forwarded, each class drawn from the source's same class, requested strata sum to the source total (by_label: the four source strata), proportion sizes, delivered class sizes have lower bound 1, is_sorted only with provably ascending arrays, exact pos/neg duality of the sampling code, dynamic-method resolution. Unbiasedness and reachability in distribution are not decided. Also decided: _sample_indices is called with by_label exactly when stratified_sampling=='by_label' and single_pass exactly on the single-pass path; no sampling path writes the source's arrays in place.",
   ref="DESIGN §4 C11"),
 "C12": dict(cat="other", tech="alignment typestate over derived index terms for every construction site of GroupScores; per-group extraction and stacking order from symbolic evaluation; prerequisites (sampler count algebra, sortedness); cache-coherence analysis over the history index -> swap/bootstrap_sample -> index; groupwise stacking order; dynamic-method resolution under by-group stratification",
   text="(scores, labels) pairs stay aligned through __init__ (one argsort per pair), from_labels (one mask), swap and all 9 built-in sampling configurations incl. lock-step by-group appends; self[g] selects each class by its own labels with the receiver's flags; group_cm stacks over self.groups in order; samples keep the name list; default names are the sorted union; by-group sampling uses the size-preserving non-stratified sampler per group. Also decided: an object derived (swap, every sampling configuration) from one whose per-group cache is filled has an empty cache or its own extraction in it; groupwise(metric) maps over obj.groups in order with kwargs forwarded; dynamic + by_group resolves to replacement.",
   ref="DESIGN §4 C12"),
 "C19": dict(cat="proof", tech="constant folding of the two enums; symbolic exploration of FraudScores.__init__/from_labels (state on every path, raise-condition set); override scan of the class body; symbolic evaluation of the alias setters; class-blindness of inherited equality (semantic comparison across receiver classes) with a scan for other class-sensitive constructs",
   text="Translations are mutually inverse on all members and values; every normal constructor path leaves exactly the Scores state of the claimed view and the raise conditions are exactly the two out-of-[0,1] tests; no query method is overridden, so every query is Scores' code on that state; from_labels splits by ==/!= genuine_label and forwards all parameters. Alias setters store into the aliased attribute only; FraudScores == Scores (both orders) has the outcome of Scores == Scores on identical state.",
   ref="DESIGN §4 C19"),
 "C17": dict(cat="other", tech="symbolic extraction of the crossing mask and appended values from the parametric loops; exact evaluation of the predicates over all weak orderings of (y_j, y_j+1, t); rank inference; polynomial identity of the interpolation; stubbed threshold_at_metric",
   text="Over all 13 weak orderings a reported crossing implies y_j != y_j+1 and lambda in [0,1) (each touching point attributed to one segment, no zero division), up/down predicates are disjoint and no interior solution is missed; z solves the interpolant identically; every appended value has rank 0; the fallback is x[argmin|y-t|] iff no crossing; threshold_at_metric feeds one points value to x and to the metric for its three point modes and resolves names on type(self).",
   ref="DESIGN §4 C17"),
 "C18": dict(cat="other", tech="abstract evaluation of showbias with stubbed group_cm/cm/bootstrap helpers over 12 option combinations: data flow into GroupScores.from_labels, key-codec analysis, normalisation formula and reduced-axis role at both call sites, value-number equality of theta_hat and reported values, shared labels; C12 prerequisites; from_labels mask-alignment prerequisite",
   text="Inputs (scores, labels, groups, pos_label, score_class, equal_class) reach GroupScores.from_labels; values are the requested metric of group_cm, divided by the metric of cm or by the minimum over groups unless 0; the row index is built from score_object.groups and columns are the thresholds; replicates pass through the same normalisation, theta_hat equals the reported values, lower/upper share the labels. Two genuine defects are recorded as known findings (lossy '_' key codec; by_min reduces the replicate axis). Prerequisite re-decided: GroupScores.from_labels selects scores and group labels of each class by one mask.",
   ref="DESIGN §4 C18"),
 "C20": dict(cat="other", tech="closed-form reduction of the scipy.stats.norm calls to the standard normal with inverse-pair identities; polynomial identities for the joint Bernoulli table; count terms of the non-random branches",
   text="fnr/threshold_at_fnr and fpr/threshold_at_fpr compose to the identity in both orders, roc() rates are the model's rates at its thresholds, from_metrics reproduces the requested operating point and sizes, sample() sizes sum to n with the model's direction, non-random Bernoulli draws floor(n p) ones, the joint table sums to 1 with marginals p1, p2 under the decoding, equals the documented a, raises exactly on a negative entry and uses floor counts with the remainder in the last cell. Random branches are not decided.",
   ref="DESIGN §4 C20"),
}
PENDING = "check not built yet (build phase in progress)"
checks, na = [], []
for p in props:
    pid = p["id"]
    if pid in CLAIMED and os.path.exists(os.path.join(V, "sa", "rules", pid.lower() + ".py")):
        c = CLAIMED[pid]
        checks.append({
            "property_id": pid,
            "quick_cmd": "/venv/bin/python /verif/check.py %s --tier quick" % pid,
            "thorough_cmd": "/venv/bin/python /verif/check.py %s --tier thorough" % pid,
            "evidence_file": "/verif/evidence/%s.json" % pid,
            "replay_cmd_template": "/venv/bin/python /verif/check.py %s --replay {path}" % pid,
            "engine": "sa",
            "level_claimed": {"category": c["cat"], "text": c["text"], "design_ref": c["ref"]},
            "level_note": c.get("note", MODEL),
            "technique": "static analysis: " + c["tech"],
        })
    else:
        na.append({"property_id": pid, "reason": PENDING})
m = {
 "version": 1,
 "setup_cmd": "/venv/bin/python -m compileall -q /verif/sa /verif/check.py",
 "hooks": {"guard": "SCORE_ANALYSIS_VERIF", "enable": "none needed: checks are static (ast only) and never import or execute /repo code",
           "baseline_off_cmd": "cd /repo && /venv/bin/python -m pytest -ra -q -p no:cacheprovider --timeout=900",
           "source_commits": [], "add_only": True},
 "engines": [{"name": "sa", "path": "/verif/sa", "serves_properties": [c["property_id"] for c in checks],
              "kind_free_text": "stdlib-ast abstract evaluator (SCCP + value numbering with polynomial normal form), typestate/alias/effect predicates over derived terms, call conformance"}],
 "checks": checks,
 "not_applicable": na,
 "notes": "All checks parse /repo's working tree on every run; exit 2 + ANALYSIS-ERROR means the analyser could not derive a fact (never reported as VIOLATION).",
}
json.dump(m, open(os.path.join(V, "MANIFEST.json"), "w"), indent=1)
print(len(checks), "claimed,", len(na), "not applicable")
