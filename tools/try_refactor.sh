#!/bin/bash
# usage: try_refactor.sh <patch.diff>  — runs ALL checks on a scratch worktree with the patch; prints only non-OK results
set -u
patch=$1
wt=${SCRATCH_WT:-/tmp/wt/scratch}
if [ ! -d "$wt" ]; then git -C /repo worktree add -q --detach "$wt" HEAD; fi
git -C "$wt" checkout -q -- . && git -C "$wt" clean -fdq
if ! git -C "$wt" apply "$patch"; then echo "PATCH-APPLY-FAILED $patch"; exit 3; fi
export VERIF_OUT_DIR=/tmp/verif_scratch_out
for n in 01 02 03 04 05 06 07 08 09 10 11 12 13 14 15 16 17 18 19 20; do
  ( /venv/bin/python /verif/check.py C$n --root "$wt" > /tmp/verif_scratch_out/_r_C$n.txt 2>&1; echo "exit=$? C$n" >> /tmp/verif_scratch_out/_r_C$n.txt ) &
done
wait
for n in 01 02 03 04 05 06 07 08 09 10 11 12 13 14 15 16 17 18 19 20; do
  if ! grep -q "exit=0" /tmp/verif_scratch_out/_r_C$n.txt; then echo "--- C$n"; grep -E "^(ANALYSIS-ERROR|  rule|C[0-9]+ )" /tmp/verif_scratch_out/_r_C$n.txt | cut -c1-330 | head -6; grep -E "^C[0-9]+ " /tmp/verif_scratch_out/_r_C$n.txt | cut -c1-120; fi
done
git -C "$wt" checkout -q -- . && git -C "$wt" clean -fdq
