#!/usr/bin/env python3
"""
Confirms sub-agent mutants and records them under /verif/seeded/<id>/.

For each /tmp/out/<PID>/<mK>/ (patch.diff, demo.py, note.md):
  1. git apply in a private scratch worktree of /repo HEAD
  2. full test suite must stay 384 passed
  3. demo must exit 1 with the patch and exit 0 without it
  4. every claimed check is run with --root <worktree>; the property checks that report VIOLATION are recorded
Results: /verif/seeded/<PID>-<mK>/{patch.diff,demo.py,meta.json}
"""
import json, os, shutil, subprocess, sys, concurrent.futures as cf

OUT = os.environ.get("SEED_OUT", "/tmp/out")
TAG = os.environ.get("SEED_TAG", "")  # e.g. "r2" -> ids Cxx-r2mK
SEEDED = "/verif/seeded"
PY = "/venv/bin/python"
# the checks run from a private snapshot of the checker sources, so that editing /verif/sa while a confirmation runs cannot leak half-edited modules into it
SNAP = "/tmp/verif_snap_%d" % os.getpid()


def snapshot():
    shutil.rmtree(SNAP, ignore_errors=True)
    os.makedirs(SNAP)
    shutil.copytree("/verif/sa", SNAP + "/sa", ignore=shutil.ignore_patterns("__pycache__"))
    for f in ("check.py", "known_findings.json", "properties.jsonl", "MANIFEST.json"):
        shutil.copy("/verif/" + f, SNAP + "/" + f)
ALL = [c["property_id"] for c in json.load(open("/verif/MANIFEST.json"))["checks"]]


def sh(cmd, cwd=None, env=None, timeout=900):
    p = subprocess.run(cmd, shell=True, cwd=cwd, env=env, capture_output=True, text=True, timeout=timeout)
    return p.returncode, p.stdout + p.stderr


def work(item):
    pid, mk = item
    src = os.path.join(OUT, pid, mk)
    wt = "/tmp/wt/conf_%s_%s" % (pid, mk)
    res = {"id": "%s-%s%s" % (pid, TAG, mk), "property": pid, "mk": mk}
    sh("git -C /repo worktree remove --force %s" % wt)
    rc, out = sh("git -C /repo worktree add -q --detach %s HEAD" % wt)
    try:
        rc, out = sh("git -C %s apply %s/patch.diff" % (wt, src))
        if rc:
            res["error"] = "patch does not apply: " + out[-300:]
            return res
        env = dict(os.environ, PYTHONPATH=wt)
        rc, out = sh("%s -m pytest -q -p no:cacheprovider tests 2>&1 | tail -3" % PY, cwd=wt)
        res["tests"] = out.strip().splitlines()[-1] if out.strip() else "?"
        res["tests_ok"] = "384 passed" in out
        rc1, out1 = sh("%s -W ignore %s/demo.py" % (PY, src), cwd=wt, env=env)
        res["demo_with_patch"] = rc1
        res["demo_output_with_patch"] = out1.strip()[-400:]
        caught = {}
        e2 = dict(os.environ, VERIF_OUT_DIR="/tmp/verif_scratch_out/%s_%s" % (pid, mk))
        for p in ALL:
            rc, out = sh("%s %s/check.py %s --root %s" % (PY, SNAP, p, wt), env=e2)
            if rc == 1:
                rules = sorted({l.split("rule ")[1].split(" ")[0] for l in out.splitlines() if l.strip().startswith("rule ")})
                caught[p] = rules
            elif rc == 2:
                caught[p] = ["ANALYSIS-ERROR"]
        res["checks"] = caught
        sh("git -C %s checkout -- ." % wt)
        rc0, out0 = sh("%s -W ignore %s/demo.py" % (PY, src), cwd=wt, env=env)
        res["demo_without_patch"] = rc0
        res["confirmed"] = bool(res["tests_ok"] and rc1 == 1 and rc0 == 0)
    finally:
        sh("git -C /repo worktree remove --force %s" % wt)
        shutil.rmtree("/tmp/verif_scratch_out/%s_%s" % (pid, mk), ignore_errors=True)
    return res


def main():
    snapshot()
    items = []
    only = sys.argv[1:]
    for pid in sorted(os.listdir(OUT)):
        for mk in sorted(os.listdir(os.path.join(OUT, pid))):
            if os.path.exists(os.path.join(OUT, pid, mk, "patch.diff")) and (not only or pid in only):
                items.append((pid, mk))
    with cf.ThreadPoolExecutor(max_workers=8) as ex:
        results = list(ex.map(work, items))
    for r in results:
        pid, mk = r["property"], r["mk"]
        own = r.get("checks", {}).get(pid, [])
        viol = {p: v for p, v in r.get("checks", {}).items() if v != ["ANALYSIS-ERROR"]}
        status = "CAUGHT" if own and own != ["ANALYSIS-ERROR"] else ("caught-by-other" if viol else ("inconclusive" if own == ["ANALYSIS-ERROR"] else "MISSED"))
        print("%-12s confirmed=%s tests=%s demo=%s/%s  %s  own=%s others=%s" % (r["id"], r.get("confirmed"), r.get("tests_ok"), r.get("demo_with_patch"), r.get("demo_without_patch"),
                                                                                status, own, sorted(p for p in viol if p != pid)))
        if r.get("confirmed"):
            d = os.path.join(SEEDED, r["id"])
            os.makedirs(d, exist_ok=True)
            src = os.path.join(OUT, pid, mk)
            shutil.copy(os.path.join(src, "patch.diff"), d)
            for fn in os.listdir(src):
                if fn.endswith(".py") and os.path.getsize(os.path.join(src, fn)) < 200000:
                    shutil.copy(os.path.join(src, fn), d)
            note = open(os.path.join(src, "note.md")).read() if os.path.exists(os.path.join(src, "note.md")) else ""
            meta = {"id": r["id"], "breaks_property": pid, "needs_to_manifest": note.strip()[:1500],
                    "confirmed": {"tests_with_patch": r["tests"], "demo_exit_with_patch": r["demo_with_patch"], "demo_exit_without_patch": r["demo_without_patch"],
                                  "demo_output_with_patch": r["demo_output_with_patch"]},
                    "what_was_run": ["git apply patch.diff in a scratch worktree of /repo HEAD", "/venv/bin/python -m pytest -q tests  (384 passed required)",
                                     "PYTHONPATH=<worktree> /venv/bin/python demo.py  (exit 1 with patch, exit 0 without)",
                                     "/venv/bin/python /verif/check.py <every property> --root <worktree>"],
                    "detected_by": r.get("checks", {}), "status": status}
            json.dump(meta, open(os.path.join(d, "meta.json"), "w"), indent=1)
    json.dump(results, open("/tmp/confirm_results.json", "w"), indent=1)


if __name__ == "__main__":
    try:
        main()
    finally:
        shutil.rmtree(SNAP, ignore_errors=True)
