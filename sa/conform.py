"""
E5 — call conformance.  Every call site in the package whose callee resolves statically to
a repository function (direct name, imported name, module attribute, `self.`/`cls.` method
through the MRO, constructor of a repository class incl. dataclasses) is bound against the
callee's signature the way Python would bind it.  Calls with *args/**kwargs of unknown
content are skipped (counted).  Decorated callees are bound against the wrapper semantics
of `cm_class_metric` (extra keyword `as_dict`), other decorators are skipped.
"""
from __future__ import annotations

import ast

from .progdb import ClassInfo, FunctionInfo, ModuleInfo


def signature(fi, drop_self):
    a = fi.node.args
    pos = [p.arg for p in a.posonlyargs + a.args]
    if drop_self and pos:
        pos = pos[1:]
    ndef = len(a.defaults)
    required = pos[: len(pos) - ndef] if ndef <= len(pos) else []
    kwonly = [p.arg for p in a.kwonlyargs]
    kwreq = [p.arg for p, d in zip(a.kwonlyargs, a.kw_defaults) if d is None]
    return {"pos": pos, "required": required, "kwonly": kwonly, "kwreq": kwreq, "vararg": a.vararg is not None, "kwarg": a.kwarg is not None,
            "posonly": {p.arg for p in a.posonlyargs}}


def dataclass_signature(ci):
    fields = []
    for c in reversed(ci.mro()):
        for n, v, ann in c.assigns:
            if ann is not None and n not in [f[0] for f in fields]:
                fields.append((n, v is not None))
    return {"pos": [f[0] for f in fields], "required": [f[0] for f in fields if not f[1]], "kwonly": [], "kwreq": [], "vararg": False, "kwarg": False, "posonly": set()}


def bind(sig, call):
    """Returns None if the call binds, else a message."""
    if any(isinstance(a, ast.Starred) for a in call.args) or any(k.arg is None for k in call.keywords):
        return "skip"
    npos = len(call.args)
    kws = [k.arg for k in call.keywords]
    if npos > len(sig["pos"]) and not sig["vararg"]:
        return "takes %d positional argument(s) but %d were given" % (len(sig["pos"]), npos)
    bound = set(sig["pos"][:npos])
    for k in kws:
        if k in bound:
            return "got multiple values for argument %r" % k
        if k in sig["pos"] and k not in sig["posonly"]:
            bound.add(k)
        elif k in sig["kwonly"]:
            bound.add(k)
        elif not sig["kwarg"]:
            return "got an unexpected keyword argument %r" % k
    missing = [p for p in sig["required"] if p not in bound] + [p for p in sig["kwreq"] if p not in bound]
    if missing:
        return "missing %d required argument(s): %s" % (len(missing), ", ".join(repr(m) for m in missing))
    return None


def sweep(db):
    """Yields dicts: {caller, callee, line, relpath, verdict ('ok'|'skip'|message)}."""
    for f in db.all_functions():
        mod = f.module
        cls = f.cls
        nested = {n.name: n for n in ast.walk(f.node) if isinstance(n, (ast.FunctionDef,)) and n is not f.node}
        for call in [n for n in ast.walk(f.node) if isinstance(n, ast.Call)]:
            fn = call.func
            target, drop_self, extra_kw = None, False, []
            if isinstance(fn, ast.Name):
                if fn.id in nested:
                    continue
                r = db.resolve_name(mod, fn.id)
                if isinstance(r, FunctionInfo):
                    target = r
                elif isinstance(r, ClassInfo):
                    target, drop_self = r, True
            elif isinstance(fn, ast.Attribute):
                if isinstance(fn.value, ast.Name) and fn.value.id in ("self", "cls") and cls is not None:
                    m = cls.find_method(fn.attr)
                    if m is not None and m.kind in ("function", "staticmethod"):
                        target, drop_self = m, m.kind != "staticmethod"
                elif isinstance(fn.value, ast.Name):
                    r = db.resolve_name(mod, fn.value.id)
                    if isinstance(r, ModuleInfo):
                        r2 = db.resolve_name(r, fn.attr)
                        if isinstance(r2, FunctionInfo):
                            target = r2
                        elif isinstance(r2, ClassInfo):
                            target, drop_self = r2, True
                    elif isinstance(r, ClassInfo):
                        m = r.find_method(fn.attr)
                        if m is not None and m.kind == "staticmethod":
                            target = m
            if target is None:
                continue
            if isinstance(target, ClassInfo):
                ci = target
                if ci.is_enum:
                    continue
                init = ci.find_method("__init__")
                if init is not None:
                    sig = signature(init, True)
                    name = ci.qualname
                elif any(c.is_dataclass for c in ci.mro()):
                    sig = dataclass_signature(ci)
                    name = ci.qualname
                else:
                    continue
            else:
                decs = [d for d in target.decorators if d not in ("staticmethod", "classmethod", "property")]
                if any(d.startswith("cm_class_metric") for d in decs):
                    sig = signature(target, drop_self)
                    if "as_dict" not in sig["pos"] + sig["kwonly"]:
                        sig["kwonly"] = sig["kwonly"] + ["as_dict"]
                elif decs:
                    continue
                else:
                    sig = signature(target, drop_self)
                name = target.qualname
            v = bind(sig, call)
            yield {"caller": f.qualname, "callee": name, "line": call.lineno, "relpath": mod.relpath, "verdict": v or "ok", "src": ast.unparse(call)[:160],
                   "node": call, "caller_fi": f, "sig": sig}
