"""
Library model (trusted base): what the analysis assumes about builtins, numpy, scipy,
pandas and math.  One table; every entry is a value-level transfer function producing a
canonical term.  Unknown library functions become `ext:<name>` applications and are
recorded as unmodelled so that rules depending on them end INCONCLUSIVE.

Documented facts relied upon (numpy 2.x / scipy 1.x reference):
  searchsorted(a, v, 'left')  = #{a <  v},  'right' = #{a <= v}   for ascending a
  sort -> ascending copy; asarray/reshape/moveaxis/basic slicing -> value-identical views
  astype/copy/arithmetic/fancy indexing -> fresh arrays
  nextafter(x, +inf) > x, nextafter(x, -inf) < x (strictly, finite x)
  divide(a, b, out=o, where=w) -> a/b where w, else the prior content of o
  norm.isf(q) = -norm.ppf(q) = norm.ppf(1-q); sf = 1 - cdf; loc/scale are affine
"""
from __future__ import annotations

from fractions import Fraction
import math

from .progdb import AnalysisError
from .terms import (
    App, Const, EnumM, Num, Star, Sym, Top, Tup, Vec, V, FALSE, TRUE, INF, NAN,
    add, compare, conj, const_of, disj, div, is_boolish, is_const, ite, mk_num, mul, neg, negate,
    powv, sub, to_poly, same,
)
from .simp import mk_app, norm_fn
from .terms import show

EXC_NAMES = {"ValueError", "TypeError", "KeyError", "IndexError", "AssertionError", "RuntimeError",
             "NotImplementedError", "AttributeError", "ZeroDivisionError", "Exception", "StopIteration"}

PURE_UNINTERPRETED = {
    # numpy functions kept as uninterpreted (deterministic, value-only) applications
    "sqrt", "abs", "isnan", "isfinite", "isclose", "any", "all", "nonzero", "argmin", "argmax", "argsort",
    "repeat", "arange", "linspace", "unique", "quantile", "nanquantile", "median", "interp", "trapezoid",
    "diagonal", "take", "stack", "moveaxis", "reshape", "squeeze", "expand_dims", "diff", "cumsum", "mean",
    "std", "exp", "log", "array_equal", "ones_like", "round", "sign", "union1d", "bincount", "isin", "flip",
    "transpose", "ravel", "atleast_1d", "broadcast_to", "searchsorted_unsorted", "histogram", "allclose",
    "percentile", "nanmin", "nanmax", "nanmean", "count_nonzero", "logical_and", "logical_or", "logical_not",
    "array_split", "vstack", "hstack", "column_stack", "dstack", "row_stack", "tile", "outer", "dot", "prod", "nanpercentile",
    "lexsort", "partition", "argpartition", "digitize", "meshgrid", "full", "eye", "identity", "triu", "tril",
    "issubdtype", "finfo", "iinfo", "result_type", "promote_types", "can_cast", "spacing", "rint", "trunc", "fix", "isinf", "isposinf", "isneginf",
}

BUILTIN_TYPES = {"str", "int", "float", "bool", "list", "tuple", "dict", "set", "bytes", "object", "type"}


def noop(*a, **k):
    return Const(None)


def as_v(ev, x):
    """Turn a run-time object into an immutable term where possible."""
    from .evalr import Lst, Dct, Obj, FuncV, LambdaV, ClassV, ExtV

    if isinstance(x, V):
        return x
    from .evalr import BoundExt as _BE
    if isinstance(x, _BE):
        return App("attr:" + x.name, (as_v(ev, x.recv),))
    if isinstance(x, ListElem):
        return App("getitem", (as_v(ev, x.lst), as_v(ev, x.idx)))
    if isinstance(x, Lst):
        items = [as_v(ev, i) for i in x.items]
        if getattr(x, "elem_appends", None):
            return App("list_with_appends", [Sym("list#%d" % id(x))])
        if x.pappends:
            comps = [App("forall", (lp, as_v(ev, val))) for lp, val in x.pappends]
            if not items and len(comps) == 1:
                return comps[0]
            return App("seq", items + comps)
        return Tup(items)
    if isinstance(x, Dct):
        if hasattr(x, "comp"):
            param, (k, v) = x.comp
            loops = [as_v(ev, p[1]) for p in param if p[0] != "if"]
            its = [as_v(ev, p[2]) for p in param if p[0] != "if"]
            return App("dictcomp", (Tup(loops), Tup(its), as_v(ev, k), as_v(ev, v)))
        return App("dict", [Tup([k, as_v(ev, v)]) for k, v in x.items.items()])
    if isinstance(x, Obj):
        if getattr(x, "nt_fields", None) is not None:
            # a typing.NamedTuple instance used as a VALUE (np.stack(interval), np.asarray(point)) is the tuple of its field values
            return Tup([as_v(ev, x.attrs[f]) for f in x.nt_fields])
        return Sym(x.key, ("object",))
    return Sym(getattr(x, "key", repr(x)))


def strip_fresh(v):
    while isinstance(v, App) and v.fn in ("fresh", "asarray") and v.args:
        v = v.args[0]
    return v


def length(ev, x):
    from .evalr import Lst, Dct

    if isinstance(x, App) and x.fn in ("fresh", "asarray") and x.args and isinstance(x.args[0], Tup):
        x = x.args[0]          # np.array([1, 0], dtype=np.int64): a cast keeps the number of elements

    if isinstance(x, Tup) and not any(isinstance(i, Star) for i in x.items):
        return Const(len(x.items))
    if type(x) is Tup:
        # (*a, p, q): the fixed items plus the lengths of the spliced sequences
        tot = Const(sum(1 for i in x.items if not isinstance(i, Star)))
        for i in x.items:
            if isinstance(i, Star):
                tot = add(tot, length(ev, i.inner))
        return tot
    if isinstance(x, Lst):
        if not x.pappends and not x.unknown:
            return Const(len(x.items))
        return App("len", (as_v(ev, x),))
    if isinstance(x, Dct) and not x.unknown:
        return Const(len(x.items))
    if isinstance(x, Const) and isinstance(x.value, str):
        return Const(len(x.value))
    x = as_v(ev, x)
    if isinstance(x, App) and x.fn == "set" and all(isinstance(a, (Const, EnumM)) for a in x.args):
        return Const(len(set(a.key for a in x.args)))
    x = strip_fresh(x)
    while isinstance(x, App) and x.fn in ("sort", "fresh", "asarray", "flip") and x.args:
        x = strip_fresh(x.args[0])
    if isinstance(x, App) and x.fn in ("zeros", "empty", "ones", "full") and x.args:
        sh = x.args[0]
        if isinstance(sh, Tup) and sh.items and not isinstance(sh.items[0], Star):
            return sh.items[0]
        if is_const(sh):
            return sh
    if isinstance(x, App) and x.fn == "ite":
        la, lb = length(ev, x.args[1]), length(ev, x.args[2])
        if same(la, lb):
            return la
    if isinstance(x, App) and x.fn == "concat":
        tot = Const(0)
        for a in x.args:
            tot = add(tot, length(ev, a))
        return tot
    if isinstance(x, App) and x.fn == "getitem" and isinstance(x.args[1], App) and x.args[1].fn == "slice":
        lo, hi, st = x.args[1].args
        if lo == Const(None) and hi == Const(None) and is_const(st) and const_of(st) in (-1, None):
            return length(ev, x.args[0])
    return App("len", (x,))


# --------------------------------------------------------------------------- builtins

def builtin(ev, name):
    from .evalr import ExtV

    if name in ("True", "False", "None"):
        return Const({"True": True, "False": False, "None": None}[name])
    return ExtV("builtins." + name)


def ext_attr(ev, dotted, name):
    from .evalr import ExtV

    full = dotted + "." + name
    if full in ("numpy.inf", "math.inf", "numpy.Inf", "numpy.infty"):
        return INF
    if full in ("numpy.nan", "math.nan", "numpy.NaN"):
        return NAN
    if full == "numpy.newaxis":
        return Const(None)
    if full in ("numpy.pi", "math.pi"):
        return Sym("pi")
    if full == "numpy.trapz":
        return ExtV("numpy.trapezoid")
    return ExtV(full)


def foreign_base_attr(ev, base, name, obj):
    raise AnalysisError("attribute %s inherited from external base %s" % (name, base))


def isinstance_model(ev, v, t):
    """Three-valued isinstance: Const(True/False) or an App when unknown."""
    from .evalr import Lst, Dct, Obj, FuncV, LambdaV, ClassV, ExtV

    if isinstance(t, Tup):
        return disj([isinstance_model(ev, v, x) for x in t.items])
    if isinstance(t, ClassV):
        if isinstance(v, Obj):
            return Const(t.ci in v.cls.mro())
        if isinstance(v, EnumM):
            return Const(v.cls == t.ci.qualname)
        if isinstance(v, Sym) and "object" not in v.tags and not any(tg.startswith("inst:") for tg in v.tags):
            if any(tg in v.tags for tg in ("array", "str", "callable", "int", "float", "num")):
                return FALSE
        if isinstance(v, (Const, Tup, Lst, Dct, FuncV, LambdaV, Num)):
            return FALSE
        return App("isinstance", (as_v(ev, v), Sym(t.ci.qualname)))
    if not isinstance(t, ExtV):
        return App("isinstance", (as_v(ev, v), as_v(ev, t)))
    tn = t.dotted.split(".")[-1]
    kind = None
    if isinstance(v, Const):
        x = v.value
        kind = "str" if isinstance(x, str) else "bool" if isinstance(x, bool) else "int" if isinstance(x, int) else \
            "float" if isinstance(x, (float, Fraction)) else "NoneType" if x is None else None
    elif isinstance(v, Lst):
        kind = "list"
    elif isinstance(v, Tup):
        kind = "tuple"
    elif isinstance(v, Dct):
        kind = "dict"
    elif isinstance(v, (FuncV, LambdaV)):
        kind = "function"
    elif isinstance(v, Obj):
        kind = "object"
    elif isinstance(v, EnumM):
        kind = "enum"
    elif isinstance(v, Sym):
        for tg in ("str", "int", "float", "array", "callable", "dataframe", "list", "dict"):
            if tg in v.tags:
                kind = {"array": "ndarray", "callable": "function", "dataframe": "DataFrame"}.get(tg, tg)
    elif isinstance(v, App) and (v.fn in ("attr:index", "attr:columns", "attr:loc", "attr:iloc") or v.fn.startswith("m:")):
        kind = None   # a pandas Index / frame-method result: its concrete class (RangeIndex, MultiIndex, ...) is not known
    elif isinstance(v, (Num, App)):
        kind = "ndarray"
    if kind is None:
        return App("isinstance", (as_v(ev, v), Sym(t.dotted)))
    table = {
        "str": {"str"}, "int": {"int"}, "bool": {"bool", "int"}, "float": {"float"}, "list": {"list", "Iterable"},
        "tuple": {"tuple", "Iterable"}, "dict": {"dict", "Iterable"}, "ndarray": {"ndarray", "Iterable"},
        "function": {"Callable"}, "DataFrame": {"DataFrame"}, "object": set(), "enum": {"Enum"}, "NoneType": set(),
    }
    if kind == "str" and tn == "Iterable":
        return TRUE
    return Const(tn in table.get(kind, set()))


def call_builtin(ev, name, args, kwargs, node):
    from .evalr import Lst, Dct, Obj, FuncV, LambdaV, ClassV, ExtV, RaiseSignal, BoundExt

    if name in EXC_NAMES or name.endswith("Error") or name.endswith("Warning"):
        return App(name, [as_v(ev, a) for a in args])
    if name == "len":
        return length(ev, args[0])
    if name == "isinstance":
        return isinstance_model(ev, args[0], args[1])
    if name == "callable":
        v = args[0]
        if isinstance(v, (FuncV, LambdaV, ClassV, ExtV, BoundExt)):
            return TRUE
        if isinstance(v, Sym) and "callable" in v.tags:
            return TRUE
        if isinstance(v, (Const, Tup, Lst, Dct, Num, EnumM)):
            return FALSE
        return App("callable", (as_v(ev, v),))
    if name == "getattr":
        o, n = args[0], args[1]
        if isinstance(n, Const) and isinstance(n.value, str):
            if len(args) > 2:
                try:
                    return ev.getattr(o, n.value, node)
                except AnalysisError:
                    return args[2]
            return ev.getattr(o, n.value, node)
        ev.event("reflect", obj=o, name=n, node=node)
        return App("getattr", (as_v(ev, o), n), ()) if isinstance(n, V) else Top("getattr")
    if name == "property":
        from .evalr import PropV
        fget = args[0] if args else kwargs.get("fget")
        fset = args[1] if len(args) > 1 else kwargs.get("fset")
        if isinstance(fset, Const) and fset.value is None:
            fset = None
        if fget is not None:
            return PropV(fget, fset)
    if name == "setattr" and len(args) == 3 and isinstance(args[1], Const) and isinstance(args[1].value, str):
        ev.setattr(args[0], args[1].value, args[2], node)
        return Const(None)
    if name == "hasattr":
        if isinstance(args[0], Obj) and isinstance(args[1], Const) and isinstance(args[1].value, str):
            o, n = args[0], args[1].value
            return Const(n in o.attrs or o.cls.find_method(n) is not None or o.cls.find_assign(n) is not None)
        from .evalr import ExtV as _ExtV
        if isinstance(args[0], _ExtV) and args[0].dotted == "numpy" and isinstance(args[1], Const) and args[1].value in ("trapezoid", "trapz"):
            return TRUE     # the two spellings of the trapezoid rule are one function in the model (ext_attr): either branch of a version shim is the same
        return App("hasattr", (as_v(ev, args[0]), as_v(ev, args[1])))
    if name == "type":
        o = args[0]
        if isinstance(o, Obj):
            return ClassV(o.cls)
        return App("type", (as_v(ev, o),))
    if name in ("int", "float", "bool", "str"):
        if not args:
            return Const({"int": 0, "float": 0.0, "bool": False, "str": ""}[name])
        v = args[0]
        if name == "int":
            if is_const(v):
                c = const_of(v)
                if isinstance(c, (int, Fraction)):
                    return Const(math.trunc(c))
            return mk_app("trunc", [as_v(ev, v)])
        if name == "float":
            return v
        if name == "bool":
            return ev.truth(v)
        if isinstance(v, Const):
            return Const(str(v.value))
        return App("str", (as_v(ev, v),))
    if name in ("min", "max"):
        items = list(args)
        if len(items) == 1:
            c = ev.concrete_items(items[0])
            if c is None:
                return App("a" + name, (as_v(ev, items[0]),))
            items = c
        if "initial" in kwargs:
            items.append(kwargs["initial"])
        if len(args) == 1 and "default" in kwargs:
            # min(seq, default=d): d for an empty sequence, ignored otherwise
            if not items:
                return kwargs["default"]
        elif set(kwargs) - {"initial", "key"}:
            raise AnalysisError("%s() with keyword %s" % (name, sorted(kwargs)))
        if "key" in kwargs:
            raise AnalysisError("%s() with key=" % name)
        if not items:
            from .evalr import RaiseSignal
            raise RaiseSignal(App("ValueError", (Const("%s() arg is an empty sequence" % name),)), node)
        if len(items) == 1:
            return as_v(ev, items[0])
        return mk_app(name, [as_v(ev, i) for i in items])
    if name == "abs":
        return mk_app("abs", [args[0]])
    if name == "sum":
        c = ev.concrete_items(args[0])
        if c is not None:
            tot = args[1] if len(args) > 1 else Const(0)
            for i in c:
                tot = add(tot, i)
            return tot
        return App("sum", (as_v(ev, args[0]),))
    if name == "range":
        return App("range", [as_v(ev, a) for a in args])
    if name == "slice" and 1 <= len(args) <= 3 and not kwargs:
        vs = [as_v(ev, a) for a in args]
        lo, hi, st = (Const(None), vs[0], Const(None)) if len(vs) == 1 else (vs[0], vs[1], vs[2] if len(vs) == 3 else Const(None))
        return App("slice", (lo, hi, st))     # the object `a:b:c` denotes in a subscript
    if name == "map" and len(args) == 2:
        # map(f, seq) is the generator (f(x) for x in seq)
        f, seq = args
        items = ev.concrete_items(seq)
        if items is not None:
            return Lst([ev.call(f, [x], {}, node) for x in items])
        loopid = next(ev.sym_counter)
        it = as_v(ev, seq) if not isinstance(seq, V) else seq
        elem = ev.loop_element(seq if isinstance(seq, (V, Lst)) else it, loopid)
        val = ev.call(f, [elem], {}, node)
        from .evalr import key_of
        l = Lst()
        l.pappends.append((Tup([elem if isinstance(elem, V) else Sym(key_of(elem))]), val))
        l.comp = ([(loopid, elem, it)], [], val)
        return l
    if name in ("zip", "enumerate"):
        return App(name, [as_v(ev, a) if not isinstance(a, (Lst, Tup)) or ev.concrete_items(a) is None else Tup(ev.concrete_items(a)) for a in args])
    if name in ("list", "tuple"):
        if not args:
            return Lst() if name == "list" else Tup(())
        if isinstance(args[0], Sym) and "dict" in args[0].tags:
            args = [App("m:keys", (args[0],))] + list(args[1:])     # iterating a dict iterates its keys
        c = ev.concrete_items(args[0])
        if c is not None:
            return Lst(c) if name == "list" else Tup(c)
        if isinstance(args[0], Lst):
            return args[0]
        a0 = as_v(ev, args[0])
        if isinstance(a0, App) and a0.fn == name and len(a0.args) == 1:
            return a0        # list(list(x)) has the elements of list(x)
        if name == "tuple" and _is_shape_tuple(a0):
            return a0        # a shape (or a slice / concatenation of shapes) IS a tuple
        return App(name, (a0,))
    if name == "dict":
        d = Dct()
        for k, v in kwargs.items():
            d.items[Const(k)] = v
        return d
    if name in ("set", "frozenset"):
        if not args:
            return App("set", ())
        if isinstance(args[0], App) and args[0].fn == "set":
            return args[0]
        if isinstance(args[0], Sym) and "dict" in args[0].tags:
            args = [App("m:keys", (args[0],))] + list(args[1:])     # iterating a dict iterates its keys
        c = ev.concrete_items(args[0])
        if c is not None:
            uniq = []
            for i in c:
                if i not in uniq:
                    uniq.append(i)
            return App("set", sorted([as_v(ev, i) for i in uniq], key=lambda v: v.key))
        return App("setof", (as_v(ev, args[0]),))
    if name == "sorted":
        c = ev.concrete_items(args[0])
        if c is not None and all(is_const(i) for i in c) and not kwargs:
            try:
                return Lst(sorted(c, key=lambda v: const_of(v)))
            except TypeError:
                pass
        return App("sorted", (as_v(ev, args[0]),), [(k, as_v(ev, v)) for k, v in kwargs.items()])
    if name in ("any", "all"):
        c = ev.concrete_items(args[0])
        if c is not None:
            ts = [ev.truth(i) for i in c]
            return disj(ts) if name == "any" else conj(ts)
        return App(name, (as_v(ev, args[0]),))
    if name == "print":
        return Const(None)
    if name == "id":
        return Top("id")
    if name == "round":
        return App("round", [as_v(ev, a) for a in args])
    if name == "iter" or name == "next":
        return App(name, [as_v(ev, a) for a in args])
    ev.note_unmodelled("builtin " + name, node)
    return App("ext:builtins." + name, [as_v(ev, a) for a in args], [(k, as_v(ev, v)) for k, v in kwargs.items()])


# --------------------------------------------------------------------------- numpy & friends

def _kw(ev, kwargs, drop=()):
    return [(k, as_v(ev, v)) for k, v in kwargs.items() if k not in drop]


# positional parameter names (numpy reference) and defaults that are made explicit, so that positional / keyword / defaulted
# spellings of one call produce one canonical term:  name -> (parameter names, number kept positional, explicit defaults)
NP_SIGS = {
    "take": (["a", "indices", "axis"], 2, {}),
    "sum": (["a", "axis"], 1, {}), "nansum": (["a", "axis"], 1, {}),
    "min": (["a", "axis"], 1, {}), "max": (["a", "axis"], 1, {}), "amin": (["a", "axis"], 1, {}), "amax": (["a", "axis"], 1, {}),
    "argmin": (["a", "axis"], 1, {}), "argmax": (["a", "axis"], 1, {}),
    "nanquantile": (["a", "q", "axis"], 1, {}), "quantile": (["a", "q", "axis"], 1, {}),
    "stack": (["arrays", "axis"], 1, {"axis": 0}),
    "moveaxis": (["a", "source", "destination"], 1, {}),
    "linspace": (["start", "stop", "num", "endpoint"], 3, {"endpoint": True}),
    "repeat": (["a", "repeats", "axis"], 2, {}),
    "diagonal": (["a", "offset", "axis1", "axis2"], 1, {}),
    "searchsorted": (["a", "v", "side"], 2, {"side": "left"}),
    "divide": (["x1", "x2", "out"], 2, {}), "add": (["x1", "x2", "out"], 2, {}), "subtract": (["x1", "x2", "out"], 2, {}),
    "multiply": (["x1", "x2", "out"], 2, {}),
    "full_like": (["a", "fill_value", "dtype"], 2, {}), "ones_like": (["a", "dtype"], 1, {}), "zeros_like": (["a", "dtype"], 1, {}),
    "empty_like": (["prototype", "dtype"], 1, {}),
    "zeros": (["shape", "dtype"], 1, {}), "ones": (["shape", "dtype"], 1, {}), "empty": (["shape", "dtype"], 1, {}),
    "full": (["shape", "fill_value", "dtype"], 2, {}),
    "concatenate": (["arrays", "axis"], 1, {}), "sort": (["a", "axis"], 1, {}), "flip": (["m", "axis"], 1, {}),
    "reshape": (["a", "shape"], 2, {}), "clip": (["a", "a_min", "a_max"], 3, {}), "where": (["condition", "x", "y"], 3, {}),
    "nextafter": (["x1", "x2"], 2, {}), "isclose": (["a", "b", "rtol", "atol"], 2, {}),
    "mean": (["a", "axis"], 1, {}), "std": (["a", "axis"], 1, {}), "prod": (["a", "axis"], 1, {}), "cumsum": (["a", "axis"], 1, {}),
    "any": (["a", "axis"], 1, {}), "all": (["a", "axis"], 1, {}), "argsort": (["a", "axis"], 1, {}),
    "expand_dims": (["a", "axis"], 1, {}), "squeeze": (["a", "axis"], 1, {}),
    "interp": (["x", "xp", "fp"], 3, {}), "trapezoid": (["y", "x"], 1, {}),
    "asarray": (["a", "dtype"], 1, {}), "array": (["object", "dtype"], 1, {}),
    "random.binomial": (["n", "p", "size"], 0, {}), "random.poisson": (["lam", "size"], 0, {}),
    "random.choice": (["a", "size", "replace", "p"], 1, {"replace": True}),
    "random.normal": (["loc", "scale", "size"], 0, {}),
}


def canonical_call(name, args, kwargs):
    sig = NP_SIGS.get(name)
    if sig is None or any(isinstance(a, Star) for a in args):
        return list(args), dict(kwargs)
    names, npos, defaults = sig
    args, kwargs = list(args), dict(kwargs)
    for i, a in enumerate(args[npos:], start=npos):
        if i < len(names) and names[i] not in kwargs:
            kwargs[names[i]] = a
    args = args[:npos]
    # leading parameters given by keyword become positional when all earlier ones are present
    while len(args) < npos and names[len(args)] in kwargs:
        args.append(kwargs.pop(names[len(args)]))
    for k, d in defaults.items():
        kwargs.setdefault(k, Const(d))
    if name == "diagonal" and kwargs.get("offset") == Const(0):
        del kwargs["offset"]  # the default spelled out
    return args, kwargs


def np_call(ev, name, args, kwargs, node):
    from .evalr import Lst, Dct, Obj, storage_root, FuncV

    args, kwargs = canonical_call(name, args, kwargs)
    A = [a for a in args]

    def arg(i, kw=None, default=None):
        if i < len(A):
            return A[i]
        if kw is not None and kw in kwargs:
            return kwargs[kw]
        return default

    ow = kwargs.get("overwrite_input")
    if ow is not None and ow != Const(False) and A:
        # numpy may partition / overwrite the first argument in place
        root = storage_root(as_v(ev, A[0]))
        if root is not None:
            ev.event("inplace", how="overwrite_input=", root=root, target="arg0", node=node, value=A[0])
    if name in ("remainder", "mod", "floor_divide", "true_divide", "power", "negative", "positive") and name in ("remainder", "mod", "floor_divide") and len(A) >= 2:
        return ev.binop("Mod" if name in ("remainder", "mod") else "FloorDiv", as_v(ev, A[0]), as_v(ev, A[1]), node)   # the ufunc forms of % and //
    if name == "take" and len(A) >= 2 and set(kwargs) <= {"axis"}:
        ax = kwargs.get("axis", A[2] if len(A) > 2 else None)
        if ax == Const(0):
            return getitem(ev, as_v(ev, A[0]), as_v(ev, A[1]), node)                                   # np.take(a, i, axis=0) is a[i]
        if ax == Const(-1):
            return getitem(ev, as_v(ev, A[0]), Tup([Const(Ellipsis), as_v(ev, A[1])]), node)           # np.take(a, i, axis=-1) is a[..., i]
        if isinstance(ax, Const) and isinstance(ax.value, int) and not isinstance(ax.value, bool) and 1 <= ax.value <= 3:
            full = App("slice", (Const(None), Const(None), Const(None)))
            return getitem(ev, as_v(ev, A[0]), Tup([full] * ax.value + [as_v(ev, A[1])]), node)         # np.take(a, i, axis=1) is a[:, i]
    if name == "insert" and len(A) == 3 and not kwargs:
        # np.insert(A, np.searchsorted(A, B), B): the sorted merge of B into the ascending array A — with B CAST TO A's dtype
        # (np.insert keeps the dtype of its first argument). As a value: sort(concat(A, cast(B))).
        a, idx, b = as_v(ev, A[0]), as_v(ev, A[1]), as_v(ev, A[2])
        if isinstance(idx, App) and idx.fn in ("count_lt", "count_le") and len(idx.args) == 2 and idx.args[0] == a and idx.args[1] == b:
            return mk_app("sort", [App("concat", (a, App("fresh", (b,), [("dtype", Const("other"))])))])
    if name == "divmod" and len(A) == 2 and not kwargs:
        x0, x1 = as_v(ev, A[0]), as_v(ev, A[1])
        return Tup([ev.binop("FloorDiv", x0, x1, node), ev.binop("Mod", x0, x1, node)])     # (x // y, x % y)
    if name == "dtype" and len(A) == 1:
        from .evalr import ExtV
        return A[0] if isinstance(A[0], ExtV) else App("dtype", (as_v(ev, A[0]),))   # np.dtype(float) is float wherever a dtype is expected
    if name == "nan_to_num" and A:
        x0 = as_v(ev, A[0])
        if kwargs.get("copy") == Const(False):
            root = storage_root(x0)
            if root is not None:
                ev.event("inplace", how="nan_to_num(copy=False)", root=root, target="arg0", node=node, value=A[0])
        return App("nan_to_num", (x0,), _kw(ev, {k: v for k, v in kwargs.items() if k != "copy"}))
    if "out" in kwargs and name not in ("add", "subtract", "multiply", "divide", "true_divide") and not (isinstance(kwargs["out"], Const) and kwargs["out"].value is None):
        # any ufunc / reduction writing into a caller-visible buffer
        root = storage_root(as_v(ev, kwargs["out"]))
        if root is not None:
            ev.event("inplace", how="out=", root=root, target="out", node=node, value=kwargs["out"])
    if name in ("asarray", "array", "asanyarray", "ascontiguousarray"):
        x = arg(0, "a")
        if x is None:
            x = kwargs.get("object")
        if isinstance(x, Obj):
            m = x.cls.find_method("__array__")
            if m is not None:
                return ev.call_function(FuncV(m, None, x, m.cls), [], {}, node)
        dt = kwargs.get("dtype", arg(1) if name in ("asarray", "array", "asanyarray") and len(A) > 1 else None)
        if isinstance(x, Lst) and x.pappends and not x.items and hasattr(x, "comp") and (dt is None or (isinstance(dt, Const) and dt.value is None)):
            return as_v(ev, x)
        v = as_v(ev, x)
        if getattr(ev, "mark_conversions", False) and isinstance(v, Sym) and "arraylike" in v.tags:
            # effect analysis of caller-supplied sequences: the converted array is told apart from the raw argument (ndarray attributes of
            # the CONVERTED value are fine); only used by rules that read events, not values
            v = App("asarray", (v,))
        if dt is not None and not (isinstance(dt, Const) and dt.value is None):
            from .evalr import ExtV
            last = dt.dotted.split(".")[-1] if isinstance(dt, ExtV) else (dt.value if isinstance(dt, Const) and isinstance(dt.value, str) else None)
            if last not in ("float", "float64", "double", "longdouble", "f8", "d"):
                # a cast to an integer / unknown dtype may change values (truncation): not the same value any more
                kind = "int" if last in ("int", "int64", "intp", "int32", "i8", "int_", "longlong") else "other"
                return App("fresh", (v,), [("dtype", Const(kind))])
        if isinstance(v, Tup) and not isinstance(v, Vec) and v.items and all(to_poly(i) is not None and not isinstance(i, Star) for i in v.items) \
                and isinstance(x, (Lst, Tup)):
            return Vec(v.items)
        if name == "array" and storage_root(v) is not None:
            return App("fresh", (v,))
        return v
    if name == "copy":
        v = as_v(ev, arg(0, "a"))
        return App("fresh", (v,)) if storage_root(v) is not None else v
    if name in ("sort", "argsort") and kwargs.get("kind") == Const(None):
        kwargs = {k: v for k, v in kwargs.items() if k != "kind"}     # kind=None is numpy's default
    if name == "sort":
        ax = kwargs.get("axis", arg(1) if len(A) > 1 else None)
        if isinstance(ax, Const) and ax.value is None:
            # axis=None: the array is flattened before sorting
            return mk_app("sort", [App("flatten", (as_v(ev, arg(0, "a")),))])
        return mk_app("sort", [as_v(ev, arg(0, "a"))])
    if name == "searchsorted":
        a, v = as_v(ev, arg(0, "a")), as_v(ev, arg(1, "v"))
        side = arg(2, "side", Const("left"))
        ev.event("lib", callee="numpy.searchsorted", args=[a, v, side], node=node)
        if isinstance(side, Const):
            return mk_app("count_lt" if side.value == "left" else "count_le", [a, v])
        if isinstance(side, App) and side.fn == "ite":
            c, s1, s2 = side.args
            return ite(c, np_call(ev, name, [a, v, s1], {}, node), np_call(ev, name, [a, v, s2], {}, node))
        return App("searchsorted", (a, v, side))
    if name == "hstack" and A and isinstance(A[0], (Lst, Tup)):
        name = "concatenate"
    if name == "concatenate":
        x = arg(0)
        if isinstance(x, (Lst, Tup)):
            items = ev.concrete_items(x)
            if items is not None:
                flat = []
                for i in items:
                    i = as_v(ev, i)
                    if isinstance(i, App) and i.fn == "concat":
                        flat.extend(i.args)
                    elif isinstance(i, Tup) and not i.items:
                        continue
                    elif isinstance(i, App) and i.fn in ("zeros", "empty") and length(ev, i) == Const(0):
                        continue
                    else:
                        flat.append(i)
                if len(flat) == 1:
                    return flat[0]
                return App("concat", flat, _kw(ev, kwargs))
        return App("concat_seq", (as_v(ev, x),), _kw(ev, kwargs))
    if name in ("empty", "zeros", "ones"):
        dt = kwargs.get("dtype", arg(1) if len(A) > 1 else None)
        kw = []
        if dt is not None and not (isinstance(dt, Const) and dt.value is None):
            from .evalr import ExtV
            last = dt.dotted.split(".")[-1] if isinstance(dt, ExtV) else (dt.value if isinstance(dt, Const) and isinstance(dt.value, str) else None)
            if last not in ("float", "float64", "double", "longdouble", "f8", "d"):
                # buffers of a fixed narrow integer width are told apart: counts stored into them wrap around at 2**31 (2**15, ...)
                kw = [("dtype", Const("int" if last in ("int", "int64", "intp", "i8", "int_", "longlong") else "bool" if last in ("bool", "bool_")
                               else "narrowint" if last in ("int32", "int16", "int8", "uint8", "uint16", "uint32", "i4", "i2", "i1", "intc", "short") else "other"))]
        return App(name, (as_v(ev, arg(0, "shape")),), kw)
    if name == "full":
        dt = kwargs.get("dtype")
        kw = []
        if dt is not None and not (isinstance(dt, Const) and dt.value is None):
            kw = [("dtype", as_v(ev, dt) if isinstance(as_v(ev, dt), V) else Const("other"))]
        return App("full", (as_v(ev, arg(0, "shape")), as_v(ev, arg(1, "fill_value"))), kw)
    if name in ("zeros_like", "empty_like", "ones_like"):
        kw = []
        if "shape" in kwargs:
            kw.append(("shape", as_v(ev, kwargs["shape"])))
        dt = kwargs.get("dtype")
        if dt is not None and not (isinstance(dt, Const) and dt.value is None):
            from .evalr import ExtV
            last = dt.dotted.split(".")[-1] if isinstance(dt, ExtV) else None
            kw.append(("dtype", Const("float" if last in ("float", "float64", "double") else "other")))
        return App(name, (as_v(ev, arg(0)),), kw)
    if name == "full_like":
        return App("full_like", (as_v(ev, arg(0)), as_v(ev, arg(1, "fill_value"))))
    if name in ("maximum", "minimum", "fmax", "fmin"):
        return mk_app("max" if "max" in name else "min", [as_v(ev, arg(0)), as_v(ev, arg(1))])
    if name == "clip":
        x, lo, hi = as_v(ev, arg(0, "a")), as_v(ev, arg(1, "a_min")), as_v(ev, arg(2, "a_max"))
        r = x if hi == Const(None) else mk_app("min", [hi, x])   # a bound of None is no bound
        return r if lo == Const(None) else mk_app("max", [lo, r])
    if name in ("floor", "ceil"):
        x0 = as_v(ev, arg(0))
        if isinstance(x0, Vec) and x0.items:
            return Vec([mk_app(name, [i]) for i in x0.items])
        return mk_app(name, [x0])
    if name == "any" and len(A) == 1 and not kwargs and isinstance(as_v(ev, A[0]), App) and as_v(ev, A[0]).fn == "or":
        # some element satisfies a or b  iff  some element satisfies a or some element satisfies b
        return disj([np_call(ev, "any", [d_], {}, node) for d_ in as_v(ev, A[0]).args])
    if name == "all" and len(A) == 1 and not kwargs and isinstance(as_v(ev, A[0]), App) and as_v(ev, A[0]).fn == "and":
        return conj([np_call(ev, "all", [d_], {}, node) for d_ in as_v(ev, A[0]).args])
    if name in ("any", "all") and len(A) == 1 and not kwargs:
        x0 = as_v(ev, A[0])
        if isinstance(x0, Const) and isinstance(x0.value, bool):
            return x0       # np.all(True) / np.any(False): a scalar truth value
        if isinstance(x0, Vec) and x0.items and all(is_boolish(i) for i in x0.items):
            return disj(list(x0.items)) if name == "any" else conj(list(x0.items))
    if name in ("abs", "absolute", "fabs"):
        return mk_app("abs", [as_v(ev, arg(0))])
    if name == "trace" and A:
        # trace over two axes = sum of the diagonal over those axes (offset 0)
        off = kwargs.get("offset", arg(1) if len(A) > 1 else None)
        if off is None or (isinstance(off, Const) and off.value == 0):
            a1 = kwargs.get("axis1", arg(2) if len(A) > 2 else Const(0))
            a2 = kwargs.get("axis2", arg(3) if len(A) > 3 else Const(1))
            d = np_call(ev, "diagonal", [A[0]], {"axis1": a1, "axis2": a2}, node)
            return np_call(ev, "sum", [d], {"axis": Const(-1)}, node)
    if name == "square":
        x0 = as_v(ev, arg(0))
        return ev.int_product(mul(x0, x0), x0, x0, node)
    if name == "power":
        return ev.int_product(powv(as_v(ev, arg(0)), as_v(ev, arg(1))), as_v(ev, arg(0)), as_v(ev, arg(1)), node)
    if name == "isscalar":
        x = arg(0)
        if isinstance(x, Const) and x.is_number():
            return TRUE
        if isinstance(x, (Lst, Tup)):
            return FALSE
        if isinstance(x, Sym):
            if "scalar" in x.tags:
                return TRUE
            if "array" in x.tags:
                return FALSE
        return App("isscalar", (as_v(ev, x),))
    if name == "nextafter":
        x, d = as_v(ev, arg(0)), as_v(ev, arg(1))
        if d == INF:
            return mk_app("nextafter_up", [x])
        if d == neg(INF):
            return mk_app("nextafter_down", [x])
        return App("nextafter", (x, d))
    if name in ("divide", "true_divide"):
        a, b = as_v(ev, arg(0)), as_v(ev, arg(1))
        if "where" in kwargs or "out" in kwargs:
            out = kwargs.get("out", Top("no out"))
            fill = Top("prior content of out")
            o = as_v(ev, out)
            if isinstance(o, App) and o.fn == "full_like":
                fill = o.args[1]
            elif isinstance(o, App) and o.fn == "zeros_like":
                fill = Const(0)
            elif isinstance(o, App) and o.fn == "zeros":
                fill = Const(0)
            elif isinstance(o, App) and o.fn == "full":
                fill = o.args[1]
            else:
                root = storage_root(o)
                if root is not None:
                    ev.event("inplace", how="out=", root=root, target="out", node=node, value=o)
            guard = as_v(ev, kwargs.get("where", TRUE))
            ev.event("lib", callee="numpy.divide", args=[a, b, fill, guard, o], node=node)
            return mk_app("gdiv", [a, b, fill, guard])
        if getattr(ev, "raw_float", False):
            return ev.binop("Div", a, b, node)      # IEEE-exactness mode: the quotient stays as written
        return div(a, b)
    if name in ("add", "subtract", "multiply"):
        a, b = as_v(ev, arg(0)), as_v(ev, arg(1))
        if "out" in kwargs:
            root = storage_root(as_v(ev, kwargs["out"]))
            if root is not None:
                ev.event("inplace", how="out=", root=root, target="out", node=node, value=kwargs["out"])
        if getattr(ev, "raw_float", False):
            return ev.binop({"add": "Add", "subtract": "Sub", "multiply": "Mult"}[name], a, b, node)
        r = {"add": add, "subtract": sub, "multiply": mul}[name](a, b)
        return ev.int_product(r, a, b, node) if name == "multiply" else r
    if name == "count_nonzero" and A and is_boolish(as_v(ev, A[0])):
        # the number of True entries of a boolean array is its sum
        return np_call(ev, "sum", [A[0]] + list(A[1:]), dict(kwargs), node)
    if name in ("not_equal", "equal", "less", "less_equal", "greater", "greater_equal") and len(A) == 2 and not kwargs:
        # the ufunc forms of the comparison operators
        return ev.compare({"not_equal": "NotEq", "equal": "Eq", "less": "Lt", "less_equal": "LtE", "greater": "Gt", "greater_equal": "GtE"}[name], A[0], A[1], node)
    if name in ("logical_and", "logical_or") and len(A) == 2 and not kwargs:
        x0, x1 = as_v(ev, A[0]), as_v(ev, A[1])
        if is_boolish(x0) and is_boolish(x1):
            return conj([x0, x1]) if name == "logical_and" else disj([x0, x1])     # the ufunc forms of & and | on boolean arrays
    if name == "logical_not" and len(A) == 1 and not kwargs:
        x0 = as_v(ev, A[0])
        if is_boolish(x0):
            return negate(x0)
    if name == "where":
        if len(A) == 3:
            return mk_app("where", [as_v(ev, A[0]), as_v(ev, A[1]), as_v(ev, A[2])])
        return App("nonzero", (as_v(ev, A[0]),))
    if name == "any" and len(A) == 1 and "axis" not in kwargs:
        xv = as_v(ev, A[0])
        b0 = xv
        while isinstance(b0, App) and b0.fn == "store":
            b0 = b0.args[0]
        if isinstance(b0, App) and b0.fn in ("rng:binomial", "rng:poisson"):
            # multiplicities are non-negative integers: any(x) is sum(x) != 0
            from .terms import cmp0
            return cmp0("ne", to_poly(np_call(ev, "sum", [xv], {}, node)))
    if name == "select":
        # np.select(condlist, choicelist, default=0): the first true condition wins
        cl, ch = arg(0, "condlist"), arg(1, "choicelist")
        dflt = as_v(ev, arg(2, "default", Const(0)))
        cs, vs = ev.concrete_items(cl), ev.concrete_items(ch)
        if cs is not None and vs is not None and len(cs) == len(vs):
            out = dflt
            for c, v in reversed(list(zip(cs, vs))):
                out = mk_app("where", [as_v(ev, c), as_v(ev, v), out])
            return out
    if name in ("sum", "nansum", "min", "max", "amin", "amax"):
        x = arg(0, "a")
        fn = {"min": "amin", "max": "amax"}.get(name, name)
        items = ev.concrete_items(x) if isinstance(x, (Lst, Tup)) else None
        if items is not None and name == "sum" and "axis" not in kwargs and all(to_poly(as_v(ev, i)) is not None for i in items):
            tot = Const(0)
            for i in items:
                tot = add(tot, as_v(ev, i))
            return tot
        kw = _kw(ev, kwargs)
        xv = as_v(ev, x)
        if name == "sum":
            blk = _block_sum(ev, xv, dict(kw).get("axis"))
            if blk is not None:
                return blk
            if isinstance(xv, App) and xv.fn == "not" and len(xv.args) == 1 and isinstance(xv.args[0], App) and xv.args[0].fn in ("isnan", "isfinite", "isinf") \
                    and len(xv.args[0].args) == 1 and dict(kw).get("axis") == Const(0) and set(dict(kw)) == {"axis"}:
                # counting the complement of an elementwise test along the first axis: #(not b) = N - #b (integer counts, exact)
                inner = xv.args[0]
                return sub(length(ev, inner.args[0]), App(fn, (inner,), kw))
        return App(fn, (xv,), kw)
    if name == "sqrt":
        return mk_app("sqrt", [as_v(ev, arg(0))])
    if name == "trapezoid":
        y = as_v(ev, arg(0, "y"))
        x = arg(1, "x")
        return App("trapezoid", (y, as_v(ev, x) if x is not None else Const(None)))
    if name.startswith("random."):
        rn = name.split(".", 1)[1]
        draw = ev.fresh("draw")
        r = App("rng:" + rn, [as_v(ev, a) for a in A] + [draw], _kw(ev, kwargs))
        ev.event("rng", source="numpy.random(global)", fn=rn, args=[as_v(ev, a) for a in A], kwargs=dict(kwargs), node=node, result=r)
        if rn == "shuffle":
            root = storage_root(as_v(ev, A[0]))
            if root is not None:
                ev.event("inplace", how="shuffle", root=root, target="arg0", node=node, value=A[0])
        if rn in ("default_rng", "RandomState", "Generator"):
            return Sym(draw.name.replace("draw", "rng"), ("rng", "fresh_rng"))
        return r
    if name == "isclose" and len(A) == 2 and not kwargs and same(as_v(ev, A[0]), as_v(ev, A[1])):
        return TRUE
    if name in ("shape", "ndim", "size") and len(A) == 1:
        return shape_fact(name, strip_fresh(as_v(ev, A[0])))
    if name == "finfo":
        return App("finfo", ())
    if name == "flip" and A:
        ax = arg(1, "axis")
        xv = as_v(ev, A[0])
        if ax is not None and is_const(as_v(ev, ax)) and const_of(as_v(ev, ax)) == 0:
            return getitem(ev, xv, App("slice", (Const(None), Const(None), Const(-1))))
        if (ax is None or ax == Const(None)) and _one_dimensional(xv):
            return getitem(ev, xv, App("slice", (Const(None), Const(None), Const(-1))))     # reversing every axis of a 1-d array
        return App("flip", (xv,), _kw(ev, kwargs))
    if name == "atleast_1d" and len(A) == 1:
        xv = as_v(ev, A[0])
        nd = shape_fact("ndim", strip_fresh(xv))
        if is_const(nd):
            return xv if const_of(nd) >= 1 else mk_app("expand_dims", [xv], [("axis", Const(0))])
        return ite(compare("==", nd, Const(0)), App("expand_dims", (xv,), [("axis", Const(0))]), xv)
    if name in ("diff", "negative", "subtract") and A:
        from .evalr import raw_dtype_root
        rs = [raw_dtype_root(as_v(ev, a)) for a in A[:2]]
        if (name == "subtract" and len(rs) == 2 and all(r is not None for r in rs)) or (name != "subtract" and rs[0] is not None):
            ev.event("raw_arith", op="np." + name, root=[r for r in rs if r is not None][0], node=node, text="np.%s(...)" % name)
    if name == "ravel" and len(A) == 1 and (kwargs.get("order") in (None, Const("C"))):
        return np_call(ev, "reshape", [A[0], Const(-1)], {}, node)  # C-order ravel is reshape(-1)
    if name in ("ravel", "flatten", "reshape") and kwargs.get("order") not in (None, Const("C")):
        # memory-order dependent flattening ("K"/"A"/"F") is not the logical (row-major) order of the elements
        return App("reorder:" + name, [as_v(ev, a) for a in A], _kw(ev, kwargs))
    if name == "reshape" and not kwargs:
        return mk_app("reshape", [as_v(ev, a) for a in A])
    if name in PURE_UNINTERPRETED:
        return App(name, [as_v(ev, a) for a in A], _kw(ev, kwargs))
    ev.note_unmodelled("numpy." + name, node)
    return App("ext:numpy." + name, [as_v(ev, a) for a in A], _kw(ev, kwargs))


def _one_dimensional(v, depth=0):
    """Provably 1-d: a flattened / 1-d-sorted array, slices and selections of such, and elementwise images of them."""
    if depth > 8 or not isinstance(v, App):
        return False
    if v.fn == "flatten" or (v.fn == "reshape" and len(v.args) == 2 and v.args[1] == Const(-1)) or v.fn in ("arange", "linspace", "nonzero_1d"):
        return True
    if v.fn in ("sort", "fresh", "asarray", "abs", "nextafter_up", "nextafter_down") and v.args:
        return _one_dimensional(v.args[0], depth + 1)
    if v.fn.startswith("RATE_") and v.args:            # rate stubs are elementwise in the threshold
        return _one_dimensional(v.args[0], depth + 1)
    if v.fn == "getitem" and len(v.args) == 2 and isinstance(v.args[1], App) and v.args[1].fn == "slice":
        return _one_dimensional(v.args[0], depth + 1)
    if v.fn in ("ite", "where") and len(v.args) == 3:
        return _one_dimensional(v.args[1], depth + 1) and _one_dimensional(v.args[2], depth + 1)
    if v.fn == "concat" and v.args:
        return all(_one_dimensional(a, depth + 1) for a in v.args)
    return False


def _is_full_slice(i):
    return isinstance(i, App) and i.fn == "slice" and all(a == Const(None) for a in i.args)


def _block_sum(ev, xv, axis):
    """sum(B[..., k, :, :], axis=(-1,-2)) for a buffer B of shape (..., 2, 2) = sum of the four cells read from B."""
    if not (isinstance(axis, Tup) and sorted(const_of(a) for a in axis.items if is_const(a)) == [-2, -1]):
        return None
    if isinstance(xv, App) and xv.fn == "store":
        sh = shape_of(xv)
        if sh is not None and len(sh.items) >= 2 and sh.items[-1] == Const(2) and sh.items[-2] == Const(2):
            tot = Const(0)
            for a in (0, 1):
                for b in (0, 1):
                    tot = add(tot, getitem(ev, xv, Tup([Const(Ellipsis), Const(a), Const(b)])))
            return tot
        return None
    if not (isinstance(xv, App) and xv.fn == "getitem" and isinstance(xv.args[1], Tup)):
        return None
    base, idx = xv.args
    items = idx.items
    if len(items) < 3 or not (_is_full_slice(items[-1]) and _is_full_slice(items[-2])):
        return None
    sh = shape_of(base)
    if sh is None or len(sh.items) < 2 or sh.items[-1] != Const(2) or sh.items[-2] != Const(2):
        return None
    tot = Const(0)
    for a in (0, 1):
        for b in (0, 1):
            tot = add(tot, getitem(ev, base, Tup(list(items[:-2]) + [Const(a), Const(b)])))
    return tot


def call_ext(ev, dotted, args, kwargs, node):
    from .evalr import Lst, Dct

    if dotted.startswith("builtins."):
        return call_builtin(ev, dotted.split(".", 1)[1], args, kwargs, node)
    if dotted in ("numpy.errstate", "numpy.printoptions"):
        return Sym("context_manager:" + dotted, ("contextmanager", "notnone"))   # changes how fp errors are REPORTED, not any value
    if dotted in ("numpy.seterr", "numpy.geterr", "numpy.set_printoptions"):
        return Const(None)
    if dotted.startswith("numpy."):
        return np_call(ev, dotted.split(".", 1)[1], args, kwargs, node)
    if dotted.startswith("scipy.stats.norm."):
        fn = dotted.rsplit(".", 1)[1]
        if fn in ("cdf", "sf", "ppf", "isf"):
            x = args[0] if args else kwargs.get("x", kwargs.get("q"))
            loc = args[1] if len(args) > 1 else kwargs.get("loc")
            scale = args[2] if len(args) > 2 else kwargs.get("scale")
            return _norm_call(ev, fn, x, loc, scale, node)
    if dotted == "scipy.stats.norm":
        # a frozen normal distribution: norm(loc, scale).cdf(x) is norm.cdf(x, loc, scale)
        loc = args[0] if args else kwargs.get("loc")
        scale = args[1] if len(args) > 1 else kwargs.get("scale")
        return App("frozen_norm", (as_v(ev, loc) if loc is not None else Const(None), as_v(ev, scale) if scale is not None else Const(None)))
    if dotted.startswith("scipy.stats."):
        return App(dotted.split("scipy.stats.", 1)[1], [as_v(ev, a) for a in args], _kw(ev, kwargs))
    if dotted in ("math.pow",):
        return powv_general(as_v(ev, args[0]), as_v(ev, args[1]))
    if dotted in ("math.log", "math.exp", "math.log10", "math.log2", "math.log1p", "math.expm1") and len(args) == 1 and not kwargs:
        return App(dotted.split(".")[1], (as_v(ev, args[0]),))      # pure elementary functions (uninterpreted)
    if dotted == "math.sqrt":
        return mk_app("sqrt", [as_v(ev, args[0])])
    if dotted in ("math.floor", "math.ceil"):
        return mk_app(dotted.split(".")[1], [as_v(ev, args[0])])
    if dotted == "functools.partial" and args:
        from .evalr import PartialV
        return PartialV(args[0], args[1:], kwargs)
    if dotted == "itertools.product" and args and not kwargs:
        import itertools as _it
        cols = [ev.concrete_items(a) for a in args]
        if all(c is not None for c in cols) and all(all(isinstance(x, V) for x in c) for c in cols):
            n = 1
            for c in cols:
                n *= max(1, len(c))
            if n <= 4096:
                return Lst([Tup(list(t)) for t in _it.product(*cols)])
    if dotted in ("itertools.chain",) and args and not kwargs:
        cols = [ev.concrete_items(a) for a in args]
        if all(c is not None for c in cols):
            return Lst([x for c in cols for x in c])
    if dotted in ("functools.lru_cache", "functools.cache"):
        from .evalr import FuncV
        # a value-keyed cache of a function is the function (the global-state rule reports where such caches are attached)
        if len(args) == 1 and isinstance(args[0], FuncV) and not kwargs:
            return args[0]
        return _IDENTITY_DECORATOR
    if dotted in ("functools.wraps",):
        from .evalr import ExtV, FuncV
        if len(args) == 1 and isinstance(args[0], FuncV):
            d = ExtV("sa.wraps")          # the decorator remembers what it wraps: wrapper.__wrapped__ is the original function
            d.wrapped = args[0]
            return d
        return _IDENTITY_DECORATOR
    # ---- observability: loggers, clocks, warning filters and floating-point error states neither produce nor change values
    if dotted in ("logging.getLogger",):
        return Sym("logger", ("logger", "notnone"))
    if dotted.startswith("logging.") and dotted.rsplit(".", 1)[1] in ("debug", "info", "warning", "error", "critical", "exception", "log", "basicConfig"):
        return Const(None)
    if dotted in ("time.perf_counter", "time.time", "time.monotonic", "time.process_time", "time.perf_counter_ns", "time.time_ns"):
        return ev.fresh("clock", ("float", "notnone", "clock"))
    if dotted in ("numpy.errstate", "contextlib.nullcontext", "warnings.catch_warnings", "contextlib.ExitStack"):
        return Sym("context_manager:" + dotted, ("contextmanager", "notnone"))
    if dotted in ("warnings.warn", "warnings.simplefilter", "warnings.filterwarnings"):
        ev.event("warn", fn=dotted, args=list(args), node=node)
        return Const(None)
    if dotted in ("dataclasses.dataclass", "dataclasses.field"):
        return _IDENTITY_DECORATOR
    if dotted == "dataclasses.replace":
        from .evalr import Obj
        src = args[0]
        if isinstance(src, Obj):
            o = Obj(src.cls, dict(src.attrs))
            o.attrs.update(kwargs)
            return o
    if dotted.startswith("operator.") or dotted.startswith("_operator."):
        fn = dotted.split(".", 1)[1].strip("_")
        cmp_ops = {"lt": "Lt", "le": "LtE", "gt": "Gt", "ge": "GtE", "eq": "Eq", "ne": "NotEq", "is": "Is", "is_not": "IsNot", "contains": None}
        bin_ops = {"add": "Add", "sub": "Sub", "mul": "Mult", "truediv": "Div", "floordiv": "FloorDiv", "mod": "Mod", "pow": "Pow",
                   "and": "BitAnd", "or": "BitOr", "xor": "BitXor", "matmul": "MatMult"}
        if fn in cmp_ops and cmp_ops[fn] and len(args) == 2:
            return ev.compare(cmp_ops[fn], args[0], args[1], node)
        if fn == "contains" and len(args) == 2:
            return contains(ev, args[0], args[1], node)
        if fn in bin_ops and len(args) == 2:
            return ev.binop(bin_ops[fn], args[0], args[1], node)
        if fn == "neg" and len(args) == 1:
            return neg(as_v(ev, args[0]))
        if fn == "not" and len(args) == 1:
            return negate(ev.truth(args[0]))
        if fn == "getitem" and len(args) == 2:
            return getitem(ev, args[0], args[1], node)
        if fn == "truth" and len(args) == 1:
            return ev.truth(args[0])
        if fn in ("methodcaller", "attrgetter", "itemgetter") and args and all(isinstance(a, Const) and isinstance(a.value, (str, int)) for a in args[:1]):
            from .evalr import OperatorV
            if fn == "methodcaller" or (len(args) == 1 and not kwargs):
                return OperatorV(fn, args[0].value, args[1:], kwargs)
    if dotted in ("copy.copy", "copy.deepcopy") and len(args) >= 1:
        from .evalr import Obj
        src = args[0]
        if isinstance(src, Obj):
            if dotted == "copy.copy":
                # shallow: the new instance shares every attribute value (mutable containers included) with the source
                o = Obj(src.cls, dict(src.attrs))
                return o

            def deep(v, memo):
                if id(v) in memo:
                    return memo[id(v)]
                if isinstance(v, Obj):
                    n = Obj(v.cls)
                    memo[id(v)] = n
                    n.attrs = {k: deep(x, memo) for k, x in v.attrs.items()}
                    return n
                if isinstance(v, Dct):
                    n = Dct()
                    memo[id(v)] = n
                    n.items = {k: deep(x, memo) for k, x in v.items.items()}
                    n.unknown = v.unknown
                    return n
                if isinstance(v, Lst) and not v.pappends and not v.unknown:
                    n = Lst([deep(x, memo) for x in v.items])
                    memo[id(v)] = n
                    return n
                if isinstance(v, V) and not isinstance(v, (Const, Tup)):
                    return App("fresh", (v,))
                return v
            return deep(src, {})
        if isinstance(src, V):
            return App("fresh", (src,)) if not isinstance(src, Const) else src
    if dotted == "warnings.warn":
        ev.event("warn", node=node)
        return Const(None)
    if dotted.startswith("pandas."):
        fn = dotted.split(".", 1)[1]
        ev.event("lib", callee=dotted, args=[as_v(ev, a) for a in args], kwargs={k: as_v(ev, v) for k, v in kwargs.items()}, node=node)
        return App("pd." + fn, [as_v(ev, a) for a in args], _kw(ev, kwargs))
    if dotted == "types.MappingProxyType" and len(args) == 1 and not kwargs:
        return args[0]      # a read-only view of the mapping: the same lookups
    if dotted.startswith("typing.") or dotted.startswith("collections.abc."):
        return App("type:" + dotted, ())
    ev.note_unmodelled(dotted, node)
    return App("ext:" + dotted, [as_v(ev, a) for a in args], _kw(ev, kwargs))


def _norm_call(ev, fn, x, loc, scale, node):
    """scipy.stats.norm.<fn>(x, loc, scale) for fn in cdf / sf / ppf / isf."""
    x = as_v(ev, x)
    if scale is not None and not (isinstance(as_v(ev, scale), Const)):
        # scipy.stats returns NaN wherever scale <= 0 (also for scale == 0, a degenerate distribution): recorded for rules whose
        # scale can vanish (the binomial standard error is 0 for a rate of exactly 0 or 1)
        ev.event("norm_scale", fn=fn, scale=as_v(ev, scale), node=node)
    if fn in ("ppf", "isf"):
        # a quantile taken at 1 - q: the complement is formed in floating point first (q below 1e-16 is lost entirely,
        # q = 1e-12 keeps 4 digits); the survival-function twin (isf for ppf, ppf for isf) takes q itself
        if isinstance(x, V) and x.key in getattr(ev, "complement_keys", ()):
            ev.event("tail_cancellation", op="%s(1 - q)" % fn, arg=x, node=node, text="norm.%s(%s)" % (fn, show(x, 60)))
    return norm_fn(fn, x, as_v(ev, loc) if loc is not None else None, as_v(ev, scale) if scale is not None else None)


def _is_shape_tuple(v, depth=0):
    if depth > 4:
        return False
    if isinstance(v, Tup):
        return True
    if isinstance(v, App):
        if v.fn in ("shape", "attr:shape"):
            return True
        if v.fn == "getitem" and len(v.args) == 2 and isinstance(v.args[1], App) and v.args[1].fn == "slice":
            return _is_shape_tuple(v.args[0], depth + 1)
        if v.fn in ("tupcat", "concat_tuple"):
            return True
    return False


def powv_general(a, b):
    # a ** (1/n) style powers stay uninterpreted but canonical
    return mk_app("pow", [a, b]) if not (is_const(b) and isinstance(const_of(b), int)) else powv(a, b)


class _IdentityDecorator:
    key = "identity-decorator"


_IDENTITY_DECORATOR = None


def _init_identity():
    global _IDENTITY_DECORATOR
    from .evalr import ExtV

    _IDENTITY_DECORATOR = ExtV("sa.identity")


# identity decorator handling is wired in call_ext via dotted name "sa.identity"
_orig_call_ext = call_ext


def call_ext(ev, dotted, args, kwargs, node):  # noqa: F811
    if _IDENTITY_DECORATOR is None:
        _init_identity()
    if dotted == "sa.identity":
        return args[0]
    return _orig_call_ext(ev, dotted, args, kwargs, node)


# --------------------------------------------------------------------------- values: attributes / methods

VALUE_ATTRS = {"shape", "ndim", "size", "T", "dtype", "values", "index", "columns", "loc", "iloc", "flat", "real"}


SEQUENCE_OK = {"__getitem__", "__len__", "__iter__", "index", "count", "copy", "__class__"}


def _raw_sequence_use(ev, v, what, node):
    """A caller-supplied array-like (documented as list / tuple / ndarray) used through an ndarray-only attribute or method
    before any numpy conversion: recorded as an event (a list argument raises AttributeError / TypeError here)."""
    if isinstance(v, Sym) and "arraylike" in v.tags:
        ev.event("raw_sequence_use", value=v, what=what, node=node)


def value_attr(ev, v, name, node):
    from .evalr import BoundExt, Lst, Dct, FuncV, LambdaV

    if name not in SEQUENCE_OK:
        _raw_sequence_use(ev, v, "." + name, node)

    if name == "kind" and isinstance(v, App) and v.fn == "attr:dtype" and v.args:
        src = strip_fresh(v.args[0])
        if isinstance(src, Sym):
            # the dtype kind of a value whose type the rule declares (a float significance level, an integer count)
            for tg, k in (("float", "f"), ("int", "i"), ("bool", "b")):
                if tg in src.tags and "array" not in src.tags:
                    return Const(k)
        if is_const(src) and isinstance(const_of(src), (bool, int, float, Fraction)):
            cv = const_of(src)      # np.asarray(0.05).dtype.kind
            return Const("b" if isinstance(cv, bool) else "i" if isinstance(cv, int) or (isinstance(cv, Fraction) and cv.denominator == 1 and not isinstance(src, Const)) else "f")
    if isinstance(v, V) and name in VALUE_ATTRS:
        base = strip_fresh(v)
        if name in ("shape", "ndim", "size"):
            return shape_fact(name, base)
        return App("attr:" + name, (v,))
    if isinstance(v, App) and v.fn == "finfo" and name in ("eps", "tiny", "resolution"):
        return Sym("machine_" + name, ("float", "positive"))
    if isinstance(v, FuncV) and name in ("__name__", "__doc__", "__wrapped__"):
        return Const(v.fi.name)
    return BoundExt(v, name)


def shape_of(v):
    """Shape tuple (Tup, possibly with Star packs) when derivable from the term."""
    v = strip_fresh(v)
    while isinstance(v, App) and v.fn in ("store", "fresh", "asarray", "zeros_like", "empty_like", "ones_like", "full_like", "after_loop", "carried") and v.args:
        if v.fn.endswith("_like") and v.kwd("shape") is not None:
            sh = v.kwd("shape")
            return sh if isinstance(sh, Tup) else (Tup([sh]) if is_const(sh) else None)
        v = strip_fresh(v.args[0])
    if isinstance(v, App) and v.fn in ("empty", "zeros", "ones", "full"):
        sh = v.args[0]
        if isinstance(sh, Tup):
            return sh
        if is_const(sh):
            return Tup([sh])
        return None
    return None


def shape_fact(name, base):
    if name == "ndim" and isinstance(base, Sym):
        for tg in base.tags:
            if tg.startswith("rank") and tg[4:].isdigit():
                return Const(int(tg[4:]))
    sh = shape_of(base)
    if sh is None:
        b = base
        while isinstance(b, App) and b.fn in ("store",):
            b = b.args[0]
        return App(name, (b,))
    if name == "shape":
        return sh
    if name == "size" and all(is_const(i) for i in sh.items):
        tot = Const(1)
        for i in sh.items:
            tot = mul(tot, i)
        return tot
    if name == "ndim":
        tot = Const(0)
        for i in sh.items:
            tot = add(tot, App("ndim", (strip_shape(i.inner),)) if isinstance(i, Star) else Const(1))
        return tot
    return App(name, (base,))


def strip_shape(v):
    if isinstance(v, App) and v.fn == "shape":
        return v.args[0]
    return App("of_shape", (v,))


METHOD_IDENTITY = {"item", "tolist", "squeeze_", "__float__"}
METHOD_PURE = {"sum", "std", "mean", "min", "max", "round", "any", "all", "flatten", "reshape", "ravel", "squeeze",
               "cumsum", "argsort", "argmin", "argmax", "nonzero", "transpose", "to_numpy", "apply", "reset_index",
               "to_markdown", "groupby", "keys", "items", "lower", "upper", "strip", "format", "startswith", "endswith",
               "ngroup", "itertuples", "unique", "isin", "dot", "clip", "repeat", "take", "conj", "prod", "var", "ptp",
               "searchsorted", "from_arrays", "from_tuples", "drop_duplicates", "sort_values", "to_list", "sort_index", "set_index", "from_frame", "droplevel",
               "agg", "transform", "head", "tail", "rename", "assign", "merge", "join_", "stack", "unstack", "pivot", "value_counts", "nunique", "duplicated", "get_loc", "isnull", "notnull", "dropna", "fillna", "map", "set_axis"}


NP_METHOD_FORMS = {"sum", "mean", "min", "max", "any", "all", "prod", "argmin", "argmax", "argsort", "nonzero", "cumsum", "std",
                   "clip", "take", "repeat", "squeeze", "ravel", "transpose", "round", "searchsorted", "diagonal"}


def call_method(ev, recv, name, args, kwargs, node):
    from .evalr import Lst, Dct, Obj, storage_root, RaiseSignal

    if name == "__getitem__" and len(args) == 1 and not kwargs:
        return getitem(ev, recv, args[0], node)

    if isinstance(recv, Obj) and getattr(recv, "nt_fields", None) is not None:
        if name == "_asdict" and not args and not kwargs:
            return Dct({Const(f): recv.attrs[f] for f in recv.nt_fields})
        if name == "_replace" and not args:
            new = dict((f, recv.attrs[f]) for f in recv.nt_fields)
            for k, v_ in kwargs.items():
                if k not in new:
                    raise AnalysisError("_replace: unknown field %s" % k)
                new[k] = v_
            return ev.construct(recv.cls, [], new, node) if hasattr(ev, "construct") else ev.instantiate(recv.cls, [], new, node)
    if name in ("union", "intersection", "difference", "symmetric_difference") and isinstance(recv, App) and recv.fn in ("set", "setof") and len(args) == 1 and not kwargs:
        # the method forms of the set operators: s.union(x) is s | set(x)
        other = call_builtin(ev, "set", [args[0]], {}, node)
        return ev.binop({"union": "BitOr", "intersection": "BitAnd", "difference": "Sub", "symmetric_difference": "BitXor"}[name], recv, other, node)
    if isinstance(recv, ListElem):
        if name == "append":
            loops = list(getattr(ev, "loop_stack", []))
            ev.event("elem_append", lst=recv.lst, index=recv.idx, value=args[0], loops=loops, node=node)
            if not hasattr(recv.lst, "elem_appends"):
                recv.lst.elem_appends = []
            recv.lst.elem_appends.append((recv.idx, args[0], [l[0] for l in loops]))
            return Const(None)
        return App("m:" + name, (as_v(ev, recv),) + tuple(as_v(ev, a) for a in args))
    if isinstance(recv, Lst):
        if name == "append":
            x = args[0]
            loops = getattr(ev, "loop_stack", [])
            if loops:
                lp = Tup([l[1] if isinstance(l[1], V) else Sym(str(l[0])) for l in loops])
                recv.pappends.append((lp, x))
                ev.event("list_append", lst=recv, value=x, loops=list(loops), node=node)
            else:
                recv.items.append(x)
            return Const(None)
        if name == "extend":
            c = ev.concrete_items(args[0])
            if c is None or getattr(ev, "loop_stack", []):
                recv.unknown = True
            else:
                recv.items.extend(c)
            return Const(None)
        if name == "copy":
            l = Lst(recv.items)
            l.pappends = list(recv.pappends)
            return l
        if name in ("sort", "reverse", "insert", "pop", "remove", "clear"):
            recv.unknown = True
            return Const(None)
        if name == "index" or name == "count":
            return App("list." + name, (as_v(ev, recv), as_v(ev, args[0])))
    if isinstance(recv, Dct):
        if name == "get":
            k = args[0]
            if k in recv.items:
                return recv.items[k]
            if not recv.unknown:
                return args[1] if len(args) > 1 else Const(None)
            return App("dict.get", (as_v(ev, recv), as_v(ev, k)) + ((as_v(ev, args[1]),) if len(args) > 1 else ()))
        if name == "keys":
            return Tup(list(recv.items.keys())) if not recv.unknown else App("dict.keys", (as_v(ev, recv),))
        if name == "values":
            return Lst(list(recv.items.values())) if not recv.unknown else App("dict.values", (as_v(ev, recv),))
        if name == "items":
            return Lst([Tup([k, as_v(ev, v)]) for k, v in recv.items.items()]) if not recv.unknown else App("dict.items", (as_v(ev, recv),))
        if name == "update" and len(args) == 1 and not kwargs and isinstance(args[0], Dct) and not args[0].unknown:
            recv.items.update(args[0].items)
            return Const(None)
        if name == "clear" and not args:
            recv.items.clear()
            recv.unknown = False
            return Const(None)
        if name == "copy" and not args:
            d = Dct(recv.items)
            d.unknown = recv.unknown
            return d
        from .evalr import ObjDictView
        if name == "pop" and isinstance(recv, ObjDictView) and 1 <= len(args) <= 2 and isinstance(args[0], Const) and isinstance(args[0].value, str):
            # obj.__dict__.pop("name", default): drops an instance attribute (the usual way to invalidate a cached_property)
            k = args[0].value
            if k in recv.obj.attrs:
                val = recv.obj.attrs.pop(k)
                ev.event("attr_delete", obj=recv.obj, attr=k, node=node)
                return val
            if len(args) == 2:
                return args[1]
            raise RaiseSignal(App("KeyError", (args[0],)), node)
        if name == "setdefault" and 1 <= len(args) <= 2:
            k = args[0]
            dflt = args[1] if len(args) > 1 else Const(None)
            cur = recv.items
            if k in cur:
                return cur[k]
            if not recv.unknown and (not cur or (isinstance(k, Const) and all(isinstance(x, Const) for x in cur))):
                if isinstance(recv, ObjDictView):
                    ev.event("attr_store", obj=recv.obj, attr=k.value, value=dflt, in_init=recv.obj.in_init > 0, node=node, empty=isinstance(dflt, Dct) and not dflt.items)
                    recv.obj.attrs[k.value] = dflt
                else:
                    recv.items[k] = dflt
                return dflt
        if name in ("update", "pop", "setdefault"):
            if isinstance(recv, ObjDictView):
                raise AnalysisError("unmodelled mutation of __dict__ (%s)" % name)
            recv.unknown = True
            return Top("dict mutation")
    if isinstance(recv, Const) and isinstance(recv.value, str):
        if name == "join":
            c = ev.concrete_items(args[0]) if not isinstance(args[0], V) or isinstance(args[0], Tup) else None
            if c is not None and all(isinstance(i, Const) and isinstance(i.value, str) for i in c):
                return Const(recv.value.join(i.value for i in c))
            return App("str.join", (recv, as_v(ev, args[0])))
        if name == "split":
            return App("str.split", (recv,) + tuple(as_v(ev, a) for a in args))
        if name == "format":
            return Top("str.format")
    v = as_v(ev, recv)
    if name in ("apply", "map") and args:
        from .evalr import LambdaV, FuncV
        if isinstance(args[0], (LambdaV, FuncV)):
            row = Sym("row", ("param", "notnone"))
            body = ev.call(args[0], [row], {})
            return App("m:" + name, (v, as_v(ev, body)), _kw(ev, kwargs))
    if name in ("item",):
        return v
    if name == "tolist":
        return App("tolist", (v,))
    if name == "astype":
        from .evalr import ExtV
        t = args[0] if args else kwargs.get("dtype")
        if isinstance(t, ExtV) and t.dotted.split(".")[-1] in ("float", "float64", "double", "longdouble"):
            kind = "float"
        elif isinstance(t, ExtV) and t.dotted.split(".")[-1] in ("int", "int64", "intp", "bool", "int_", "longlong", "bool_"):
            kind = "int"
        elif isinstance(t, ExtV) and t.dotted.split(".")[-1] in ("int32", "int16", "int8", "uint8", "uint16", "uint32", "intc", "short"):
            # a cast to a fixed narrow integer width wraps around silently (counts of 2**31 and more): kept visible for the buffer-width rules
            kind = "narrowint"
            ev.event("narrow_cast", node=node, value=v, to=t.dotted.split(".")[-1])
        else:
            kind = "other"
        if kind == "int" and storage_root(v) is None:
            return v
        return App("fresh", (v,), [("dtype", Const(kind))])
    if name == "copy":
        return App("fresh", (v,)) if storage_root(v) is not None else v
    if name == "sort" and isinstance(v, V):
        root = storage_root(v)
        if root is not None:
            ev.event("inplace", how=".sort()", root=root, target="receiver", node=node, value=v)
        return Const(None)
    if name in ("fill", "put", "resize", "partition", "setfield", "itemset", "setflags", "byteswap"):
        root = storage_root(v)
        if root is not None:
            ev.event("inplace", how="." + name + "()", root=root, target="receiver", node=node, value=v)
        return Const(None)
    if name == "split":
        return App("str.split", (v,) + tuple(as_v(ev, a) for a in args))
    if name == "join":
        return App("str.join", (v,) + tuple(as_v(ev, a) for a in args))
    if isinstance(v, Sym) and "logger" in v.tags:
        if name in ("debug", "info", "warning", "warn", "error", "critical", "exception", "log", "setLevel", "addHandler", "removeHandler"):
            return Const(None)
        if name in ("getChild",):
            return v
        if name in ("isEnabledFor", "hasHandlers"):
            return App("truthy", (App("m:" + name, (v,) + tuple(as_v(ev, a) for a in args)),))
    if isinstance(v, Sym) and "rng" in v.tags:
        args, kwargs = canonical_call("random." + name, list(args), dict(kwargs))
        draw = ev.fresh("draw")
        r = App("rng:" + name, [as_v(ev, a) for a in args] + [draw], _kw(ev, kwargs))
        ev.event("rng", source=v, fn=name, args=[as_v(ev, a) for a in args], kwargs=dict(kwargs), node=node, result=r)
        if name == "shuffle":
            root = storage_root(as_v(ev, args[0]))
            if root is not None:
                ev.event("inplace", how="shuffle", root=root, target="arg0", node=node, value=args[0])
            return Const(None)
        return r
    if name == "flatten":
        return App("flatten", (v,))
    if name == "reshape":
        if len(args) > 1:
            # x.reshape(a, b) is np.reshape(x, (a, b))
            return np_call(ev, "reshape", [v, Tup([as_v(ev, a) for a in args])], {}, node)
        return np_call(ev, "reshape", [v] + list(args), dict(kwargs), node)
    if name in NP_METHOD_FORMS and isinstance(v, V) and not (isinstance(v, Sym) and ("frame" in v.tags or "series" in v.tags)):
        # ndarray method forms of numpy functions: one canonical term per operation
        return np_call(ev, name, [v] + list(args), dict(kwargs), node)
    if name == "to_numpy" and not args and not kwargs and isinstance(v, V):
        return App("attr:values", (v,))     # frame / series .to_numpy() with the defaults is .values
    if isinstance(v, App) and v.fn == "frozen_norm" and name in ("cdf", "sf", "ppf", "isf") and (args or kwargs):
        x = args[0] if args else kwargs.get("x", kwargs.get("q"))
        loc, scale = v.args
        return _norm_call(ev, name, x, None if loc == Const(None) else loc, None if scale == Const(None) else scale, node)
    if name == "ppf" or name == "cdf":
        return App(name, (v,) + tuple(as_v(ev, a) for a in args), _kw(ev, kwargs))
    if name in METHOD_PURE:
        return App("m:" + name, (v,) + tuple(as_v(ev, a) for a in args), _kw(ev, kwargs))
    ev.note_unmodelled("method ." + name, node)
    return App("ext:m:" + name, (v,) + tuple(as_v(ev, a) for a in args), _kw(ev, kwargs))


# --------------------------------------------------------------------------- subscripts / membership

def _idx_disjoint(i, j):
    """Provably different constant index tuples."""
    if isinstance(i, Tup) and isinstance(j, Tup) and len(i.items) != len(j.items) and i.items and j.items \
            and i.items[0] == Const(Ellipsis) and j.items[0] == Const(Ellipsis):
        # both anchored at the end: compare the trailing positions
        for a, b in zip(reversed(i.items[1:]), reversed(j.items[1:])):
            if is_const(a) and is_const(b) and isinstance(const_of(a), int) and isinstance(const_of(b), int) and const_of(a) != const_of(b):
                return True
        return False
    if isinstance(i, Tup) and isinstance(j, Tup) and len(i.items) == len(j.items):
        for a, b in zip(i.items, j.items):
            if is_const(a) and is_const(b) and isinstance(const_of(a), int) and isinstance(const_of(b), int) and const_of(a) != const_of(b):
                return True
        return False
    if is_const(i) and is_const(j) and isinstance(const_of(i), int) and isinstance(const_of(j), int):
        return const_of(i) != const_of(j)
    return False


def _slab_read(sidx, ridx):
    """store index (Ellipsis, c1..ck) of constants vs read index (Ellipsis, j, c1..ck): the read addresses element j of the
    last axis of the stored value; returns the index into the stored value, else None."""
    if not (isinstance(sidx, Tup) and isinstance(ridx, Tup)):
        return None
    s, r = list(sidx.items), list(ridx.items)
    if not s or not r or s[0] != Const(Ellipsis) or r[0] != Const(Ellipsis) or len(r) != len(s) + 1:
        return None
    if any(not (is_const(x) and isinstance(const_of(x), int)) for x in s[1:]):
        return None
    if r[2:] != s[1:]:
        return None
    return Tup([Const(Ellipsis), r[1]])


def getitem(ev, base, idx, node=None):
    from .evalr import Lst, Dct, Obj, RaiseSignal, FuncV, ClassV

    if isinstance(base, ClassV) and base.ci.is_enum:
        members = ev.enum_members(base.ci)
        if isinstance(idx, Const):
            for m_ in members:
                if m_.name == idx.value:
                    return m_
            raise RaiseSignal(App("KeyError", (idx,)), node)
        for m_ in members[:-1]:
            if ev.decide(compare("==", idx, Const(m_.name))):
                return m_
        return members[-1]

    if isinstance(base, Obj) and getattr(base, "nt_fields", None) is not None and is_const(idx) and isinstance(const_of(idx), int):
        return base.attrs[base.nt_fields[const_of(idx)]]
    if isinstance(base, App) and base.fn == "shape" and len(base.args) == 1 and idx == Const(0):
        return length(ev, base.args[0])          # x.shape[0] is len(x)
    if isinstance(base, Obj):
        m = base.cls.find_method("__getitem__")
        if m is not None:
            return ev.call_function(FuncV(m, None, base, m.cls), [idx], {}, node)
        raise AnalysisError("subscript of object %r" % base)
    if isinstance(base, Dct):
        if idx in base.items:
            return base.items[idx]
        if not base.unknown and (not base.items or (isinstance(idx, Const) and all(isinstance(k, Const) for k in base.items))):
            raise RaiseSignal(App("KeyError", (as_v(ev, idx),)), node)
        if not base.unknown and isinstance(idx, V) and to_poly(idx) is not None:
            for k, v_ in base.items.items():
                if isinstance(k, V) and to_poly(k) is not None and ev.known_truth(compare("==", idx, k)) is True:
                    return v_     # the path condition says idx equals this key
        return App("dict.getitem", (as_v(ev, base), as_v(ev, idx)))
    if isinstance(base, Lst):
        if is_const(idx) and not base.pappends and not base.unknown:
            i = const_of(idx)
            if isinstance(i, int) and -len(base.items) <= i < len(base.items):
                return base.items[i]
        if hasattr(base, "comp") or base.pappends:
            # element of a list built in a parametric loop: keep the list object reachable
            return ListElem(base, idx)
        base = as_v(ev, base)
    if isinstance(base, ListElem):
        return App("getitem", (as_v(ev, base), as_v(ev, idx)))
    if isinstance(base, Tup) and is_const(idx) and isinstance(const_of(idx), int) and const_of(idx) < 0:
        tail = []
        for x in reversed(base.items):
            if isinstance(x, Star):
                break
            tail.append(x)
        if -const_of(idx) <= len(tail):
            return tail[-const_of(idx) - 1]
    if isinstance(base, Tup):
        if is_const(idx):
            i = const_of(idx)
            if isinstance(i, int) and -len(base.items) <= i < len(base.items) and not any(isinstance(x, Star) for x in base.items):
                return base.items[i]
        if isinstance(idx, App) and idx.fn == "slice" and all(is_const(a) for a in idx.args) and not any(isinstance(x, Star) for x in base.items):
            lo, hi, st = [const_of(a) for a in idx.args]
            return type(base)(base.items[slice(lo, hi, st)])
    if isinstance(base, Const) and isinstance(base.value, str) and is_const(idx):
        try:
            return Const(base.value[const_of(idx)])
        except Exception:
            pass
    base = as_v(ev, base)
    idx = as_v(ev, idx)
    if isinstance(base, Sym) and "arraylike" in base.tags and isinstance(idx, (Tup, Vec)) and not isinstance(idx, Const):
        _raw_sequence_use(ev, base, "[%s]" % idx.key[:30], node)
    # read through store chains
    b = base
    while isinstance(b, App) and b.fn in ("store", "carried"):
        if b.fn == "carried":
            inner = b.args[0]
            # a read through the loop-carried wrapper of a slab written before the loop (see below) looks through the wrapper
            if isinstance(inner, App) and inner.fn == "store" and _slab_read(inner.args[1], idx) is not None:
                b = inner
                continue
            break
        if b.args[1] == idx:
            return b.args[2]
        if _idx_disjoint(b.args[1], idx):
            b = b.args[0]
            continue
        sl = _slab_read(b.args[1], idx)
        if sl is not None and isinstance(b.args[2], V):
            # the store wrote a whole slab  B[..., a, b] = V  (V has one more trailing axis); B[..., j, a, b] reads V[..., j]
            return getitem(ev, b.args[2], sl, node)
        return App("getitem", (base, idx))
    if b is not base:
        base = b
    if isinstance(base, App) and base.fn in ("zeros", "zeros_like") and not (isinstance(idx, App)):
        return Const(0)
    if isinstance(base, App) and base.fn in ("empty", "empty_like") and not (isinstance(idx, App)):
        return App("uninitialised", (base, idx))
    return mk_app("getitem", [base, idx])


class ListElem:
    """`lst[i]` for a list built parametrically; supports .append in loops."""

    def __init__(self, lst, idx):
        self.lst, self.idx = lst, idx
        self.key = "listelem(%s,%s)" % (lst.key, getattr(idx, "key", "?"))


def contains(ev, container, item, node=None):
    from .evalr import Lst, Dct

    if isinstance(container, App) and container.fn == "set":
        if isinstance(item, (Const, EnumM)) and all(isinstance(a, (Const, EnumM)) for a in container.args):
            if any(isinstance(a, EnumM) for a in list(container.args) + [item]):
                rs = [ev.compare("Eq", item, a, node) for a in container.args]      # members of mixin enums equal their plain values
                if all(isinstance(r, Const) for r in rs):
                    return Const(any(r.value for r in rs))
            return Const(any(a == item for a in container.args))
        return disj([compare("==", item, a) for a in container.args]) if isinstance(item, V) else App("in", (as_v(ev, item), container))
    if isinstance(container, (Lst, Tup)):
        c = ev.concrete_items(container)
        if c is not None and isinstance(item, (Const, EnumM)) and all(isinstance(a, (Const, EnumM)) for a in c):
            return Const(any(a == item for a in c))
    if isinstance(container, Dct):
        if item in container.items:
            return TRUE
        if not container.unknown and container.items and isinstance(item, V) and all(isinstance(k, V) and to_poly(k) is not None for k in container.items) \
                and to_poly(item) is not None:
            # numeric keys: membership is equality with one of the keys
            return disj([compare("==", item, k) for k in container.items])
        if not container.unknown and (not container.items or (isinstance(item, Const) and all(isinstance(k, Const) for k in container.items))):
            return FALSE
    if isinstance(item, App) and item.fn == "elem" and isinstance(container, V) and item.args[0] == container:
        return TRUE
    if isinstance(container, Const) and isinstance(container.value, str) and isinstance(item, Const) and isinstance(item.value, str):
        return Const(item.value in container.value)
    return App("in", (as_v(ev, item), as_v(ev, container)))
