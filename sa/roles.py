"""
Role-based resolution of private anchors.

The rules name a dozen *private* helpers of the package (the inversion core, the index sampler, the bisection, the
support-point helper, ...).  Private names are the maintainers' to change: renaming such a helper, turning a private
static method into a module-level function, or moving it to another module must not blind the checks.  After the program
database is built, every canonical private anchor that no longer exists under its recorded name is looked up by its
ROLE in the call graph, starting from PUBLIC entry points (which the existing tests pin):

    canonical name                                   role
    Scores._threshold_at_ratio                       the private callee common to the six threshold_at_<metric> front-ends
    Scores._invert_increasing_function               the private callee of the above
    Scores._find_root                                the private function reachable from Scores.eer that contains a while loop
    Scores._sampling_method                          the private method reachable from Scores.bootstrap_sample that GroupScores overrides
    Scores._sample_indices                           the other private callee shared by Scores.bootstrap_sample and GroupScores.bootstrap_sample
    roc_curve._find_support_thresholds               the private callee common to roc and roc_with_ci
    roc_curve._apply_rule_of_three / _aggregate_...  the remaining private callees of roc_with_ci, told apart by call arity (4 / 3)
    ConfusionMatrix._assign_from_matrix / _predictions  private callees of ConfusionMatrix.__init__ receiving `matrix` / `labels`
    showbias._apply_normalization / _get_group_index / _validate_column_inputs   private callees of showbias()

When the role resolves to exactly one function, that FunctionInfo is re-labelled with the canonical qualified name (events,
stubs and reports use it) and registered under the canonical name in its class / module, next to its real name.  When it
does not resolve uniquely nothing is changed and the rules report the vanished anchor as INCONCLUSIVE, as before.
The renames applied are recorded in db.role_aliases (evidence).
"""
from __future__ import annotations

import ast

from .progdb import ClassInfo, FunctionInfo, ModuleInfo

S = "score_analysis.scores.Scores"
G = "score_analysis.group_scores.GroupScores"
RCM = "score_analysis.roc_curve"
CMQ = "score_analysis.cm.ConfusionMatrix"
SB = "score_analysis.showbias"


def _find(db, q):
    for f in db.all_functions():
        if f.qualname == q:
            return f
    return None


def _calls(db, fi):
    """[(callee FunctionInfo, call node)] for the statically resolvable calls in fi's body (self.X, X, mod.X, Class.X)."""
    out = []
    mod, cls = fi.module, fi.cls
    for call in [n for n in ast.walk(fi.node) if isinstance(n, ast.Call)]:
        fn = call.func
        tgt = None
        if isinstance(fn, ast.Name):
            r = db.resolve_name(mod, fn.id)
            if isinstance(r, FunctionInfo):
                tgt = r
        elif isinstance(fn, ast.Attribute):
            if isinstance(fn.value, ast.Name) and fn.value.id in ("self", "cls") and cls is not None:
                for c in cls.mro():
                    if isinstance(c, ClassInfo) and fn.attr in c.methods:
                        tgt = c.methods[fn.attr]
                        break
            elif isinstance(fn.value, ast.Name):
                r = db.resolve_name(mod, fn.value.id)
                if isinstance(r, ModuleInfo):
                    r2 = db.resolve_name(r, fn.attr)
                    if isinstance(r2, FunctionInfo):
                        tgt = r2
                elif isinstance(r, ClassInfo):
                    for c in r.mro():
                        if isinstance(c, ClassInfo) and fn.attr in c.methods:
                            tgt = c.methods[fn.attr]
                            break
            if tgt is None and isinstance(fn.value, ast.Name) and fn.attr.startswith("_") and not fn.attr.startswith("__"):
                # obj._private(...) on a local object of a package class: resolve by unique private method name
                cands = [m for mi in db.modules.values() for c in mi.classes.values() for n, m in c.methods.items() if n == fn.attr]
                if len(cands) == 1:
                    tgt = cands[0]
        if tgt is not None:
            out.append((tgt, call))
    return out


def _private(fi):
    """Private helper: an underscore name, or any function of a package-private module (`_numeric.find_monotone_root`)."""
    if fi.name.startswith("__"):
        return False
    return fi.name.startswith("_") or (fi.cls is None and fi.module.qualname.rsplit(".", 1)[-1].startswith("_"))


def _reach_private(db, start, limit=4):
    """Private functions reachable from `start` through private callees (the start's own direct callees included)."""
    seen, todo, out = {start.qualname}, [(start, 0)], []
    while todo:
        f, d = todo.pop()
        for g, call in _calls(db, f):
            if g.qualname in seen or not _private(g):
                continue
            seen.add(g.qualname)
            out.append((g, call, f))
            if d < limit:
                todo.append((g, d + 1))
    return out


def _relabel(db, fi, canonical, applied):
    if fi is None or fi.qualname == canonical:
        return
    old = fi.qualname
    owner, _, name = canonical.rpartition(".")
    fi.role_of = old
    fi.qualname = canonical
    # register under the canonical name as well (rules look helpers up by that name)
    for mi in db.modules.values():
        if mi.qualname == owner:
            mi.functions.setdefault(name, fi)
        for c in mi.classes.values():
            if c.qualname == owner:
                c.methods.setdefault(name, fi)
    applied[canonical] = old


def apply_roles(db):
    applied = {}
    try:
        _apply(db, applied)
    except Exception:  # noqa: BLE001  (resolution is best effort; the rules fail closed on vanished anchors)
        pass
    db.role_aliases = applied
    return applied


def _unique(items):
    qs = {}
    for f in items:
        qs[f.qualname] = f
    return list(qs.values())[0] if len(qs) == 1 else None


PUBLIC_ANCHORS = {
    "score_analysis.utils.binomial_ci", "score_analysis.utils.bootstrap_ci", "score_analysis.utils.invert_pl_function",
    "score_analysis.scores.pointwise_cm", "score_analysis.roc_curve.roc", "score_analysis.roc_curve.roc_with_ci",
    "score_analysis.showbias.showbias", "score_analysis.group_scores.groupwise",
    "score_analysis.applications.doc_fraud.binary_to_doc_label", "score_analysis.applications.doc_fraud.doc_to_binary_label",
}


def _reexports(db, applied):
    """A public function moved into a package-private module (`_stats.py`, `_numeric.py`, ...) and re-exported from its old public
    module keeps its public import path as its canonical name (rules, stubs and events address it by that path).  When several public
    modules import it, the path the rules know (PUBLIC_ANCHORS) wins, else the first in module order."""
    cands = {}
    for mq, mi in sorted(db.modules.items()):
        if mq.rsplit(".", 1)[-1].startswith("_"):
            continue
        for name, imp in sorted(mi.imports.items()):
            if imp[0] == "module" or name.startswith("_"):
                continue
            _k, base, sym = imp
            if base not in db.modules or not base.rsplit(".", 1)[-1].startswith("_") or base.rsplit(".", 1)[-1] == "__init__":
                continue
            r = db.resolve_name(mi, name)
            if isinstance(r, FunctionInfo) and r.cls is None and r.module.qualname == base:
                cands.setdefault(id(r), (r, []))[1].append(mq + "." + name)
    for r, paths in cands.values():
        if getattr(r, "role_of", None) is not None:
            continue
        known = [p_ for p_ in paths if p_ in PUBLIC_ANCHORS]
        _relabel(db, r, (known or paths)[0], applied)


def _apply(db, applied):
    _reexports(db, applied)
    # ---- threshold setting
    fronts = [_find(db, "%s.threshold_at_%s" % (S, m)) for m in ("tpr", "fnr", "tnr", "fpr", "topr", "tonr")]
    tar = _find(db, S + "._threshold_at_ratio")
    if tar is None and all(fronts):
        common = None
        for f in fronts:
            cs = {g.qualname: g for g, _c in _calls(db, f) if _private(g)}
            common = cs if common is None else {k: v for k, v in common.items() if k in cs}
        if common is not None and len(common) == 1:
            tar = list(common.values())[0]
            _relabel(db, tar, S + "._threshold_at_ratio", applied)
    if tar is not None and _find(db, S + "._invert_increasing_function") is None:
        inv = _unique([g for g, _c in _calls(db, tar) if _private(g) and g is not tar and g.kind != "property"])
        _relabel(db, inv, S + "._invert_increasing_function", applied)
    # ---- bisection
    eer = _find(db, S + ".eer")
    if eer is not None and _find(db, S + "._find_root") is None:
        cand = _unique([g for g, _c, _f in _reach_private(db, eer) if any(isinstance(n, ast.While) for n in ast.walk(g.node))])
        _relabel(db, cand, S + "._find_root", applied)
    # ---- sampling
    sb, gb = _find(db, S + ".bootstrap_sample"), _find(db, G + ".bootstrap_sample")
    gcls = None
    try:
        gcls = db.cls(G)
    except Exception:  # noqa: BLE001
        pass
    if sb is not None and gb is not None and gcls is not None:
        s_priv = {g.qualname: g for g, _c in _calls(db, sb) if _private(g) and g.cls is not None}
        g_priv = {}
        for g, _c in _calls(db, gb):
            if _private(g) and g.cls is not None:
                g_priv[g.name] = g
        if _find(db, S + "._sampling_method") is None:
            over = [f for f in s_priv.values() if f.name in gcls.methods and f.cls.qualname == S]
            sm = _unique(over)
            if sm is not None:
                gm = gcls.methods.get(sm.name)
                _relabel(db, sm, S + "._sampling_method", applied)
                if gm is not None and gm is not sm:
                    _relabel(db, gm, G + "._sampling_method", applied)
        if _find(db, S + "._sample_indices") is None:
            shared = [f for f in s_priv.values() if f.name in g_priv and f.name not in gcls.methods and f.cls.qualname == S]
            _relabel(db, _unique(shared), S + "._sample_indices", applied)
    # ---- ROC helpers
    roc, rwc = _find(db, RCM + ".roc"), _find(db, RCM + ".roc_with_ci")
    if roc is not None and rwc is not None:
        a = {g.qualname: g for g, _c in _calls(db, roc) if _private(g)}
        b = {g.qualname: g for g, _c in _calls(db, rwc) if _private(g)}
        fst = _find(db, RCM + "._find_support_thresholds")
        if fst is None:
            fst = _unique([a[k] for k in a if k in b])
            _relabel(db, fst, RCM + "._find_support_thresholds", applied)
        rest = [(g, c) for g, c in _calls(db, rwc) if _private(g) and g is not fst]
        by_arity = {}
        for g, c in rest:
            by_arity.setdefault(len(c.args) + len(c.keywords), {})[g.qualname] = g
        if _find(db, RCM + "._apply_rule_of_three") is None and len(by_arity.get(4, {})) == 1:
            _relabel(db, list(by_arity[4].values())[0], RCM + "._apply_rule_of_three", applied)
        if _find(db, RCM + "._aggregate_rectangles") is None and len(by_arity.get(3, {})) == 1:
            _relabel(db, list(by_arity[3].values())[0], RCM + "._aggregate_rectangles", applied)
    # ---- ConfusionMatrix constructors
    init = _find(db, CMQ + ".__init__")
    if init is not None:
        def passes(call, nm):
            return any(isinstance(x, ast.Name) and x.id == nm for x in list(call.args) + [k.value for k in call.keywords])
        reach = _reach_private(db, init, limit=1)
        if _find(db, CMQ + "._assign_from_matrix") is None:
            _relabel(db, _unique([g for g, c, _f in reach if passes(c, "matrix") and not passes(c, "labels")]), CMQ + "._assign_from_matrix", applied)
        if _find(db, CMQ + "._assign_from_predictions") is None:
            _relabel(db, _unique([g for g, c, _f in reach if passes(c, "labels") and passes(c, "predictions")]), CMQ + "._assign_from_predictions", applied)
    # ---- showbias helpers
    sbf = _find(db, SB + ".showbias")
    if sbf is not None:
        def passes(call, nm):  # noqa: F811
            return any(isinstance(x, ast.Name) and x.id == nm for x in list(call.args) + [k.value for k in call.keywords])
        cs = [(g, c) for g, c in _calls(db, sbf) if _private(g)]
        if _find(db, SB + "._apply_normalization") is None:
            _relabel(db, _unique([g for g, c in cs if passes(c, "normalize")]), SB + "._apply_normalization", applied)
        if _find(db, SB + "._get_group_index") is None:
            _relabel(db, _unique([g for g, c in cs if passes(c, "group_columns") and not passes(c, "data") and not passes(c, "normalize")]), SB + "._get_group_index", applied)
        if _find(db, SB + "._validate_column_inputs") is None:
            _relabel(db, _unique([g for g, c in cs if passes(c, "data") and passes(c, "group_columns") and not passes(c, "normalize")]), SB + "._validate_column_inputs", applied)
