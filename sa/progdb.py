"""
E0 — program database.  Parses every module of the package under analysis from the
current working tree (nothing is imported or executed) and indexes modules, imports,
classes (with bases), functions/methods (with decorators) and module-level assignments.
"""
from __future__ import annotations

import ast
import hashlib
import os
import warnings


class AnalysisError(Exception):
    """The analyser cannot derive a fact (INCONCLUSIVE): never a silent pass."""


class FunctionInfo:
    def __init__(self, module, node, cls=None, parent=None):
        self.module = module
        self.node = node
        self.cls = cls
        self.parent = parent
        self.name = node.name
        base = cls.qualname if cls else (parent.qualname + ".<locals>" if parent else module.qualname)
        self.qualname = base + "." + node.name
        self.decorators = [ast.unparse(d) for d in node.decorator_list]
        self.kind = "function"
        for d in self.decorators:
            if d == "staticmethod":
                self.kind = "staticmethod"
            elif d == "classmethod":
                self.kind = "classmethod"
            elif d == "property" or d.split(".")[-1] == "cached_property":
                # functools.cached_property has the VALUE semantics of a property; whether keeping the value is sound is a separate
                # question decided by the cache rules (c10.global_state / stale_cache_attrs, R19.8)
                self.kind = "property"
            elif d.endswith(".setter"):
                self.kind = "setter"

    @property
    def lineno(self):
        return self.node.lineno

    def where(self):
        return "%s:%d (%s)" % (self.module.relpath, self.node.lineno, self.qualname)

    def params(self):
        a = self.node.args
        return a

    def __repr__(self):
        return "<fn %s>" % self.qualname


class ClassInfo:
    def __init__(self, module, node):
        self.module = module
        self.node = node
        self.name = node.name
        self.qualname = module.qualname + "." + node.name
        self.base_exprs = [ast.unparse(b) for b in node.bases]
        self.decorators = [ast.unparse(d) for d in node.decorator_list]
        self.methods = {}      # name -> FunctionInfo (last definition that is not a setter)
        self.setters = {}      # name -> FunctionInfo
        self.assigns = []      # (name, value node, annotation node or None) in order
        self.bases = []        # resolved ClassInfo or external dotted names
        for st in node.body:
            if isinstance(st, (ast.FunctionDef, ast.AsyncFunctionDef)):
                fi = FunctionInfo(module, st, cls=self)
                if fi.kind == "setter":
                    self.setters[st.name] = fi
                else:
                    self.methods[st.name] = fi
            elif isinstance(st, ast.Assign):
                for t in st.targets:
                    if isinstance(t, ast.Name):
                        self.assigns.append((t.id, st.value, None))
            elif isinstance(st, ast.AnnAssign) and isinstance(st.target, ast.Name):
                self.assigns.append((st.target.id, st.value, st.annotation))

    @property
    def is_namedtuple(self):
        return any(b.split(".")[-1] == "NamedTuple" for b in self.base_exprs)

    @property
    def is_dataclass(self):
        return any(d.split("(")[0] in ("dataclass", "dataclasses.dataclass") for d in self.decorators)

    @property
    def is_enum(self):
        return any(isinstance(b, str) and b.split(".")[-1] in ("Enum", "IntEnum") for b in self.bases)

    def mro(self):
        out = [self]
        for b in self.bases:
            if isinstance(b, ClassInfo):
                for c in b.mro():
                    if c not in out:
                        out.append(c)
        return out

    def find_method(self, name):
        for c in self.mro():
            if name in c.methods:
                return c.methods[name]
        return None

    def find_setter(self, name):
        for c in self.mro():
            if name in c.setters:
                return c.setters[name]
        return None

    def find_assign(self, name):
        for c in self.mro():
            for n, v, _a in c.assigns:
                if n == name:
                    return c, v
        return None

    def __repr__(self):
        return "<class %s>" % self.qualname


class ModuleInfo:
    def __init__(self, db, qualname, path, relpath, is_pkg):
        self.db = db
        self.qualname = qualname
        self.path = path
        self.relpath = relpath
        self.is_pkg = is_pkg
        with open(path, "rb") as f:
            src = f.read()
        self.digest = hashlib.sha256(src).hexdigest()
        self.source = src.decode("utf-8")
        try:
            with warnings.catch_warnings():
                warnings.simplefilter("ignore")
                self.tree = ast.parse(self.source, filename=path)
        except SyntaxError as e:  # pragma: no cover
            raise AnalysisError("syntax error in %s: %s" % (relpath, e))
        self.imports = {}     # local name -> ("module", dotted) | ("symbol", module dotted, name)
        self.functions = {}
        self.classes = {}
        self.assigns = {}     # name -> value node (last module-level assignment)
        for st in self.tree.body:
            self._index(st)

    def _pkg(self):
        return self.qualname if self.is_pkg else self.qualname.rpartition(".")[0]

    def _index(self, st):
        if isinstance(st, ast.Import):
            for a in st.names:
                if a.asname:
                    self.imports[a.asname] = ("module", a.name)
                else:
                    self.imports[a.name.split(".")[0]] = ("module", a.name.split(".")[0])
        elif isinstance(st, ast.ImportFrom):
            base = st.module or ""
            if st.level:
                pkg = self._pkg().split(".")
                pkg = pkg[: len(pkg) - (st.level - 1)]
                base = ".".join(pkg + ([st.module] if st.module else []))
            for a in st.names:
                self.imports[a.asname or a.name] = ("symbol", base, a.name)
        elif isinstance(st, (ast.FunctionDef, ast.AsyncFunctionDef)):
            self.functions[st.name] = FunctionInfo(self, st)
        elif isinstance(st, ast.ClassDef):
            self.classes[st.name] = ClassInfo(self, st)
        elif isinstance(st, ast.Assign):
            for t in st.targets:
                if isinstance(t, ast.Name):
                    self.assigns[t.id] = st.value
        elif isinstance(st, ast.AnnAssign) and isinstance(st.target, ast.Name) and st.value is not None:
            self.assigns[st.target.id] = st.value
        elif isinstance(st, (ast.If, ast.Try)):
            for sub in ast.iter_child_nodes(st):
                if isinstance(sub, ast.stmt):
                    self._index(sub)


class ProgramDB:
    def __init__(self, root="/repo", package="score_analysis"):
        self.root = root
        self.package = package
        self.modules = {}
        pkgdir = os.path.join(root, package)
        if not os.path.isdir(pkgdir):
            raise AnalysisError("package directory %s not found" % pkgdir)
        for dirpath, dirnames, filenames in os.walk(pkgdir):
            dirnames[:] = sorted(d for d in dirnames if d != "__pycache__")
            for fn in sorted(filenames):
                if not fn.endswith(".py"):
                    continue
                path = os.path.join(dirpath, fn)
                rel = os.path.relpath(path, root)
                parts = rel[:-3].split(os.sep)
                is_pkg = parts[-1] == "__init__"
                if is_pkg:
                    parts = parts[:-1]
                q = ".".join(parts)
                self.modules[q] = ModuleInfo(self, q, path, rel, is_pkg)
        for m in self.modules.values():
            for c in m.classes.values():
                c.bases = [self._resolve_base(m, b) for b in c.base_exprs]

    # -- resolution -------------------------------------------------------------------
    def _resolve_base(self, module, expr):
        r = self.resolve_name(module, expr.split(".")[0])
        if expr.count("."):
            return self.dotted_external(module, expr)
        if isinstance(r, ClassInfo):
            return r
        return self.dotted_external(module, expr)

    def dotted_external(self, module, expr):
        head, _, rest = expr.partition(".")
        imp = module.imports.get(head)
        if imp and imp[0] == "module":
            return imp[1] + ("." + rest if rest else "")
        if imp and imp[0] == "symbol":
            return imp[1] + "." + imp[2] + ("." + rest if rest else "")
        return expr

    def resolve_name(self, module, name, _seen=None):
        """Resolve a module-level name to FunctionInfo / ClassInfo / ModuleInfo /
        ('assign', module, node) / ('external', dotted) / None."""
        _seen = _seen or set()
        if (module.qualname, name) in _seen:
            return None
        _seen.add((module.qualname, name))
        if name in module.functions:
            return module.functions[name]
        if name in module.classes:
            return module.classes[name]
        if name in module.assigns:
            return ("assign", module, module.assigns[name])
        imp = module.imports.get(name)
        if imp is None:
            return None
        if imp[0] == "module":
            if imp[1] in self.modules:
                return self.modules[imp[1]]
            return ("external", imp[1])
        _k, base, sym = imp
        if base in self.modules:
            sub = base + "." + sym
            target = self.modules[base]
            r = self.resolve_name(target, sym, _seen)
            if r is not None:
                return r
            if sub in self.modules:
                return self.modules[sub]
            return None
        if base.split(".")[0] == self.package:
            return None
        return ("external", base + "." + sym)

    # -- enumeration ------------------------------------------------------------------
    def all_functions(self):
        for m in self.modules.values():
            for f in m.functions.values():
                yield f
            for c in m.classes.values():
                for f in c.methods.values():
                    yield f
                for f in c.setters.values():
                    yield f

    def function(self, qualname):
        for f in self.all_functions():
            if f.qualname == qualname:
                return f
        # a public function that moved to another module and is re-exported under its old import path (`from ._stats import binomial_ci`)
        mod, _, name = qualname.rpartition(".")
        m = self.modules.get(mod)
        if m is not None:
            r = self.resolve_name(m, name)
            if isinstance(r, FunctionInfo):
                return r
        raise AnalysisError("anchor vanished: function %s not found" % qualname)

    def cls(self, qualname):
        mod, _, name = qualname.rpartition(".")
        m = self.modules.get(mod)
        if m is None or name not in m.classes:
            raise AnalysisError("anchor vanished: class %s not found" % qualname)
        return m.classes[name]

    def module(self, qualname):
        if qualname not in self.modules:
            raise AnalysisError("anchor vanished: module %s not found" % qualname)
        return self.modules[qualname]

    def subclasses(self, cls):
        out = []
        for m in self.modules.values():
            for c in m.classes.values():
                if c is not cls and cls in c.mro():
                    out.append(c)
        return out

    def stats(self):
        nfun = sum(1 for _ in self.all_functions())
        ncalls = 0
        for m in self.modules.values():
            ncalls += sum(1 for n in ast.walk(m.tree) if isinstance(n, ast.Call))
        return {"modules": len(self.modules), "functions": nfun, "call_sites": ncalls,
                "classes": sum(len(m.classes) for m in self.modules.values())}

    def digest(self):
        h = hashlib.sha256()
        for q in sorted(self.modules):
            h.update(q.encode())
            h.update(self.modules[q].digest.encode())
        return h.hexdigest()[:16]
