"""
E6 — duality (mirror) lint.

For functions that treat two classes symmetrically, apply the identifier involution
sigma (pos<->neg, fnr<->fpr, ...) on names, attributes and keyword names (never on string
literals).  Two statements with the same skeleton whose *targets* are sigma-images of each
other must have sigma-image identifier occurrences everywhere: a statement that defines
X_neg from the same shape of expression as X_pos but leaves one identifier un-swapped is
the copy/paste signature ("partial mirror") and is reported.  A missing mirror alone is
not reported (asymmetry may be by design).
"""
from __future__ import annotations

import ast
import re

PAIRS = [("pos", "neg"), ("fnr", "fpr"), ("tpr", "tnr"), ("genuines", "frauds"), ("genuine", "fraud"), ("lower", "upper"), ("frr", "far"), ("tar", "trr")]


def make_sigma(pairs):
    m = {}
    for a, b in pairs:
        m[a] = b
        m[b] = a
    rx = re.compile(r"(?<![A-Za-z0-9])(" + "|".join(sorted(m, key=len, reverse=True)) + r")(?![A-Za-z0-9])")

    def parts(ident):
        """split identifier into tokens on '_' boundaries; return list of (token, swappable)"""
        return ident.split("_")

    def sig(ident):
        return "_".join(m.get(t, t) for t in ident.split("_"))

    def occ(ident):
        return [t for t in ident.split("_") if t in m]

    return sig, occ, m


class _Skel(ast.NodeTransformer):
    """Replace swappable identifier tokens by a placeholder; collect occurrences in order."""

    def __init__(self, occ, m):
        self.occ, self.m, self.found = occ, m, []

    def _id(self, s):
        toks = s.split("_")
        out = []
        for t in toks:
            if t in self.m:
                self.found.append(t)
                out.append("¤")
            else:
                out.append(t)
        return "_".join(out)

    def visit_Name(self, n):
        return ast.copy_location(ast.Name(id=self._id(n.id), ctx=n.ctx), n)

    def visit_Attribute(self, n):
        self.generic_visit(n)
        n.attr = self._id(n.attr)
        return n

    def visit_keyword(self, n):
        if n.arg:
            n.arg = self._id(n.arg)
        self.generic_visit(n)
        return n

    def visit_arg(self, n):
        n.arg = self._id(n.arg)
        return n


def simple_statements(fn_node):
    out = []
    for n in ast.walk(fn_node):
        if isinstance(n, (ast.Assign, ast.AugAssign, ast.AnnAssign, ast.Return, ast.Expr)) and not (isinstance(n, ast.Expr) and isinstance(n.value, ast.Constant)):
            out.append(n)
        elif isinstance(n, ast.If):
            out.append(ast.Expr(value=n.test, lineno=n.lineno, col_offset=0))
        elif isinstance(n, ast.keyword) and n.arg and isinstance(getattr(n, "value", None), ast.AST):
            # keyword arguments of constructor calls: `pos=..., neg=...` behave like mirrored definitions
            out.append(ast.Assign(targets=[ast.Name(id=n.arg, ctx=ast.Store())], value=n.value, lineno=getattr(n.value, "lineno", 0), col_offset=0))
    return out


def target_occurrences(st, occ):
    ids = []
    tg = []
    if isinstance(st, ast.Assign):
        tg = st.targets
    elif isinstance(st, (ast.AugAssign, ast.AnnAssign)):
        tg = [st.target]
    for t in tg:
        for n in ast.walk(t):
            if isinstance(n, ast.Name):
                ids += occ(n.id)
            elif isinstance(n, ast.Attribute):
                ids += occ(n.attr)
    return ids


def lint(fn_node, pairs=PAIRS, exempt=()):
    """Returns (n_mirrored_pairs, findings) where findings are dicts with line/statement/partner/details."""
    import copy

    sig, occ, m = make_sigma(pairs)
    items = []
    for st in simple_statements(fn_node):
        sk = _Skel(occ, m)
        tree = sk.visit(copy.deepcopy(st))
        ast.fix_missing_locations(tree)
        try:
            skel = ast.dump(tree, include_attributes=False)
        except Exception:
            continue
        if not sk.found:
            continue
        items.append({"st": st, "skel": skel, "occ": sk.found, "tocc": target_occurrences(st, occ), "src": ast.unparse(st), "line": getattr(st, "lineno", 0)})
    findings, pairs_ok = [], 0
    for i, a in enumerate(items):
        if not a["tocc"]:
            continue
        for b in items[i + 1:]:
            if a["skel"] != b["skel"] or not b["tocc"]:
                continue
            if b["tocc"] != [m[t] for t in a["tocc"]]:
                continue
            # the involution that maps the targets onto each other: only the token pairs that actually occur in the
            # targets are "active"; tokens of other pairs (e.g. lower/upper inside an fnr/fpr mirror) are unconstrained
            active = set(a["tocc"]) | set(b["tocc"])
            want = [m[t] if t in active else None for t in a["occ"]]
            if all(w is None or x == w for x, w in zip(b["occ"], want)):
                pairs_ok += 1
                continue
            if a["src"] in exempt or b["src"] in exempt:
                continue
            diff = [k for k, (x, y) in enumerate(zip(b["occ"], want)) if y is not None and x != y]
            findings.append({"line": b["line"], "statement": b["src"], "partner_line": a["line"], "partner": a["src"],
                             "detail": "identifier(s) %s are not the mirror image of the partner statement (expected %s)" % (
                                 [b["occ"][k] for k in diff], [want[k] for k in diff])})
    return pairs_ok, findings
