"""Shared machinery for the threshold-setting cluster (C02, C03, C08, C09)."""
from __future__ import annotations

from fractions import Fraction

from ..numeval import Arr, CannotEvaluate, Eps, ekey, evaluate, holds
from ..spec import GAMMAS, SCORES, POS, NEG, EP, EN, T, returns, raises, pc_text, unmodelled_text
from ..terms import App, Const, Sym, Tup, same, show, sub, add, subst, atoms_of, to_poly, mk_num

METRICS = ("tpr", "fnr", "tnr", "fpr", "topr", "tonr")
ALIASES = {"tar": "tpr", "frr": "fnr", "trr": "tnr", "far": "fpr", "acceptance_rate": "topr", "rejection_rate": "tonr"}
METHODS = ("linear", "lower", "higher")
R = Sym("r", ("param", "array", "notnone"))
TAR = SCORES + "._threshold_at_ratio"
INV = SCORES + "._invert_increasing_function"

def cache_of(ctx):
    """Per-context memo (never module-level: a recycled id() of a dead context must not resurrect results of another tree)."""
    return ctx.__dict__.setdefault("_memo", {})


_cache = None  # removed: see cache_of


def explore_threshold(ctx, chk, metric, sc, ec, method, cls=SCORES, stub=None):
    """Outcomes of obj.threshold_at_<metric>(r, method=<method>) (optionally stubbing a helper)."""
    key = (metric, sc, ec, method, cls, stub, ctx.ev.raw_float)
    _c = cache_of(ctx)
    if key in _c:
        return _c[key]
    captured = []
    if stub:
        def handler(ev, fi, bound):
            captured.append((dict(bound), len(ev.pc)))
            return App("STUB", (Const(len(captured) - 1),))
        ctx.ev.stubs[stub] = handler
    try:
        kw = {"method": Const(method)} if method is not None else {}
        outs = ctx.explore(lambda: ctx.ev.call(ctx.method(ctx.scores_obj(sc, ec, cls), "threshold_at_" + metric), [R], kw), chk)
    finally:
        if stub:
            ctx.ev.stubs.pop(stub, None)
    # captured entries are appended per path in exploration order; attach to outcomes by STUB index
    from ..terms import walk, V
    for o in outs:
        o.captured = None
        o.captured_pclen = None
        hits = []
        if isinstance(o.value, V):
            # the helper's result may be post-processed by the front-end (`.item()` for scalar targets, a final asarray): find the stub inside
            walk(o.value, lambda x: hits.append(x) if isinstance(x, App) and x.fn == "STUB" else None)
        if hits:
            o.captured, o.captured_pclen = captured[hits[0].args[0].value]
    _c[key] = outs
    return outs


def explore_rate(ctx, chk, metric, sc, ec, cls=SCORES):
    key = ("rate", metric, sc, ec, cls)
    _c = cache_of(ctx)
    if key not in _c:
        _c[key] = ctx.explore(lambda: ctx.ev.call(ctx.method(ctx.scores_obj(sc, ec, cls), metric), [T], {}), chk)
    return _c[key]


def rate_term(ctx, chk, metric, sc, ec):
    rets = returns(explore_rate(ctx, chk, metric, sc, ec))
    if len(rets) != 1 or rets[0].unmodelled:
        return None
    return rets[0].value


# ---------------------------------------------------------------- representatives of order types

def F(x, d=1):
    return Fraction(x) / d


SCORE_REPS = {
    # name: (pos, neg)  -- generic distinct interleavings, separated, single elements, ties
    "1v1": ((20,), (10,)),
    "1v1inv": ((10,), (20,)),
    "2v2": ((20, 40), (10, 30)),
    "3v2": ((10, 30, 50), (20, 40)),
    "2v3sep": ((40, 50), (10, 20, 30)),
    "4v1": ((10, 20, 30, 40), (25,)),
    "ties": ((10, 10, 20), (10, 20, 20)),
    "alltied": ((10, 10), (10, 10)),
}
SCORE_REPS_THOROUGH = dict(SCORE_REPS, **{
    "5v3": ((10, 30, 50, 70, 90), (20, 40, 60)),
    "3v5inv": ((60, 80, 100), (10, 20, 30, 40, 50)),
    "crosstie-lo": ((10, 30, 40), (10, 20)),
    "crosstie-hi": ((10, 20, 40), (30, 40)),
    "dup-within": ((10, 10, 30, 30), (20, 20, 40)),
    "1v4": ((25,), (10, 20, 30, 40)),
})
EASY_REPS = ((0, 0), (2, 0), (0, 3), (1, 2))
EASY_REPS_THOROUGH = EASY_REPS + ((5, 1), (1, 7))


def reps_for(tier):
    return list((SCORE_REPS_THOROUGH if tier == "thorough" else SCORE_REPS).items())


def easy_for(tier, quick_n=3):
    return EASY_REPS_THOROUGH if tier == "thorough" else EASY_REPS[:quick_n]
TARGET_REPS = tuple(F(a) / b for a, b in ((-1, 2), (0, 1), (1, 8), (1, 4), (1, 3), (1, 2), (2, 3), (3, 4), (7, 8), (1, 1), (3, 2)))
EXTREME_TARGETS = (F(-1, 2), F(0), F(1), F(1) + F(1, 1000), F(3, 2), F(5, 4), F(2))


def env_for(pos, neg, ep, en, r=None, t=None):
    env = {POS: Arr(F(x) for x in pos), NEG: Arr(F(x) for x in neg), EP: F(ep), EN: F(en)}
    if r is not None:
        env[R] = r
    if t is not None:
        env[T] = t
    return env


def pick_value(outs, env):
    """Value of the unique outcome whose path condition holds under env; ('raise', exc) for raise paths."""
    hit = None
    for o in outs:
        e = dict(env)
        e.pop("__memo__", None)
        if holds(o.pc, e):
            if hit is not None:
                raise CannotEvaluate("two paths feasible")
            hit = (o, e)
    if hit is None:
        raise CannotEvaluate("no feasible path")
    o, e = hit
    if o.kind == "raise":
        return ("raise", o.value)
    return evaluate(o.value, e)


def rate_at(rate, pos, neg, ep, en, t):
    v = evaluate(rate, env_for(pos, neg, ep, en, t=t))
    return v


def rate_range(rate, pos, neg, ep, en):
    allv = list(pos) + list(neg)
    lo_t, hi_t = Eps(min(allv) - 5, 0), Eps(max(allv) + 5, 0)
    a, b = rate_at(rate, pos, neg, ep, en, lo_t), rate_at(rate, pos, neg, ep, en, hi_t)
    return min(a, b), max(a, b)
