"""C09 — virtual easy samples behave like materialised extreme scores (DESIGN §4 C09)."""
from __future__ import annotations

from fractions import Fraction

from ..numeval import CannotEvaluate, evaluate
from ..spec import GAMMAS, SCORES, POS, NEG, EP, EN, T, returns, raises, unmodelled_text, pc_text
from ..terms import App, Const, Num, Sym, Tup, same, show, sub, add, mul, div, subst, atoms_of, to_poly, mk_num, negate, neg
from ..simp import mk_app
from .c01 import derive_cm_table
from .thr import METRICS, METHODS, R, TAR, env_for, explore_threshold, rate_term, SCORE_REPS

LEVEL = "other"
HP, HN = App("len", (POS,)), App("len", (NEG,))
ALL = add(add(HP, HN), add(EP, EN))
RATIOS = {
    "hard_pos_ratio": div(HP, add(HP, EP)), "hard_neg_ratio": div(HN, add(HN, EN)),
    "easy_pos_ratio": div(EP, add(HP, EP)), "easy_neg_ratio": div(EN, add(HN, EN)),
    "easy_ratio": div(add(EP, EN), ALL), "hard_ratio": div(add(HP, HN), ALL),
    "nb_easy_samples": add(EP, EN), "nb_hard_pos": HP, "nb_hard_neg": HN, "nb_hard_samples": add(HP, HN),
    "nb_all_pos": add(HP, EP), "nb_all_neg": add(HN, EN), "nb_all_samples": ALL,
}


def zero_facts(pc):
    """Atoms forced to 0 by path conditions of the form `not (E1 + E2 + ... > 0)` over non-negative counts."""
    m = {}
    for c, taken in pc:
        cc = c if taken else negate(c)
        if isinstance(cc, App) and cc.fn == "le0":
            p = to_poly(cc.args[0])
            if p.const_value() == 0 and all(co > 0 and len(mo) == 1 and mo[0][1] == 1 and mo[0][0] in (EP, EN, HP, HN) for mo, co in p.t.items()):
                for mo in p.t:
                    m[mo[0][0]] = Const(0)
    return m


def ite_cases(pc, v, depth=3):
    """[(path condition, value)]: every conditional expression merged into an `ite` term is split into its two cases, dropping a case the path
    condition already contradicts (counts are non-negative: `Ep + len(pos) > 0` follows from `len(pos) != 0`)."""
    def positive(a, pc_):
        for c, t in pc_:
            if isinstance(c, App) and c.fn == "eq0" and c.args and same(c.args[0], a) and not t:
                return True
            if isinstance(c, App) and c.fn == "lt0" and c.args and same(c.args[0], neg(a)) and t:
                return True
        return False

    def decided(cond, pc_):
        # cond = lt0(-(sum of non-negative counts))  i.e.  sum > 0
        if isinstance(cond, App) and cond.fn == "lt0":
            p = to_poly(neg(cond.args[0]))
            if p is not None and p.const_value() == 0 and all(co > 0 and len(mo) == 1 and mo[0][1] == 1 and mo[0][0] in (EP, EN, HP, HN) for mo, co in p.t.items()):
                if any(positive(mo[0][0], pc_) for mo in p.t):
                    return True
        for c, t in pc_:
            if c == cond:
                return t
        return None
    cases = [(list(pc), v)]
    for _ in range(depth):
        nxt = []
        for pc_, v_ in cases:
            it_ = next((a for a in [v_] + list(atoms_of(v_)) if isinstance(a, App) and a.fn == "ite" and len(a.args) == 3), None) if hasattr(v_, "key") else None
            if it_ is None:
                nxt.append((pc_, v_))
                continue
            d = decided(it_.args[0], pc_)
            for pol, arm in ((True, it_.args[1]), (False, it_.args[2])):
                if d is not None and d != pol:
                    continue
                nxt.append((pc_ + [(it_.args[0], pol)], subst(v_, {it_: arm}) if v_ != it_ else arm))
        cases = nxt
    return cases


def unclamp(v):
    """Drop monotone clamps to [0, 1] (they only matter at the ends of the scale, decided by C03)."""
    for _ in range(6):
        mp = {}
        for a in atoms_of(v):
            if isinstance(a, App) and a.fn in ("min", "max") and len(a.args) == 2:
                cs = [x for x in a.args if x in (Const(0), Const(1))]
                xs = [x for x in a.args if x not in (Const(0), Const(1))]
                if len(cs) == 1 and len(xs) == 1 and ((a.fn == "min" and cs[0] == Const(1)) or (a.fn == "max" and cs[0] == Const(0))):
                    mp[a] = xs[0]
        if not mp:
            return v
        v = subst(v, mp)
    return v


def extremes(rate):
    """Value of the derived rate with no / all hard samples of each class counted (count atoms -> 0 / len)."""
    lo, hi = {}, {}
    for a in atoms_of(rate):
        if isinstance(a, App) and a.fn in ("count_lt", "count_le"):
            lo[a] = Const(0)
            hi[a] = App("len", (a.args[0],))
    return subst(rate, lo), subst(rate, hi)


def value_of_rate(rate):
    """where-defined value of a guarded quotient term."""
    from .c04 import devalue
    return devalue(rate)[0]


def run(ctx, chk, tier):
    chk.rule_text = ("obligations: easy-count coefficients in the 16 cm cells, 13 count/ratio properties on every path, the inverse affine map of each "
                     "of the 6 threshold front-ends x 4 configurations derived from the object's own rate term; non-trivial = term mentions an easy count")
    chk.explanation = ("From the derived cm table the forward map of each metric is m = m_min + (m_max - m_min) * (fraction of hard samples counted); m_min/m_max are "
                       "obtained by substituting 0 / len for the counting atoms of the metric's own rate term. Each threshold_at_<m> must hand the helper the "
                       "inverse affine map (target - m_min)/(m_max - m_min) (monotone clamps dropped), compared in normal form on every path of the easy>0 case split. "
                       "Equality of confusion matrices with the materialised object then follows from C01's table (easy counts are additive constants in TP and TN).")
    chk.trusted |= {"C01 decision table", "guarded quotient where defined"}
    chk.assumptions = ["easy counts are non-negative integers", "exact real arithmetic"]
    declared_counts_stored(ctx, chk)
    # a swapped object exchanges the declared easy counts together with the score arrays (R08.1): the equivalence with the materialised object
    # is claimed for derived objects too
    from . import c08 as _c08
    _c08.swap_rule(ctx, chk)
    # R09.1 coefficients of the easy counts
    for sc, ec in GAMMAS:
        tab = derive_cm_table(ctx, chk, sc, ec, rule="R09.1")
        if tab is None:
            continue
        for name in ("tp", "fn", "fp", "tn"):
            p = to_poly(tab[name])
            want = {"tp": {EP: 1}, "tn": {EN: 1}}.get(name, {})
            got = {}
            for m, c in p.t.items():
                for a, e in m:
                    if a in (EP, EN):
                        got[a] = got.get(a, 0) + (c if len(m) == 1 and e == 1 else Fraction(10 ** 6))
            inst = "%s/%s:%s" % (sc, ec, name)
            if got == want:
                chk.hold("R09.1", inst, "%s = %s" % (name.upper(), show(tab[name], 120)))
            else:
                chk.violation("R09.1", SCORES + ".cm", inst, show(tab[name], 200), "easy positives enter TP only, easy negatives TN only, each with coefficient 1", ctx.where(SCORES + ".cm"))
    # ratio / count properties
    for name, spec in RATIOS.items():
        outs = ctx.explore(lambda: ctx.ev.getattr(ctx.scores_obj("pos", "pos"), name), chk)
        q = SCORES + "." + name
        if raises(outs):
            chk.unknown("R09.2", "property %s may raise" % name)
            continue
        ok = True
        for o in outs:
            # a conditional EXPRESSION (`q if total > 0 else 1.0`, merged into an ite term) is split into its cases like a branching `if`
            for pc_, v_ in ite_cases(o.pc, o.value):
                z = zero_facts(pc_)
                # where the facts of the case make the specified quotient 0/0 (no samples of the class at all) the specification says nothing
                dens = [a.args[0] for a in atoms_of(spec) if isinstance(a, App) and a.fn == "inv"]
                if any(same(subst(d_, z), Const(0)) for d_ in dens):
                    continue
                got, want = subst(v_, z), subst(spec, z)
                if not same(got, want):
                    ok = False
                    chk.violation("R09.2", q, "value[%s]" % pc_text(o), show(got, 200), show(want, 200), ctx.where(q))
        if ok:
            chk.hold("R09.2", "property:" + name, "%s = %s on %d path(s)" % (name, show(spec, 120), len(outs)))
    inverse_maps(ctx, chk)
    chk.floor("R09.2", 13 + 24, "13 properties + 24 inverse maps")
    from_labels_forwarding(ctx, chk)
    # prerequisite: the threshold setters and rates do not modify caller arrays (a target array may be reused for the materialised object)
    from . import c10
    c10.purity(ctx, chk, only=("Scores.threshold_at_", "Scores.cm", "Scores.auc", "Scores.tpr", "Scores.fnr", "Scores.tnr", "Scores.fpr", "Scores.topr", "Scores.tonr"))
    # a declared easy count never makes a setter refuse a target (R02.6)
    from . import c02s
    c02s.refusals(ctx, chk)
    # the easy counts enter cm() as declared numbers: decision-rule cells in a buffer wide enough for them (R01.1)
    from . import c01
    c01.cm_cells_rule(ctx, chk)
    # R09.3: AUC with easy samples = AUC of the materialised object (C07 rules incl. easy-count representatives)
    from . import c07
    c07.structural(ctx, chk)
    c07.numeric(ctx, chk, tier)


def inverse_maps(ctx, chk, metrics=METRICS):
    pos, neg = SCORE_REPS["3v2"]
    for metric in metrics:
        q = SCORES + ".threshold_at_" + metric
        for sc, ec in GAMMAS:
            rate = rate_term(ctx, chk, metric, sc, ec)
            if rate is None:
                chk.unknown("R09.2", "no rate term for %s %s/%s" % (metric, sc, ec))
                continue
            v0, v1 = (value_of_rate(x) for x in extremes(rate))
            try:
                env = env_for(pos, neg, 2, 3)
                a0, a1 = evaluate(v0, dict(env)), evaluate(v1, dict(env))
            except CannotEvaluate as e:
                chk.unknown("R09.2", "%s %s/%s: %s" % (metric, sc, ec, e))
                continue
            mmin, mmax = (v0, v1) if a0 <= a1 else (v1, v0)
            want = div(sub(R, mmin), sub(mmax, mmin))
            outs = [o for o in returns(explore_threshold(ctx, chk, metric, sc, ec, "linear", stub=TAR)) if o.captured]
            inst = "%s:%s/%s" % (metric, sc, ec)
            if not outs:
                chk.unknown("R09.2", "%s: helper call not found" % inst)
                continue
            ok = True
            for o, pc_, tr_ in [(o, pc_, tr_) for o in outs for pc_, tr_ in ite_cases(o.pc, unclamp(o.captured["target_ratio"]))]:
                z = zero_facts(pc_)
                dens = [a.args[0] for a in atoms_of(want) if isinstance(a, App) and a.fn == "inv"]
                if any(same(subst(d_, z), Const(0)) for d_ in dens):
                    continue        # the case has no sample of the class at all: the affine map is 0/0 there
                got = subst(unclamp(tr_), z)
                w = subst(want, z)
                if same(got, w):
                    continue
                ok = False
                if any(isinstance(a, App) and a.fn.startswith("ext:") for a in atoms_of(got)):
                    chk.unknown("R09.2", "%s: rescale uses constructs outside the model: %s" % (inst, show(got, 160)))
                else:
                    chk.violation("R09.2", q, inst + ":inverse-map", "hard-sample target = %s   [path %s]" % (show(got, 260), pc_text(o)[:80]),
                                  "(target - m_min)/(m_max - m_min) = %s" % show(w, 260), ctx.where(q))
            if ok:
                chk.hold("R09.2", inst, "hard-sample target = (r - %s)/(%s)" % (show(mmin, 80), show(sub(mmax, mmin), 80)))


def from_labels_forwarding(ctx, chk):
    """R09.4 construction through from_labels forwards the easy counts and flags unchanged."""
    ev = ctx.ev
    labels, scores_, pl = Sym("labels", ("param", "array", "notnone")), Sym("scores", ("param", "array", "notnone")), Sym("pos_label", ("param_scalar", "notnone"))
    Ea, Eb, Sc, Ec, Is = Sym("e_pos_arg", ("int", "notnone")), Sym("e_neg_arg", ("int", "notnone")), Sym("sc_arg", ("str", "notnone")), Sym("ec_arg", ("str", "notnone")), Sym("is_sorted_arg", ("notnone",))
    seen = []

    def stub(ev_, fi, bound):
        seen.append(dict(bound))
        return Const(None)
    ev.stubs[SCORES + ".__init__"] = stub
    try:
        fl = ev.getattr(ev.global_value(ctx.db.module("score_analysis.scores"), "Scores"), "from_labels")
        ctx.explore(lambda: ev.call(fl, [labels, scores_], {"pos_label": pl, "nb_easy_pos": Ea, "nb_easy_neg": Eb, "score_class": Sc, "equal_class": Ec, "is_sorted": Is}), chk)
    finally:
        ev.stubs.pop(SCORES + ".__init__", None)
    from ..terms import compare
    flq = SCORES + ".from_labels"
    if len(seen) != 1:
        chk.unknown("R09.4", "Scores.from_labels constructs %d objects" % len(seen))
    else:
        b = seen[0]
        want = {"pos": App("getitem", (scores_, compare("==", labels, pl))), "neg": App("getitem", (scores_, compare("!=", labels, pl))),
                "nb_easy_pos": Ea, "nb_easy_neg": Eb, "score_class": Sc, "equal_class": Ec, "is_sorted": Is}
        bad = [(k, b.get(k), w) for k, w in want.items() if b.get(k) is None or not same(b.get(k), w)]
        if not bad:
            chk.hold("R09.4", "from_labels", "from_labels forwards both easy counts, both flags and is_sorted; pos/neg split by == / != pos_label")
        for k, g, w in bad:
            chk.violation("R09.4", flq, "forward:" + k, show(g, 100) if g is not None else "missing", show(w, 100), ctx.where(flq))


def declared_counts_stored(ctx, chk, rule="R09.1"):
    """The constructor keeps the declared easy counts AS GIVEN, whatever number type they arrive in: a python int, a numpy integer scalar
    (`mask.sum()`) or a 0-d array are all legitimate counts.  The counts are passed as untyped scalar symbols, so a type test in the
    constructor (`isinstance(k, int)`) is undecided and both of its arms are explored: an arm that stores anything but the count itself
    (its size, a default) replaces the declaration for some number types."""
    from ..terms import Sym as _Sym
    from ..spec import POS as _P, NEG as _N
    K = _Sym("k_declared", ("param_scalar", "notnone"))
    M = _Sym("m_declared", ("param_scalar", "notnone"))
    ci = ctx.db.cls(SCORES)
    try:
        outs = ctx.explore(lambda: ctx.ev.instantiate(ci, [_P, _N], {"nb_easy_pos": K, "nb_easy_neg": M, "is_sorted": Const(True)}), chk)
    except Exception as e:  # noqa: BLE001
        chk.unknown(rule, "Scores(..., nb_easy_pos=k, nb_easy_neg=m): %s" % str(e)[:120])
        return
    rets = returns(outs)
    if not rets:
        chk.unknown(rule, "Scores(..., nb_easy_pos=k, nb_easy_neg=m): no return path")
        return
    bad = None
    for o in rets:
        for attr, want in (("nb_easy_pos", K), ("nb_easy_neg", M)):
            got = o.value.attrs.get(attr)
            conv = isinstance(got, App) and got.fn in ("trunc", "floor", "ceil", "round", "int", "fresh", "asarray") and got.args and same(got.args[0], want)
            if got is None or not (same(got, want) or conv):      # int(k) / operator.index(k) of a declared integer count is the count
                bad = bad or (attr, got, pc_text(o))
    if bad:
        chk.violation(rule, SCORES + ".__init__", "declared-count:" + bad[0], "self.%s = %s when %s" % (bad[0], show(bad[1], 80) if bad[1] is not None else "unset", bad[2][:140] or "always"),
                      "the declared count itself for every number type (python int, numpy integer, 0-d array)", ctx.where(SCORES + ".__init__"))
    else:
        chk.hold(rule, "declared-counts-stored", "nb_easy_pos / nb_easy_neg are stored as given on %d construction path(s)" % len(rets), nontrivial=False)
