"""C18 — showbias reports per group the metric of exactly that group's rows, one scale (DESIGN §4 C18)."""
from __future__ import annotations

from ..evalr import Obj, Lst, FuncV, PartialV, LambdaV
from ..spec import CM, GROUP, SCORES, returns, raises, unmodelled_text, pc_text
from ..terms import App, Const, Num, Sym, Tup, NAN, same, show, atoms_of, subst, to_poly, cmp0, contains
from ..simp import mk_app
from .c11 import make_config

LEVEL = "other"
SB = "score_analysis.showbias.showbias"
NORM = "score_analysis.showbias._apply_normalization"
GIDX = "score_analysis.showbias._get_group_index"
UBCI = "score_analysis.utils.bootstrap_ci"
D = Sym("data", ("param", "dataframe", "notnone"))
TH = Sym("thr", ("param", "array", "notnone", "rank1"))
PL = Sym("pos_label_arg", ("param_scalar", "notnone"))
AL = Sym("alpha", ("float", "notnone"))
SAMPLES = Sym("SAMPLES", ("array", "notnone"))
CI = Sym("CI", ("array", "notnone"))


def explore(ctx, chk, group_columns, normalize, bootstrap, metric="fnr"):
    ev = ctx.ev
    cmcls = ctx.db.cls(CM)
    cap = {"norm": [], "from_labels": []}

    def st_gcm(ev_, fi, bound):
        o = Obj(cmcls)
        recv = bound["self"]
        o.attrs.update(matrix=App("GCM", (Sym(recv.key if isinstance(recv, Obj) else "?"), bound["threshold"])), binary=Const(True), classes=Sym("cls"))
        return o

    def st_cm(ev_, fi, bound):
        o = Obj(cmcls)
        recv = bound["self"]
        o.attrs.update(matrix=App("CMALL", (Sym(recv.key if isinstance(recv, Obj) else "?"), bound["threshold"])), binary=Const(True), classes=Sym("cls"))
        return o

    def st_bm(ev_, fi, bound):
        cap["bm"] = dict(bound)
        m = bound.get("metric")
        if isinstance(m, (FuncV, PartialV, LambdaV)):
            smp = Obj(ctx.db.cls(GROUP), label="sample")
            kw = bound.get("kwargs")
            kws = {k.value: v for k, v in kw.items.items()} if kw is not None else {}
            cap["bm_metric_on_sample"] = ev_.call(m, [smp], kws)
            cap["sample_key"] = smp.key
        return SAMPLES

    def st_ci(ev_, fi, bound):
        cap["ci"] = dict(bound)
        return CI

    stubs = {GROUP + ".group_cm": st_gcm, SCORES + ".cm": st_cm, SCORES + ".bootstrap_metric": st_bm, UBCI: st_ci}
    ev.stubs.update(stubs)
    cfg_holder = {}
    try:
        def thunk():
            gc = Lst([Const(c) for c in group_columns]) if isinstance(group_columns, list) else Const(group_columns)
            cfg = make_config(ctx, bootstrap_method=Sym("bmethod", ("str", "notnone")))
            cfg_holder["cfg"] = cfg
            return ev.call(ctx.fn(SB), [D, gc, Const("lab"), Const("sc"), Const(metric)],
                           {"normalize": Const(normalize), "bootstrap_ci": Const(bootstrap), "bootstrap_config": cfg, "alpha": AL, "threshold": TH,
                            "pos_label": PL, "score_class": Const("neg"), "equal_class": Const("neg")})
        outs = ctx.explore(thunk, chk)
    finally:
        for k in stubs:
            ev.stubs.pop(k, None)
    for o in outs:
        o.cap = cap
    return outs, cap, cfg_holder.get("cfg")


def frame_parts(v):
    """(data, index, columns) of a pd.DataFrame(...) term."""
    if isinstance(v, App) and v.fn == "pd.DataFrame":
        return (v.args[0] if v.args else v.kwd("data")), v.kwd("index"), v.kwd("columns")
    return None, None, None


def run(ctx, chk, tier):
    chk.rule_text = ("obligations per (group-column form, normalize, bootstrap) combination: key codec, data flow into GroupScores.from_labels, metric closures, normalisation "
                     "formula and reduced axis role at both call sites, theta_hat = reported value, shared labels; non-trivial = uses derived terms")
    chk.explanation = ("showbias is explored with group_cm/cm/bootstrap_metric/utils.bootstrap_ci stubbed. Row labels: the index is built from score_object.groups, the same sequence "
                       "group_cm stacks over; a key built by sep.join over data values and decoded by split(sep) is lossy unless the separator cannot occur in the values. Values: "
                       "the requested ConfusionMatrix method on group_cm, divided by the same method on cm (by_overall) or by the minimum over the GROUP axis (by_min) unless that "
                       "divisor is 0. Intervals: replicates pass through the same normalisation, theta_hat has the value number of the reported data, and values/lower/upper share "
                       "index and columns.")
    chk.trusted |= {"pandas DataFrame(data, index, columns) labels rows/columns positionally", "str.join / str.split", "numpy.min(axis=0) reduces the leading axis"}
    first = None
    for gc, gname in (("g", "single"), (["g1", "g2"], "multi")):
        for normalize in (None, "by_overall", "by_min"):
            for bootstrap in (False, True):
                outs, cap, cfg = explore(ctx, chk, gc, normalize, bootstrap)
                rets = returns(outs)
                inst = "%s:%s:%s" % (gname, normalize, "ci" if bootstrap else "noci")
                if len(rets) != 1 or rets[0].unmodelled or not isinstance(rets[0].value, Obj):
                    chk.unknown("R18", "showbias(%s): %d return paths %s" % (inst, len(rets), [unmodelled_text(o) for o in rets if o.unmodelled][:1]))
                    continue
                o = rets[0]
                bf = o.value
                fl = [e for e in o.events if e["kind"] == "call" and e["callee"] == GROUP + ".from_labels"]
                if len(fl) != 1:
                    chk.unknown("R18.2", "%s: %d GroupScores.from_labels calls" % (inst, len(fl)))
                    continue
                b = fl[0]["bound"]
                sobj_news = [e for e in o.events if e["kind"] == "new" and e["cls"] == GROUP]
                sobj = sobj_news[0]["obj"] if sobj_news else None
                # ---- R18.2 data flow
                col = lambda c: App("attr:values", (App("getitem", (D, Const(c))),))  # noqa: E731
                want = {"scores": col("sc"), "labels": col("lab"), "pos_label": PL, "score_class": Const("neg"), "equal_class": Const("neg")}
                bad = [(k, b.get(k), w) for k, w in want.items() if b.get(k) is None or not same(b.get(k), w)]
                groups = b.get("groups")
                if gname == "single":
                    if not same(groups, col("g")):
                        bad.append(("groups", groups, col("g")))
                if not bad:
                    chk.hold("R18.2", inst + ":inputs", "scores/labels/groups/pos_label/score_class/equal_class of the frame reach GroupScores.from_labels")
                for k, g, w in bad:
                    chk.violation("R18.2", SB, "%s:input:%s" % (gname, k), show(g, 120) if g is not None else "missing", show(w, 120), ctx.where(SB))
                # ---- R18.1 codec (multi-column keys)
                if gname == "multi":
                    joins = [a for a in atoms_of(groups) if isinstance(a, App) and a.fn == "str.join"] if groups is not None else []
                    idx = frame_parts(bf.attrs.get("values"))[1]
                    splits = [a for a in atoms_of(idx) if isinstance(a, App) and a.fn == "str.split"] if idx is not None else []
                    if joins and splits:
                        seps = {show(j.args[0]) for j in joins} | {show(s.args[1]) if len(s.args) > 1 else "None" for s in splits}
                        chk.violation("R18.1", SB, "join-split-codec",
                                      "group keys are built by %s.join over the column values and decoded by .split(%s)" % (show(joins[0].args[0]), show(splits[0].args[1]) if len(splits[0].args) > 1 else ""),
                                      "an injective key (values containing the separator are split into the wrong labels and distinct groups collide)", ctx.where(SB))
                    elif joins or splits:
                        chk.unknown("R18.1", "%s: only one side of the key codec recognised" % inst)
                    else:
                        chk.hold("R18.1", inst + ":codec", "group keys are not decoded by splitting a joined string")
                # ---- values term
                data, index, columns = frame_parts(bf.attrs.get("values"))
                if data is None or not (isinstance(data, App) and data.fn == "tolist"):
                    chk.unknown("R18.3", "%s: values frame not recognised: %s" % (inst, show(bf.attrs.get("values"), 120)))
                    continue
                G = data.args[0]
                sk = Sym(sobj.key) if sobj is not None else Sym("?")
                M = App("GCM", (sk, TH))
                raw = rate_of(M)
                overall = rate_of(App("CMALL", (sk, TH)))
                want_G = normalised(raw, normalize, raw, overall)
                ranks = {raw: ("G", "T"), SAMPLES: ("N", "G", "T")}
                G = canon_min(G, ranks)
                if same(G, want_G):
                    chk.hold("R18.2", inst + ":values", "values = %s of group_cm%s" % ("fnr", {None: "", "by_overall": " / fnr of cm (unless 0)", "by_min": " / min over groups (unless 0)"}[normalize]))
                else:
                    d = first_diff(G, want_G)
                    chk.violation("R18.2", SB if normalize is None else NORM, "%s:values" % inst, "at %s: %s" % (d[0], show(d[1], 260)), show(d[2], 260), ctx.where(NORM if normalize else SB))
                # labels
                if sobj is not None and index is not None and any(a == sobj.attrs.get("groups") or sobj.attrs.get("groups") in atoms_of(a) for a in [index] + list(atoms_of(index))):
                    chk.hold("R18.5", inst + ":index", "row index built from score_object.groups (the sequence group_cm stacks over)")
                else:
                    chk.violation("R18.5", SB, inst + ":index", show(index, 160) if index is not None else "none", "index derived from score_object.groups", ctx.where(SB))
                if columns is not None and same(columns, TH):
                    chk.hold("R18.5", inst + ":columns", "columns = thresholds")
                else:
                    chk.violation("R18.5", SB, inst + ":columns", show(columns, 80) if columns is not None else "none", "the thresholds", ctx.where(SB))
                if not bootstrap:
                    continue
                # ---- R18.3 / R18.4 intervals
                ci = cap.get("ci")
                bm = cap.get("bm")
                if ci is None or bm is None:
                    chk.unknown("R18.3", "%s: bootstrap helpers not called" % inst)
                    continue
                msamp = cap.get("bm_metric_on_sample")
                want_ms = rate_of(App("GCM", (Sym(cap.get("sample_key", "?")), TH)))
                cfg_ok = isinstance(bm.get("config"), Obj) and bm["config"].attrs.get("bootstrap_method") == cfg.attrs["bootstrap_method"] and bm["config"].attrs.get("nb_samples") == cfg.attrs["nb_samples"]
                if msamp is not None and same(msamp, want_ms) and cfg_ok:
                    chk.hold("R18.3", inst + ":replicate-metric", "replicates = per-group metric of each bootstrap sample (caller's bootstrap_config)")
                else:
                    chk.violation("R18.3", SB, inst + ":replicate-metric", show(msamp, 160) if msamp is not None else "no closure", show(want_ms, 160), ctx.where(SB))
                if same(canon_min(ci.get("theta_hat"), ranks), G) and ci.get("alpha") == AL and ci.get("method") == cfg.attrs["bootstrap_method"]:
                    chk.hold("R18.3", inst + ":theta_hat", "theta_hat has the value number of the reported values; alpha and method forwarded")
                else:
                    chk.violation("R18.3", SB, inst + ":theta_hat", "theta_hat=%s alpha=%s method=%s" % (show(ci.get("theta_hat"), 200), show(ci.get("alpha"), 30), show(ci.get("method"), 30)),
                                  "theta_hat = the reported (normalised) values %s" % show(G, 160), ctx.where(SB))
                want_theta = normalised(SAMPLES, normalize, SAMPLES, overall)
                theta_c = canon_min(ci.get("theta"), ranks)
                wrong_axis = subst(want_theta, {App("min_over", (SAMPLES, Const("G"))): App("min_over", (SAMPLES, Const("N")))})
                if same(theta_c, want_theta):
                    chk.hold("R18.3", inst + ":theta", "replicates pass through the same normalisation as the values")
                elif normalize == "by_min" and same(theta_c, wrong_axis):
                    pass   # reported below as the axis-role finding R18.4
                else:
                    chk.violation("R18.3", SB, inst + ":theta", show(theta_c, 200), show(want_theta, 200), ctx.where(SB))
                if normalize == "by_min":
                    # axis roles: values (G, T) -> axis 0 = group; replicates (N, G, T) -> axis 0 = replicate
                    red = [a for a in atoms_of(theta_c) if isinstance(a, App) and a.fn == "min_over" and a.args[0] == SAMPLES]
                    role = red[0].args[1] if red else None
                    if role == Const("G"):
                        chk.hold("R18.4", inst + ":replicate-axis", "by_min on replicates reduces the group axis of (N, G, T)")
                    elif role == Const("N"):
                        chk.violation("R18.4", NORM, "by_min-axis:replicates",
                                      "np.min(replicates, axis=0): axis 0 of the (N, G, T) replicate array is the replicate axis, not the group axis",
                                      "the minimum over groups (the same quantity the reported value is divided by)", ctx.where(NORM))
                    else:
                        chk.unknown("R18.4", "%s: reduction axis of by_min on replicates not recognised" % inst)
                for nm, k in (("lower", 0), ("upper", 1)):
                    d2, i2, c2 = frame_parts(bf.attrs.get(nm))
                    want_d = App("tolist", (App("squeeze", (App("getitem", (CI, Tup([Const(Ellipsis), Const(k)]))),)),))
                    if d2 is not None and same(d2, want_d) and i2 == index and c2 == columns:
                        chk.hold("R18.5", "%s:%s" % (inst, nm), "%s = ci[..., %d] with the same index and columns as values" % (nm, k))
                    else:
                        chk.violation("R18.5", SB, "%s:%s" % (inst, nm), show(d2, 120) if d2 is not None else "none", show(want_d, 120) + " with shared labels", ctx.where(SB))
    # prerequisites: per-group extraction and stacking order (C12)
    from . import c12
    from . import c10
    c10.global_state_rule(ctx, chk, rule="R18.6", modules=("showbias", "group_scores", "scores"), strict=False)
    c12.from_labels_rule(ctx, chk)
    c12.getitem_rule(ctx, chk)
    c12.group_cm_rule(ctx, chk)
    # the default bootstrap configuration of showbias is sampling_method="dynamic" on a GroupScores object: its resolution must not pick
    # single-pass sampling for a class that is small or absent (p = 1 / nb_hard of an empty class divides by zero)
    from . import c11
    c11.dynamic_method(ctx, chk, rule="R18.7", classes=(c11.GROUP,))
    frame_state_untouched(ctx, chk)
    # the replicates are metrics of bootstrap samples and of the per-group objects cut out of them: whatever is built with is_sorted=True is ascending
    from . import c01 as _c01s
    _c01s.construction_sites(ctx, chk)
    c12.sampling_alignment(ctx, chk)     # every replicate is a GroupScores with the source's flags, names and (score, label) pairing
    # the intervals of the frame are utils.bootstrap_ci applied to the (N, G, T) replicate array: its formula and axis roles (C13) are part of
    # "computed for the same quantity, under the same labels"
    from . import c13
    c13.run(ctx, chk, tier)
    # the cells of the frame are ConfusionMatrix metrics of the per-group matrices: "the metric of group g" is the tabled definition of that
    # metric (numerator, denominator, NaN exactly where the denominator is 0) - the metric tables of C04
    from . import c04
    c04.run(ctx, chk, tier)
    chk.floor("R18.2", 12, "12 configuration combinations")
    chk.floor("R18.3", 6, "6 bootstrap combinations")
    chk.floor("R18.8", 1, "the BiasFrame methods")


def rate_of(M):
    """fnr of a binary matrix term (the metric used for exploration)."""
    E = Const(Ellipsis)
    fn = App("getitem", (M, Tup([E, Const(0), Const(1)])))
    tp = App("getitem", (M, Tup([E, Const(0), Const(0)])))
    from ..terms import add
    p = add(tp, fn)
    return mk_app("gdiv", [fn, p, NAN, cmp0("ne", to_poly(p))])


def canon_min(v, ranks):
    """Replace amin/amax(X, axis=a[, keepdims]) by min_over(X, role): role = which named axis of X is reduced."""
    mp = {}
    for a in atoms_of(v):
        if isinstance(a, App) and a.fn in ("amin", "amax") and a.args and a.args[0] in ranks:
            roles = ranks[a.args[0]]
            ax = a.kwd("axis")
            if isinstance(ax, Const) and isinstance(ax.value, int) and -len(roles) <= ax.value < len(roles):
                mp[a] = App("%s_over" % a.fn[1:], (a.args[0], Const(roles[ax.value])))
    return subst(v, mp) if mp else v


def normalised(values, normalize, minsrc, overall):
    if normalize is None:
        return values
    den = overall if normalize == "by_overall" else App("min_over", (minsrc, Const("G")))
    g = cmp0("ne", to_poly(den))
    return mk_app("where", [g, mk_app("gdiv", [values, den, Const(0), g]), values])


def first_diff(a, b):
    from .c07 import first_difference
    return first_difference(a, b, "values") or ("values", a, b)


# ---------------------------------------------------------------------------------------------------------------------------------
FRAME_FIELDS = ("values", "lower", "upper")
# pandas operations that write into the frame they are called on (everything else returns a new object unless inplace=True)
FRAME_WRITERS = {"update", "insert", "pop", "drop_duplicates_", "clip_", "setitem", "__setitem__", "itemset", "fill", "sort", "put"}
FRAME_INDEXERS = {"loc", "iloc", "at", "iat"}


def frame_state_untouched(ctx, chk):
    """R18.8 the entries of a returned BiasFrame are those showbias computed: no method of the frame (rendering, formatting) writes into
    `values` / `lower` / `upper` or re-binds them.  Syntax-directed may-alias analysis per method: a name may alias a field when it is bound to
    `self.<field>` directly or through a conditional expression / another such name; every pandas method call yields a new frame unless it is
    called with inplace=True or is one of the writers."""
    import ast
    try:
        cls = ctx.db.cls("score_analysis.showbias.BiasFrame")
    except Exception:  # noqa: BLE001
        chk.unknown("R18.8", "BiasFrame not found")
        return
    for name, fi in sorted(cls.methods.items()):
        if name.startswith("__") and name != "__post_init__":
            continue
        node = fi.node
        findings = []

        def alias_of(e, st):
            if isinstance(e, ast.Attribute) and isinstance(e.value, ast.Name) and e.value.id == "self" and e.attr in FRAME_FIELDS:
                return {e.attr}
            if isinstance(e, ast.Name):
                return set(st.get(e.id, ()))
            if isinstance(e, ast.IfExp):
                return alias_of(e.body, st) | alias_of(e.orelse, st)
            if isinstance(e, ast.NamedExpr):
                return alias_of(e.value, st)
            if isinstance(e, ast.BoolOp):
                return set().union(*[alias_of(v, st) for v in e.values])
            if isinstance(e, ast.Subscript):
                # frame[col] / frame.loc[...] hand out columns / blocks that may share the frame's storage
                b = e.value
                if isinstance(b, ast.Attribute) and b.attr in FRAME_INDEXERS:
                    b = b.value
                return alias_of(b, st)
            if isinstance(e, ast.Attribute) and e.attr in ("T", "values"):
                return alias_of(e.value, st)
            return set()

        def written(target, st, how, line):
            t = target
            if isinstance(t, ast.Subscript):
                b = t.value
                if isinstance(b, ast.Attribute) and b.attr in FRAME_INDEXERS:
                    b = b.value
                al = alias_of(b, st)
                if al:
                    findings.append((line, "%s into %s (may be self.%s)" % (how, ast.unparse(t)[:60], "/".join(sorted(al)))))
            elif isinstance(t, ast.Attribute):
                if isinstance(t.value, ast.Name) and t.value.id == "self" and t.attr in FRAME_FIELDS:
                    findings.append((line, "self.%s is re-bound" % t.attr))
                else:
                    al = alias_of(t.value, st)
                    if al:
                        findings.append((line, "attribute %s of self.%s is assigned" % (t.attr, "/".join(sorted(al)))))
            elif isinstance(t, (ast.Tuple, ast.List)):
                for x in t.elts:
                    written(x, st, how, line)

        def calls(n, st):
            for c in [x for x in ast.walk(n) if isinstance(x, ast.Call)]:
                f = c.func
                if not isinstance(f, ast.Attribute):
                    continue
                recv = f.value
                al = alias_of(recv, st)
                if not al:
                    continue
                inplace = any(k.arg == "inplace" and not (isinstance(k.value, ast.Constant) and k.value.value is False) for k in c.keywords)
                if inplace or f.attr in FRAME_WRITERS:
                    findings.append((c.lineno, "%s(%s) on self.%s" % (f.attr, "inplace=True" if inplace else "", "/".join(sorted(al)))))

        def block(body, st):
            for x in body:
                st = stmt(x, st)
            return st

        def join(a, b):
            return {k: set(a.get(k, ())) | set(b.get(k, ())) for k in set(a) | set(b)}

        def stmt(x, st):
            if isinstance(x, (ast.FunctionDef, ast.ClassDef)):
                return st
            if isinstance(x, ast.Assign):
                calls(x.value, st)
                v = alias_of(x.value, st)
                for t in x.targets:
                    if isinstance(t, ast.Name):
                        st[t.id] = set(v)
                    else:
                        written(t, st, "store", x.lineno)
                return st
            if isinstance(x, ast.AnnAssign):
                if x.value is not None:
                    calls(x.value, st)
                    if isinstance(x.target, ast.Name):
                        st[x.target.id] = alias_of(x.value, st)
                    else:
                        written(x.target, st, "store", x.lineno)
                return st
            if isinstance(x, ast.AugAssign):
                calls(x.value, st)
                if isinstance(x.target, ast.Name):
                    al = alias_of(x.target, st)
                    if al:
                        findings.append((x.lineno, "augmented assignment to %s (may be self.%s, updated in place)" % (x.target.id, "/".join(sorted(al)))))
                else:
                    written(x.target, st, "augmented store", x.lineno)
                return st
            if isinstance(x, ast.Delete):
                for t in x.targets:
                    written(t, st, "del", x.lineno)
                return st
            if isinstance(x, ast.If):
                calls(x.test, st)
                return join(block(x.body, {k: set(v) for k, v in st.items()}), block(x.orelse, {k: set(v) for k, v in st.items()}))
            if isinstance(x, (ast.For, ast.While)):
                if isinstance(x, ast.For):
                    calls(x.iter, st)
                    if isinstance(x.target, ast.Name):
                        st[x.target.id] = set()
                s_ = st
                for _ in range(2):
                    s_ = join(s_, block(x.body, {k: set(v) for k, v in s_.items()}))
                return join(s_, block(x.orelse, {k: set(v) for k, v in s_.items()}))
            if isinstance(x, ast.With):
                for it in x.items:
                    calls(it.context_expr, st)
                return block(x.body, st)
            if isinstance(x, ast.Try):
                s_ = block(x.body, {k: set(v) for k, v in st.items()})
                for h in x.handlers:
                    s_ = join(s_, block(h.body, {k: set(v) for k, v in st.items()}))
                return block(x.finalbody, block(x.orelse, s_))
            calls(x, st)
            return st

        # the loop bodies are visited twice (fixed point): de-duplicate the findings
        block(node.body, {})
        q = "score_analysis.showbias.BiasFrame." + name
        seen = set()
        for line, what in findings:
            if (line, what) in seen:
                continue
            seen.add((line, what))
            chk.violation("R18.8", q, "%s:writes-frame:%s" % (name, what.split(" (")[0][:60]), what,
                          "the frame's values / lower / upper stay what showbias computed: a rendering method formats a copy",
                          "%s:%d" % (fi.module.relpath, line))
        if not findings:
            chk.hold("R18.8", "BiasFrame.%s" % name, "no store, in-place update or re-binding reaches self.values / self.lower / self.upper")
