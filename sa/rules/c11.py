"""C11 — bootstrap samples are well-formed resamples of their source (DESIGN §4 C11)."""
from __future__ import annotations

from ..evalr import Obj
from ..spec import CONFIG, GROUP, SCORES, returns
from ..terms import App, Const, Sym

LEVEL = "other"

_cache = {}


def make_config(ctx, sampling_method="dynamic", stratified=None, smoothing=False, ratio=None, nb_samples=None, bootstrap_method="bca"):
    ci = ctx.db.cls(CONFIG)
    o = Obj(ci)
    o.attrs.update(
        nb_samples=nb_samples if nb_samples is not None else Sym("nb_samples", ("int", "notnone")),
        bootstrap_method=Const(bootstrap_method) if isinstance(bootstrap_method, str) else bootstrap_method,
        sampling_method=Const(sampling_method) if isinstance(sampling_method, str) else sampling_method,
        stratified_sampling=Const(stratified),
        smoothing=Const(smoothing),
        ratio=ratio if ratio is not None else Const(None),
    )
    return o


SCORES_CONFIGS = [(m, s, sm) for m in ("replacement", "single_pass", "dynamic") for s in (None, "by_label") for sm in (False, True)] + \
                 [("proportion", None, False)]
GROUP_CONFIGS = [(m, s, False) for m in ("replacement", "single_pass", "dynamic") for s in (None, "by_label", "by_group")]


def sample_outcomes(ctx, chk):
    """All paths of bootstrap_sample for both classes over the built-in configuration matrix."""
    key = id(ctx)
    if key in _cache:
        return _cache[key]
    out = []
    for cls, configs in ((SCORES, SCORES_CONFIGS), (GROUP, GROUP_CONFIGS)):
        for m, s, sm in configs:
            ratio = Sym("ratio", ("float", "notnone")) if m == "proportion" else None
            label = "%s.bootstrap_sample[%s,%s%s]" % (cls.split(".")[-1], m, s, ",smoothing" if sm else "")

            def thunk():
                obj = ctx.scores_obj("pos", "pos", cls, ep=Sym("Ep", ("int", "notnone")) if cls == SCORES else Const(0),
                                     en=Sym("En", ("int", "notnone")) if cls == SCORES else Const(0))
                cfg = make_config(ctx, m, s, sm, ratio)
                return ctx.ev.call(ctx.method(obj, "bootstrap_sample"), [], {"config": cfg})

            outs = ctx.explore(thunk, chk)
            for o in outs:
                o.label = label
                o.config = (cls, m, s, sm)
                out.append((label, o))
    _cache[key] = out
    return out


def run(ctx, chk, tier):
    raise NotImplementedError
