"""C11 — bootstrap samples are well-formed resamples of their source (DESIGN §4 C11)."""
from __future__ import annotations

from ..evalr import Obj, FuncV
from ..spec import CONFIG, GROUP, SCORES, returns
from ..terms import App, Const, Sym
from ..evalr import Obj  # noqa: F811

LEVEL = "other"



def make_config(ctx, sampling_method="dynamic", stratified=None, smoothing=False, ratio=None, nb_samples=None, bootstrap_method="bca"):
    ci = ctx.db.cls(CONFIG)
    o = Obj(ci)
    o.attrs.update(
        nb_samples=nb_samples if nb_samples is not None else Sym("nb_samples", ("int", "notnone")),
        bootstrap_method=Const(bootstrap_method) if isinstance(bootstrap_method, str) else bootstrap_method,
        sampling_method=Const(sampling_method) if isinstance(sampling_method, str) else sampling_method,
        stratified_sampling=Const(stratified),
        smoothing=Const(smoothing),
        ratio=ratio if ratio is not None else Const(None),
    )
    return o


SCORES_CONFIGS = [(m, s, sm) for m in ("replacement", "single_pass", "dynamic") for s in (None, "by_label") for sm in (False, True)] + \
                 [("proportion", None, False)]
GROUP_CONFIGS = [(m, s, False) for m in ("replacement", "single_pass", "dynamic") for s in (None, "by_label", "by_group")]


def sample_outcomes(ctx, chk, flags=("pos", "pos"), classes=(SCORES, GROUP)):
    """All paths of bootstrap_sample for both classes over the built-in configuration matrix."""
    from .thr import cache_of
    _cache = cache_of(ctx)
    key = ("samples", flags, classes, ctx.ev.merge_ifs, tuple(a.key for a in ctx.ev.assume))
    if key in _cache:
        return _cache[key]
    out = []
    for cls, configs in ((SCORES, SCORES_CONFIGS), (GROUP, GROUP_CONFIGS)):
        if cls not in classes:
            continue
        for m, s, sm in configs:
            ratio = Sym("ratio", ("float", "notnone")) if m == "proportion" else None
            label = "%s.bootstrap_sample[%s,%s%s]" % (cls.split(".")[-1], m, s, ",smoothing" if sm else "")

            def thunk():
                obj = ctx.scores_obj(flags[0], flags[1], cls, ep=Sym("Ep", ("int", "notnone", "nonneg")) if cls == SCORES else Const(0),
                                     en=Sym("En", ("int", "notnone", "nonneg")) if cls == SCORES else Const(0))
                cfg = make_config(ctx, m, s, sm, ratio)
                return ctx.ev.call(ctx.method(obj, "bootstrap_sample"), [], {"config": cfg})

            outs = ctx.explore(thunk, chk)
            for o in outs:
                o.label = label
                o.config = (cls, m, s, sm)
                out.append((label, o))
    _cache[key] = out
    return out




# =========================================================================== rules

from ..spec import POS, NEG, EP, EN, raises, unmodelled_text, pc_text  # noqa: E402
from ..terms import (App as _A, Num, Tup, same, show, sub, add, mul, div, to_poly, mk_num, Poly, cmp0, negate, atoms_of, subst, is_const, const_of,  # noqa: E402
                     compare, disj)
from ..mirror import lint  # noqa: E402
from ..terms import V, walk, contains  # noqa: E402
from ..typestate import strip_views  # noqa: E402

HP, HN = _A("len", (POS,)), _A("len", (NEG,))
ALLN = add(add(HP, HN), add(EP, EN))
SI = SCORES + "._sample_indices"
BS = SCORES + ".bootstrap_sample"
NONNEG_SYMS = {EP.key, EN.key}


LP1, LN1 = Sym("len_pos_minus_1", ("nonneg",)), Sym("len_neg_minus_1", ("nonneg",))
SHIFT = {HP: None, HN: None}


def shift(v):
    """Use the standing facts len(pos) >= 1, len(neg) >= 1: len(x) = 1 + (non-negative remainder)."""
    return subst(v, {HP: add(Const(1), LP1), HN: add(Const(1), LN1)})


def _atom_nonneg(a, depth):
    if isinstance(a, _A) and a.fn in ("len", "size", "trunc", "floor", "count_lt", "count_le", "sum", "max") and a.fn != "max":
        return True
    if isinstance(a, _A) and a.fn == "max":
        return any(nonneg_term(x, depth + 1) for x in a.args)
    if isinstance(a, _A) and a.fn == "ite":
        return nonneg_term(a.args[1], depth + 1) and nonneg_term(a.args[2], depth + 1)
    if isinstance(a, _A) and a.fn == "inv":
        return nonneg_term(a.args[0], depth + 1)
    if isinstance(a, Sym):
        return a.key in NONNEG_SYMS or "nonneg" in a.tags or "positive" in a.tags
    return False


def nonneg_term(v, depth=0):
    """v >= 0 for all draws: binomial(n, .) in [0, n], poisson >= 0, lengths and easy counts >= 0."""
    if depth > 6:
        return False
    p = to_poly(shift(v))
    if p is None:
        return False
    draws = [a for a in p.atoms() if isinstance(a, _A) and a.fn.startswith("rng:")]
    units = []
    for a in draws:
        if a.fn == "rng:binomial":
            n = a.kwd("n") if a.kwd("n") is not None else (a.args[0] if len(a.args) > 1 else None)
            if n is None or not nonneg_term(n, depth + 1):
                return False
            units.append((a, n))
        elif a.fn in ("rng:poisson", "rng:randint"):
            units.append((a, None))
        else:
            return False
    import itertools
    for combo in itertools.product((0, 1), repeat=len(units)):
        mp = {}
        for (a, n), bit in zip(units, combo):
            if n is None:
                mp[a] = Poly.const(0) if bit == 0 else Poly.atom(Sym("bigdraw", ("nonneg",)))
            else:
                mp[a] = Poly.const(0) if bit == 0 else to_poly(shift(n))
        q = p.subst(mp)
        if any(isinstance(a, _A) and a.fn.startswith("rng:") for a in q.atoms()):
            if not nonneg_term(mk_num(q), depth + 1):
                return False
            continue
        for m, c in q.t.items():
            if c < 0:
                return False
            for a, e in m:
                if e % 2 and not _atom_nonneg(a, depth):
                    return False
    return True


def known_nonzero(term, pc, facts):
    """Some path condition (after discharging conjuncts known true) says term != 0."""
    z = cmp0("eq", to_poly(term))
    for c, taken in pc:
        if c == z and not taken:
            return True
        if c == negate(z) and taken:
            return True
        if isinstance(c, _A) and c.fn == "and" and not taken and z in c.args:
            others = [a for a in c.args if a != z]
            if all(fact_true(a, pc, facts) for a in others):
                return True
    return False


def fact_true(cond, pc, facts):
    if any(cond == f for f in facts):
        return True
    for c, taken in pc:
        if c == cond and taken:
            return True
    # lt0(-X) with X >= 1 established
    if isinstance(cond, _A) and cond.fn == "lt0":
        x = mk_num(-to_poly(cond.args[0]))
        return ge1(x, pc, facts, _depth=1)
    return False


def ge1(term, pc, facts, _depth=0, _lift=0):
    if is_const(term):
        return const_of(term) >= 1
    if isinstance(term, _A) and term.fn == "max" and any(is_const(a) and const_of(a) >= 1 for a in term.args):
        return True
    if any(f == cmp0("lt", -to_poly(term)) for f in facts):
        return True
    if isinstance(term, _A) and term.fn == "ite":
        c = term.args[0]
        return ge1(term.args[1], list(pc) + [(c, True)], facts, _depth) and ge1(term.args[2], list(pc) + [(c, False)], facts, _depth)
    if _depth < 4:
        p = to_poly(shift(term))
        if p is not None and p.const_value() >= 1 and nonneg_term(mk_num(p - Poly.const(1))):
            return True
        if nonneg_term(term) and known_nonzero(term, pc, facts):
            return True
        # a choice buried in the arithmetic (`n - (n - 1 if c else e)`) is lifted: the term is `ite(c, term[a], term[b])`
        pt = to_poly(term)
        if pt is not None:
            its = [a for a in pt.atoms() if isinstance(a, _A) and a.fn == "ite" and len(a.args) == 3]
            if its and _lift < 8:
                from ..terms import subst as _subst
                it = its[0]
                # a case the path already excludes needs no proof
                known = {c_.key: t_ for c_, t_ in pc}
                arms = []
                for arm, truth_ in ((it.args[1], True), (it.args[2], False)):
                    if known.get(it.args[0].key, truth_) != truth_:
                        continue
                    # the chosen arm replaces the choice everywhere: in the term and in what the path knows about it
                    pc_arm = [(_subst(c_, {it: arm}) if hasattr(c_, "key") else c_, t_) for c_, t_ in list(pc) + [(it.args[0], truth_)]]
                    if any(isinstance(c_, Const) and bool(c_.value) != bool(t_) for c_, t_ in pc_arm):
                        continue     # the substitution makes a recorded decision impossible: infeasible case
                    arms.append((_subst(term, {it: arm}), pc_arm))
                return bool(arms) and all(ge1(t_, pc_, facts, _depth, _lift + 1) for t_, pc_ in arms)
    return False


def zero_witness(cnt, pc, facts, kind):
    """A concrete world in which the delivered count is 0 although the path is feasible: small class sizes and easy counts, every draw
    ranging over its support (binomial(n, .) in 0..n, Poisson in 0..2), evaluated exactly on the derived terms.  Returns a description
    of the world, None when no such world exists on the grid, or "?" when the terms cannot be evaluated."""
    import itertools
    from fractions import Fraction
    from ..numeval import evaluate, CannotEvaluate, Arr
    terms = [cnt] + [c for c, _t in pc if hasattr(c, "key")]
    draws = {}

    def note(t):
        if isinstance(t, _A) and t.fn.startswith("rng:"):
            draws[t.key] = t
    for t in terms:
        walk(t, note)
    order = sorted(draws.values(), key=lambda a: len(a.key))       # a draw's parameters may contain other (shorter) draws
    if len(order) > 6 or any(a.fn not in ("rng:binomial", "rng:poisson") for a in order):
        return "?"
    budget = [40000]
    try:
        for hp, hn, ep, en in itertools.product((1, 2), (1, 2), (0, 1, 2), (0, 1, 2)):
            base = {POS: Arr(Fraction(i) for i in range(hp)), NEG: Arr(Fraction(i + 10) for i in range(hn)), EP: Fraction(ep), EN: Fraction(en)}

            def rec(i, env):
                budget[0] -= 1
                if budget[0] < 0:
                    raise CannotEvaluate("budget")
                if i == len(order):
                    e2 = dict(env)
                    for c, t in pc:
                        if hasattr(c, "key") and bool(evaluate(c, e2)) != bool(t):
                            return None
                    for f in facts:
                        if not bool(evaluate(f, e2)):
                            return None
                    v = evaluate(cnt, e2)
                    tot = sum(v) if isinstance(v, Arr) else v
                    if tot <= 0:
                        return "len(pos)=%d len(neg)=%d easy=(%d,%d) draws=%s" % (hp, hn, ep, en, [int(env[a]) if not isinstance(env[a], Arr) else [int(x) for x in env[a]] for a in order])
                    return None
                a = order[i]
                e2 = dict(env)
                e2.pop("__memo__", None)
                if a.fn == "rng:binomial":
                    n = a.kwd("n") if a.kwd("n") is not None else a.args[0]
                    nv = evaluate(n, e2)
                    if isinstance(nv, Arr) or nv.denominator != 1 or nv < 0 or nv > 12:
                        raise CannotEvaluate("binomial n")
                    support = range(0, int(nv) + 1)
                else:
                    support = range(0, 3)
                size = a.kwd("size")
                if size is not None and not (is_const(size) and const_of(size) is None):
                    sv = evaluate(size, e2)
                    if isinstance(sv, Arr) or sv.denominator != 1 or not (0 <= sv <= 2):
                        raise CannotEvaluate("draw size")
                    worlds = itertools.product(support, repeat=int(sv))
                    mk = lambda w: Arr(Fraction(x) for x in w)
                else:
                    worlds = ((x,) for x in support)
                    mk = lambda w: Fraction(w[0])
                for w in worlds:
                    e3 = dict(e2)
                    e3[a] = mk(w)
                    r = rec(i + 1, e3)
                    if r:
                        return r
                return None
            r = rec(0, base)
            if r:
                return r
    except CannotEvaluate as e_:
        return None if "budget" in str(e_) else "?"
    except Exception:
        return "?"
    return None


def delivered_count(arr):
    """('choice', K) | ('repeat', counts) | None for a sampled class array."""
    v = strip_views(arr)
    while isinstance(v, _A) and v.fn in ("sort", "fresh"):
        v = strip_views(v.args[0])
    if isinstance(v, Num):
        g = [a for a in v.poly.atoms() if isinstance(a, _A) and a.fn in ("getitem", "rng:choice")]
        if len(g) == 1:
            v = g[0]
    if isinstance(v, _A) and v.fn == "rng:choice":
        return ("choice", v.kwd("size"), v.args[0], v.kwd("replace"))
    if isinstance(v, _A) and v.fn == "getitem":
        base, idx = strip_views(v.args[0]), strip_views(v.args[1])
        while isinstance(idx, _A) and idx.fn in ("sort", "fresh"):
            idx = strip_views(idx.args[0])
        if isinstance(idx, _A) and idx.fn == "rng:choice":
            return ("choice", idx.kwd("size"), base, idx.kwd("replace"))
        if isinstance(idx, _A) and idx.fn == "repeat":
            return ("repeat", idx.args[1], base, None)
        if isinstance(idx, _A) and idx.fn == "isin" and len(idx.args) >= 2 and strip_views(idx.args[0]) == base:
            inner = delivered_count(idx.args[1])
            if inner is not None and inner[0] == "choice":
                return ("membership", inner[1], inner[2], inner[3])
    return None


def sum_ge1(counts, pc, facts):
    """sum(counts) >= 1 on this path."""
    c = counts
    if isinstance(c, _A) and c.fn == "store" and is_const(c.args[2]) and const_of(c.args[2]) >= 1:
        return True
    def _drawn(t):
        # counts drawn directly, or chosen between two ways of drawing them (binomial below a size threshold, Poisson above)
        return isinstance(t, _A) and (t.fn.startswith("rng:") or (t.fn == "ite" and len(t.args) == 3 and _drawn(t.args[1]) and _drawn(t.args[2])))
    if _drawn(c):
        s = _A("sum", (c,))
        z = cmp0("eq", to_poly(s))
        for cond, taken in pc:
            if cond == z and not taken:
                return True
            if isinstance(cond, _A) and cond.fn == "and" and not taken and z in cond.args:
                if all(fact_true(a, pc, facts) for a in cond.args if a != z):
                    return True
    return False


def _empty_total(c, t):
    """The decision (c, t) says that a sum of counts containing len(pos) or len(neg) is not positive: impossible with two non-empty classes."""
    # a decision "this sum of counts is not positive" / "is zero" where the sum contains len(pos) or len(neg) with a positive
    # coefficient and nothing negative: impossible with two non-empty classes
    if not (isinstance(c, _A) and c.args and c.fn in ("lt0", "eq0", "le0")):
        return False
    pz = to_poly(c.args[0])
    if pz is None:
        return False
    if c.fn == "lt0" and not t:
        pz = -pz          # not (-S < 0)  i.e.  S <= 0
    elif c.fn in ("eq0", "le0") and t:
        pass              # S == 0 / S <= 0
    else:
        return False
    if c.fn == "eq0" and not all(co > 0 for co in pz.t.values()):
        pz = -pz
    ok_atoms = all(len(m) == 1 and m[0][1] == 1 and (m[0][0] in (HP, HN, EP, EN)) and co > 0 for m, co in pz.t.items())
    return ok_atoms and any(m[0][0] in (HP, HN) for m in pz.t)


def sample_wellformed(ctx, chk):
    """R11.1 / R11.5 / R11.3(proportion) on every return path of Scores.bootstrap_sample over the built-in configuration matrix."""
    ev = ctx.ev
    facts = [compare(">", HP, Const(0)), compare(">", HN, Const(0))]
    # ---------------- R11.1 / R11.5 on bootstrap_sample outcomes
    ev.assume = list(facts)
    try:
        outs = sample_outcomes(ctx, chk, flags=("neg", "pos"), classes=(SCORES,))
    finally:
        ev.assume = []
        nret = 0
    for label, o in outs:
        cls, m, s, sm = o.config
        if cls != SCORES:
            continue
        if any(_empty_total(c, t) for c, t in o.pc if hasattr(c, "key")):
            continue      # a path that decided "this class total is zero": excluded by the standing assumption of two non-empty classes
        if o.kind == "raise":
            expected = (m == "single_pass" and sm) or (m == "dynamic" and False)
            if not expected:
                if exc_ok(o, m, sm):
                    continue
                chk.violation("R11.1", BS, "%s:raises" % label, "%s when %s" % (show(o.value, 80), pc_text(o)[:200]), "a sample for every supported configuration", ctx.where(BS))
            continue
        nret += 1
        res = o.value
        inst = label
        muts = [e for e in o.events if e["kind"] in ("inplace", "augstore", "store") and e.get("root") in (POS, NEG)]
        if muts:
            e = muts[0]
            chk.violation("R11.8", BS, "%s:source-mutated" % label, "%s of %s (storage of %s)" % (e.get("how", e["kind"]), e.get("target", "?"), show(e["root"], 40)),
                          "resampling only reads the source's score arrays (an in-place shuffle/sort of a view re-orders the source)",
                          "score_analysis/scores.py:%s" % getattr(e.get("node"), "lineno", "?"))
        else:
            chk.hold("R11.8", label + ":path[%s]" % "".join("T" if t else "F" for _c, t in o.pc)[-12:], "no in-place write reaches the source's score arrays", nontrivial=False)
        if isinstance(res, Obj):
            # a sample gathered into a buffer that is KEPT on the source (np.take(..., out=buffer) with the buffer stored in the source's
            # state): the next draw overwrites the arrays of this sample
            kept = [e for e in o.events if e["kind"] in ("dict_store", "attr_store") and not e.get("in_init") and isinstance(e.get("value"), V)
                    and isinstance(e.get("obj"), Obj) and e["obj"] is not res and e["obj"].attrs.get("pos") == POS]
            shared = None
            for nm in ("pos", "neg"):
                outs_kw = []
                walk(res.attrs.get(nm), lambda t: outs_kw.append(t.kwd("out")) if isinstance(t, _A) and t.kwd("out") is not None else None) if isinstance(res.attrs.get(nm), V) else None
                for ob in outs_kw:
                    for e in kept:
                        if contains(ob, lambda t, val=e["value"]: t == val):
                            shared = shared or (nm, e)
            if shared is not None:
                nm, e = shared
                chk.violation("R11.8", BS, "%s:sample-in-kept-buffer" % label, "the sample's %s array is written into a buffer that is stored on the source (self.%s%s)" % (
                    nm, e.get("attr", "?"), "[%s]" % show(e["key"], 20) if e.get("key") is not None else ""),
                    "every sample owns its arrays: the next draw from the same source must not overwrite a sample drawn earlier",
                    "score_analysis/scores.py:%s" % getattr(e.get("node"), "lineno", "?"))
        if not isinstance(res, Obj):
            chk.unknown("R11.1", "%s returns %s" % (label, show(res, 60)))
            continue
        flags_ok = res.attrs.get("score_class") == ctx.label("neg") and res.attrs.get("equal_class") == ctx.label("pos")
        if flags_ok:
            chk.hold("R11.1", inst + ":flags", "sample keeps score_class and equal_class of the source")
        else:
            chk.violation("R11.1", BS, inst + ":flags", "score_class=%s equal_class=%s" % (show(res.attrs.get("score_class")), show(res.attrs.get("equal_class"))),
                          "the source's flags (neg, pos)", ctx.where(BS))
        for nm, src in (("pos", POS), ("neg", NEG)):
            d = delivered_count(res.attrs.get(nm))
            if d is None:
                chk.unknown("R11.1", "%s: sampled %s array not understood: %s" % (label, nm, show(res.attrs.get(nm), 160)))
                continue
            kind, cnt, base, repl = d
            if kind == "membership":
                chk.violation("R11.3", BS, "%s:%s-selected-by-value" % (inst, nm), "the drawn scores are turned into a membership mask over the source (%s)" % show(res.attrs.get(nm), 140),
                              "the drawn elements themselves: a value-membership mask selects EVERY tied copy of a drawn score, so with repeated score values the sample is larger than the %s draws made" % show(cnt, 80),
                              ctx.where(BS))
                continue
            base_ok = base == src or (kind == "choice" and is_len_of(base, src))
            if base_ok:
                chk.hold("R11.1", "%s:%s-source" % (inst, nm), "%s drawn from the source's %s scores" % (nm, nm))
            else:
                chk.violation("R11.1", BS, "%s:%s-source" % (inst, nm), show(base, 100), "self.%s" % nm, ctx.where(BS))
            ok = ge1(cnt, o.pc, facts) if kind == "choice" and cnt is not None else sum_ge1(cnt, o.pc, facts)
            if ok:
                chk.hold("R11.5", "%s:%s>=1" % (inst, nm), "delivered %s count %s has lower bound 1" % (nm, show(cnt, 80)))
            else:
                # no proof of `>= 1`: a VIOLATION needs a world (class sizes, easy counts, draws within their supports) on this path in which
                # nothing is delivered; without one the clause is not decided (the proof search is incomplete, the code may be right)
                wit = zero_witness(cnt, o.pc, facts, kind) if cnt is not None else "?"
                if wit is None or wit == "?":
                    chk.unknown("R11.5", "%s:%s: neither a proof that the delivered count %s is at least 1 nor a world in which it is 0 was found" % (label, nm, show(cnt, 120)))
                else:
                    chk.violation("R11.5", BS, "%s:%s-at-least-one" % (label.split("[")[1].rstrip("]"), nm),
                                  "delivered count %s (%s) has lower bound 0 on path [%s]%s" % (show(cnt, 160), kind, pc_text(o)[-200:], "" if wit == "?" else "; e.g. " + wit),
                                  "at least one scored %s whenever the source has one" % nm, ctx.where(SI))
            if m == "proportion":
                want = _A("max", (Const(1), _A("trunc", (mul(Sym("ratio", ("float", "notnone")), _A("size", (src,))),))))
                if cnt is not None and same(cnt, want) and repl == Const(False):
                    chk.hold("R11.3", "proportion:%s" % nm, "draws max(int(ratio*size), 1) without replacement")
                else:
                    chk.violation("R11.3", BS, "proportion:%s" % nm, "size=%s replace=%s" % (show(cnt, 120) if cnt is not None else "?", show(repl) if repl is not None else "?"),
                                  "size=max(int(ratio*size),1), replace=False", ctx.where(BS))
        if m == "proportion":
            rt = Sym("ratio", ("float", "notnone"))
            for nm, e in (("nb_easy_pos", EP), ("nb_easy_neg", EN)):
                g = res.attrs.get(nm)
                if g is not None and same(g, _A("trunc", (mul(rt, e),))):
                    chk.hold("R11.3", "proportion:" + nm, "int(ratio * easy count)")
                else:
                    chk.violation("R11.3", BS, "proportion:" + nm, show(g, 100) if g is not None else "unset", "int(ratio*%s)" % show(e), ctx.where(BS))
    if nret < 20:
        chk.unknown("R11.1", "only %d return paths of Scores.bootstrap_sample analysed" % nret)


def dynamic_method(ctx, chk, rule="R11.6", classes=None):
    """Resolution of sampling_method="dynamic": replacement iff a class has fewer than 100 hard scores (or smoothing / by_group forces it)."""
    ev = ctx.ev
    # ---------------- R11.6 dynamic method resolution
    for cls in (classes or (SCORES, GROUP)):
        for smoothing, strat in ((False, None), (True, None), (False, "by_group")):
            cfg_kw = dict(sampling_method="dynamic", stratified=strat, smoothing=smoothing)
            outs = ctx.explore(lambda: ev.call(ctx.method(ctx.scores_obj("pos", "pos", cls), "_sampling_method"), [make_config(ctx, **cfg_kw)], {}), chk)
            small = disj([compare("<", HP, Const(100)), compare("<", HN, Const(100))])
            q = cls + "._sampling_method"
            inst = "%s:smoothing=%s,strat=%s" % (cls.split(".")[-1], smoothing, strat)
            vals = {}
            for o in returns(outs):
                if isinstance(o.value, App) and o.value.fn == "ite":
                    # the method returned as a conditional expression: one case per arm, the arm's condition joining the path condition
                    from .c09 import ite_cases
                    from types import SimpleNamespace
                    for pc_, v_ in ite_cases(o.pc, o.value):
                        vals.setdefault(show(v_), []).append(SimpleNamespace(pc=list(pc_), value=v_))
                    continue
                vals.setdefault(show(o.value), []).append(o)
            force_repl = (smoothing and cls == SCORES) or (strat == "by_group" and cls == GROUP)
            if force_repl:
                if set(vals) == {"'replacement'"}:
                    chk.hold(rule, inst, "dynamic -> replacement")
                else:
                    chk.violation(rule, q, inst, sorted(vals), "'replacement' (smoothing / by_group forces replacement sampling)", ctx.where(q))
            else:
                rp = vals.get("'replacement'", [])
                sp = vals.get("'single_pass'", [])
                # truth table over the two size atoms: on every assignment exactly the paths with the expected value are enabled
                # (the shape of the branching - one test, nested tests, early returns, De Morgan forms - is free)
                ok = bool(rp) and bool(sp)
                for va in (True, False):
                    for vb in (True, False):
                        asg = {small.args[0]: va, small.args[1]: vb} if isinstance(small, App) and small.fn == "or" else {}
                        en = {k: [_bool_eval(_pc_formula(o), asg) for o in v] for k, v in vals.items()}
                        want = "'replacement'" if (va or vb) else "'single_pass'"
                        for k, flags in en.items():
                            if any(f is None for f in flags) or (k == want) != any(flags) or (k != want and any(flags)):
                                ok = False
                if ok:
                    chk.hold(rule, inst, "replacement iff len(pos) < 100 or len(neg) < 100, else single pass")
                else:
                    chk.violation(rule, q, inst, {k: [pc_text(o)[:120] for o in v] for k, v in vals.items()}, "replacement iff %s" % show(small, 120), ctx.where(q))


def _pc_formula(o):
    from ..terms import conj, negate
    return conj([c if t else negate(c) for c, t in o.pc])


def _int_norm(f):
    """le0(p) = lt0(p - 1) for an integer-valued p (integer coefficients over len(.) atoms): `n <= 99` is `n < 100`."""
    from ..terms import to_poly, cmp0, Poly
    if isinstance(f, App) and f.fn == "le0":
        p = to_poly(f.args[0])
        if p is not None and all(c.denominator == 1 for c in p.t.values()) and all(isinstance(a, App) and a.fn == "len" for m in p.t for a, _e in m):
            return cmp0("lt", p - Poly.const(1))
    return f


def _expand_minmax(f):
    """c + min(a, b) < 0  is  (c + a < 0) or (c + b < 0); with max it is `and` (same for <=): one comparison of the smaller / larger class size
    is the pair of per-class comparisons."""
    from ..terms import to_poly, cmp0, Poly, conj, disj
    if not (isinstance(f, App) and f.fn in ("lt0", "le0") and len(f.args) == 1):
        return None
    p = to_poly(f.args[0])
    if p is None:
        return None
    mm = [(m, c) for m, c in p.t.items() if len(m) == 1 and m[0][1] == 1 and isinstance(m[0][0], App) and m[0][0].fn in ("min", "max") and len(m[0][0].args) >= 2]
    if len(mm) != 1 or abs(mm[0][1]) != 1:
        return None
    m, c = mm[0]
    atom = m[0][0]
    rest = Poly({k: v for k, v in p.t.items() if k != m})
    parts = []
    for a in atom.args:
        pa = to_poly(a)
        if pa is None:
            return None
        parts.append(cmp0(f.fn[:2], rest + (pa if c > 0 else -pa)))
    # coefficient +1: min -> or, max -> and; coefficient -1 flips (-(min) = max(-))
    use_or = (atom.fn == "min") == (c > 0)
    return disj(parts) if use_or else conj(parts)


def _bool_eval(f, asg):
    """Value of a boolean term under an assignment of atoms (an atom or its negation may be the key); None = not determined."""
    from ..terms import negate
    if isinstance(f, Const):
        return bool(f.value)
    e = _expand_minmax(f)
    if e is not None:
        return _bool_eval(e, asg)
    for g in (f, _int_norm(f), negate(_int_norm(negate(f)))):
        if g in asg:
            return asg[g]
        n = negate(g)
        if n in asg:
            return not asg[n]
    if isinstance(f, App) and f.fn in ("and", "or", "not"):
        vs = [_bool_eval(a, asg) for a in f.args]
        if f.fn == "not":
            return None if vs[0] is None else not vs[0]
        if f.fn == "and":
            return False if any(v is False for v in vs) else (None if any(v is None for v in vs) else True)
        return True if any(v is True for v in vs) else (None if any(v is None for v in vs) else False)
    return None


def run(ctx, chk, tier):
    from . import c10 as _c10
    _c10.copy_derivations(ctx, chk, rule="R11.8")   # objects derived by a shallow copy must not keep the parent's caches
    # functools caches on the sampled classes must be coherent with every writer (a cached ratio that survives a setter feeds stale draw parameters)
    _c10.global_state_rule(ctx, chk, rule="R11.8", modules=("scores", "group_scores"), strict=False)
    chk.rule_text = ("obligations per return path of bootstrap_sample over the built-in configuration matrix (flags, same-class source, delivered size >= 1), per path of "
                     "_sample_indices (count algebra), mirror pairs of the dual functions, dynamic-method resolution; non-trivial = term mentions source arrays or draws")
    chk.explanation = ("bootstrap_sample and _sample_indices are explored path by path for every built-in (method, stratification, smoothing) combination. Structural clauses are read "
                       "off the derived terms: flags forwarded, each class drawn from the source's same class, requested class/stratum sizes sum to the source total on every path "
                       "(by_label: the four source strata), proportion draws max(int(ratio*size),1) without replacement, delivered sizes have lower bound 1 (interval facts: "
                       "binomial(n,.) in [0,n], counts >= 0, refined by the at-least-one guards), pos/neg duality of the sampling code, and the dynamic switch. "
                       "Unbiasedness / reachability in distribution are not decided.")
    chk.trusted |= {"numpy.random.binomial(n,p) in [0,n]", "numpy.random.choice(a, size=k) has length k", "numpy.repeat(arange(H), counts) has length sum(counts)", "C01 R01.4 for sortedness"}
    chk.assumptions = ["both source classes non-empty (len(pos) > 0, len(neg) > 0)", "distributional clauses (unbiasedness, reachability) are outside static reach"]
    ev = ctx.ev
    sample_wellformed(ctx, chk)
    # ---------------- R11.2 (= R01.4) is_sorted only with ascending arrays
    from . import c01
    c01.construction_sites(ctx, chk)
    c01.constructor_sorted(ctx, chk)   # samples built with is_sorted=False rely on the constructor's sort
    # ---------------- R11.3 count algebra of _sample_indices
    count_algebra(ctx, chk)
    draw_parameters(ctx, chk)
    # ---------------- R11.4 duality
    total_pairs = 0
    for q in (SI, BS, GROUP + ".bootstrap_sample", SCORES + "._sampling_method", GROUP + "._sampling_method"):
        f = ctx.db.function(q)
        n, finds = lint(f.node)
        total_pairs += n
        for fd in finds:
            chk.violation("R11.4", q, "partial-mirror:%s" % fd["statement"][:80], "%s   (partner line %d: %s)" % (fd["statement"], fd["partner_line"], fd["partner"]),
                          fd["detail"], "%s:%d" % (f.module.relpath, fd["line"]))
        if not finds:
            chk.hold("R11.4", q.split(".")[-2] + "." + q.split(".")[-1], "%d pos/neg statement pairs are exact mirror images" % n, nontrivial=n > 0)
    if total_pairs < 3:
        chk.unknown("R11.4", "only %d mirrored statement pairs found (floor 3)" % total_pairs)
    dynamic_method(ctx, chk)
    chk.floor("R11.6", 6, "2 classes x 3 configurations")
    dispatch(ctx, chk)


def dispatch(ctx, chk):
    """R11.7 the configured stratification reaches the index sampler: Scores.bootstrap_sample stratifies by label exactly when
    config.stratified_sampling == "by_label" (None and the documented by_group fallback are non-stratified); single_pass is true exactly on the single-pass path."""
    ev = ctx.ev
    n = 0
    for m in ("replacement", "single_pass"):
        for s in (None, "by_label", "by_group"):
            seen = []

            def stub(ev_, fi, bound):
                # a spy: records the bound flags and lets the real sampler run (its result may be a tuple in any order or a NamedTuple)
                seen.append(dict(bound))
                return NotImplemented

            ev.stubs[SI] = stub
            try:
                outs = ctx.explore(lambda: ev.call(ctx.method(ctx.scores_obj("pos", "pos"), "bootstrap_sample"), [], {"config": make_config(ctx, m, s, False, None)}), chk)
            finally:
                ev.stubs.pop(SI, None)
            inst = "dispatch[%s,%s]" % (m, s)
            if not seen:
                chk.unknown("R11.7", "%s: the index sampler (_sample_indices) is not called on this path: dispatch not decided" % inst)
                continue
            if not returns(outs):
                chk.violation("R11.7", BS, inst, "%d sampler calls, %d return paths" % (len(seen), len(returns(outs))), "one call of _sample_indices and a sample", ctx.where(BS))
                continue
            for b in seen:
                n += 1
                want = (Const(s == "by_label"), Const(m == "single_pass"))
                got = (b.get("by_label"), b.get("single_pass"))
                if got == want:
                    chk.hold("R11.7", inst, "_sample_indices(by_label=%s, single_pass=%s)" % (s == "by_label", m == "single_pass"))
                else:
                    chk.violation("R11.7", BS, inst, "_sample_indices(by_label=%s, single_pass=%s)" % tuple(show(x) if x is not None else "?" for x in got),
                                  "by_label=%s (stratify by label only when asked to; by_group without groups is documented as non-stratified), single_pass=%s" % (s == "by_label", m == "single_pass"),
                                  ctx.where(BS))
    if n < 6:
        chk.unknown("R11.7", "only %d sampler dispatches analysed" % n)


def sampler_result(v):
    """(pos index draw, neg index draw, easy pos count, easy neg count) of a _sample_indices result BY ROLE: the private helper may return
    them in any order or as a NamedTuple.  Roles: an index draw is an array-valued application (rng:choice / repeat / getitem ...), a count is a
    scalar; pos vs neg by the source quantity the term is built from (len(pos) / Ep vs len(neg) / En); a NamedTuple by its field names.
    None when the roles cannot be told apart."""
    if isinstance(v, Obj) and {"pos_idx", "neg_idx"} <= set(v.attrs) and len(v.attrs) >= 4:
        names = list(v.attrs)
        ep = next((v.attrs[n] for n in names if "easy" in n and "pos" in n), None)
        en = next((v.attrs[n] for n in names if "easy" in n and "neg" in n), None)
        if ep is not None and en is not None:
            return v.attrs["pos_idx"], v.attrs["neg_idx"], ep, en
        return None
    if not (isinstance(v, Tup) and len(v.items) == 4):
        return None
    items = list(v.items)

    def is_index(t):
        return isinstance(t, _A) and (t.fn in ("rng:choice", "rng:randint", "rng:integers", "repeat", "getitem", "sort", "arange", "concat", "nonzero", "flatnonzero", "where", "fresh")
                                      or t.fn.startswith("rng:") and t.kwd("size") is not None and t.fn in ("rng:choice", "rng:randint", "rng:integers"))
    idx = [t for t in items if is_index(t)]
    cnt = [t for t in items if not is_index(t)]
    if len(idx) != 2 or len(cnt) != 2:
        return None

    def side(t):
        keys = {a.key for a in atoms_of(t)} | ({t.key} if hasattr(t, "key") else set())
        p = bool(keys & {POS.key, EP.key, HP.key if hasattr(HP, "key") else ""}) or any("len(pos)" in k or "$pos" in k for k in keys)
        n = bool(keys & {NEG.key, EN.key, HN.key if hasattr(HN, "key") else ""}) or any("len(neg)" in k or "$neg" in k for k in keys)
        return "pos" if p and not n else "neg" if n and not p else None
    out = {}
    for kind, group in (("idx", idx), ("cnt", cnt)):
        sides = [side(t) for t in group]
        if sorted(x or "" for x in sides) == ["neg", "pos"]:
            for t, sd in zip(group, sides):
                out[(kind, sd)] = t
        else:
            # not separable by content (a joint draw mentions both classes): keep the declared order of appearance, positives first
            out[(kind, "pos")], out[(kind, "neg")] = group
    return out[("idx", "pos")], out[("idx", "neg")], out[("cnt", "pos")], out[("cnt", "neg")]


def count_algebra(ctx, chk):
    ev = ctx.ev
    facts = [compare(">", HP, Const(0)), compare(">", HN, Const(0))]
    ev.merge_ifs = False
    ev.assume = list(facts)
    try:
        for by_label in (False, True):
            outs = ctx.explore(lambda: ev.call(ctx.method(ctx.scores_obj("pos", "pos"), "_sample_indices"), [], {"by_label": Const(by_label), "single_pass": Const(False)}), chk)
            n = 0
            for o in outs:
                if o.kind != "return" or sampler_result(o.value) is None:
                    continue
                pi, ni, ep_, en_ = sampler_result(o.value)
                kp = pi.kwd("size") if isinstance(pi, _A) and pi.fn == "rng:choice" else None
                kn = ni.kwd("size") if isinstance(ni, _A) and ni.fn == "rng:choice" else None
                if kp is None or kn is None:
                    chk.unknown("R11.3", "_sample_indices(by_label=%s): index draws not recognised" % by_label)
                    continue
                n += 1
                inst = "by_label=%s:path[%s]" % (by_label, "".join("T" if t else "F" for _c, t in o.pc))
                if by_label:
                    ok = same(kp, HP) and same(kn, HN) and same(ep_, EP) and same(en_, EN)
                    if ok:
                        chk.hold("R11.3", inst, "stratified: (hard_pos, hard_neg, easy_pos, easy_neg) = the source's four stratum sizes")
                    else:
                        chk.violation("R11.3", SI, "by_label:strata", "(%s, %s, %s, %s)" % tuple(show(x, 60) for x in (kp, kn, ep_, en_)), "(len(pos), len(neg), Ep, En)", ctx.where(SI))
                else:
                    tot = add(add(kp, ep_), add(kn, en_))
                    if same(tot, ALLN):
                        chk.hold("R11.3", inst, "hard_pos + easy_pos + hard_neg + easy_neg = nb_all_samples")
                    else:
                        chk.violation("R11.3", SI, "total:path[%s]" % pc_text(o)[:160], show(tot, 260), show(ALLN, 100) + " (replacement sampling preserves the total count)", ctx.where(SI))
            if n == 0:
                chk.unknown("R11.3", "_sample_indices(by_label=%s): no return path analysed" % by_label)
    finally:
        ev.merge_ifs = True
        ev.assume = []


def draw_parameters(ctx, chk):
    """R11.9 the random sizes are drawn with the source's own proportions (necessary for 'expected class and stratum sizes equal the
    source's'): without stratification the class size is binomial(nb_all_samples, nb_all_pos / nb_all_samples) and the easy / hard split of
    a class is binomial(class size, easy ratio of that class); single-pass multiplicities are drawn per hard score with p = 1 / (number of
    hard scores of the class).  With by_label no size is random at all: the easy counts come back as declared and no draw is parametrised
    by the total or by a class / easy proportion."""
    from ..terms import div
    from ..terms import same as _same
    ev = ctx.ev
    ev.merge_ifs = False
    ev.assume = [compare(">", HP, Const(0)), compare(">", HN, Const(0))]
    pos_ratio = div(add(EP, HP), ALLN)
    easy_p = sub(Const(1), div(HP, add(EP, HP)))
    easy_n = sub(Const(1), div(HN, add(EN, HN)))

    def plain(p_):
        # `x / n if n > 0 else 0.0` under the standing assumption of two non-empty classes
        while isinstance(p_, _A) and p_.fn == "ite" and len(p_.args) == 3:
            p_ = p_.args[1]
        return p_
    try:
        for by_label in (False, True):
            for single_pass in (False, True):
                tag = "by_label=%s,single_pass=%s" % (by_label, single_pass)
                try:
                    outs = ctx.explore(lambda: ev.call(ctx.method(ctx.scores_obj("pos", "pos"), "_sample_indices"), [], {"by_label": Const(by_label), "single_pass": Const(single_pass)}), chk, max_paths=8000)
                except Exception as e:  # noqa: BLE001
                    chk.unknown("R11.9", "%s: %s" % (tag, str(e)[:120]))
                    continue
                bad, n = None, 0
                some = compare(">", ALLN, Const(0))
                for o in outs:
                    if o.kind != "return":
                        continue
                    if any(c == some and not t for c, t in o.pc):
                        continue      # "no samples at all" contradicts the standing assumption of two non-empty classes

                    if any(_empty_total(c, t) for c, t in o.pc if hasattr(c, "key")):
                        continue
                    n += 1
                    from .c09 import zero_facts
                    z = zero_facts(o.pc)     # easy counts that this path knows to be zero

                    def same(a_, b_, _z=z, _pc=o.pc):   # noqa: F811  (comparison modulo the path's zero facts)
                        if a_ is None or b_ is None:
                            return False
                        if _same(subst(a_, _z), subst(b_, _z)):
                            return True
                        # a ratio written as a conditional expression (`q if total > 0 else 1.0`) is an ite term: compared case by case, each
                        # case with its own zero facts; a case in which the specified quotient is 0/0 says nothing
                        from .c09 import ite_cases
                        cases = ite_cases(_pc, a_)
                        if len(cases) <= 1:
                            return False
                        for pc_, v_ in cases:
                            zz = dict(_z)
                            zz.update(zero_facts(pc_))
                            dens = [x_.args[0] for x_ in atoms_of(b_) if isinstance(x_, _A) and x_.fn == "inv"]
                            if any(_same(subst(d_, zz), Const(0)) for d_ in dens):
                                continue
                            if not _same(subst(v_, zz), subst(b_, zz)):
                                return False
                        return True
                    sized = [e for e in o.events if e["kind"] == "rng" and e["fn"] in ("binomial", "poisson") and "size" not in e["kwargs"]]
                    multi = [e for e in o.events if e["kind"] == "rng" and e["fn"] in ("binomial", "poisson") and "size" in e["kwargs"]]
                    if by_label:
                        if sized:
                            bad = bad or ("a random size is drawn although the strata are fixed: %s(n=%s, p=%s)" % (sized[0]["fn"], show(sized[0]["kwargs"].get("n"), 60), show(sized[0]["kwargs"].get("p"), 60)),
                                          "no size draw with by_label (all four stratum sizes are the source's)")
                        sr_ = sampler_result(o.value)
                        if sr_ is not None and not (same(sr_[2], EP) and same(sr_[3], EN)):
                            bad = bad or ("easy counts (%s, %s)" % (show(sr_[2], 60), show(sr_[3], 60)), "(Ep, En) as declared")
                    else:
                        if len(sized) < 3:
                            bad = bad or ("%d size draws" % len(sized), "class size, easy positives, easy negatives")
                        else:
                            c0, c1, c2 = sized[0]["kwargs"], sized[1]["kwargs"], sized[2]["kwargs"]
                            if not (same(c0.get("n"), ALLN) and same(plain(c0.get("p")), pos_ratio)):
                                bad = bad or ("class size ~ binomial(n=%s, p=%s)" % (show(c0.get("n"), 60), show(plain(c0.get("p")), 100)), "binomial(nb_all_samples, nb_all_pos / nb_all_samples)")
                            if not same(plain(c1.get("p")), easy_p):
                                bad = bad or ("easy positives ~ p=%s" % show(plain(c1.get("p")), 100), "easy_pos_ratio = nb_easy_pos / nb_all_pos")
                            if not same(plain(c2.get("p")), easy_n):
                                bad = bad or ("easy negatives ~ p=%s" % show(plain(c2.get("p")), 100), "easy_neg_ratio = nb_easy_neg / nb_all_neg")
                    if single_pass:
                        want = {(HP.key): div(Const(1), HP), (HN.key): div(Const(1), HN)}
                        for e in multi:
                            sz = e["kwargs"].get("size")
                            pexp = want.get(sz.key) if sz is not None else None
                            pv = e["kwargs"].get("p")
                            lam = e["kwargs"].get("lam")
                            if pexp is None or (pv is not None and not same(pv, pexp)):
                                bad = bad or ("multiplicities ~ %s(size=%s, p=%s)" % (e["fn"], show(sz, 40), show(pv, 60)), "one draw per hard score of the class with p = 1 / (number of hard scores)")
                        if len(multi) < 2:
                            bad = bad or ("%d multiplicity draws" % len(multi), "one per class")
                if n == 0:
                    chk.unknown("R11.9", "%s: no return path" % tag)
                elif bad:
                    chk.violation("R11.9", SI, tag, bad[0], bad[1], ctx.where(SI))
                else:
                    chk.hold("R11.9", tag, "draw parameters are the source's proportions on %d path(s)" % n)
    finally:
        ev.merge_ifs = True
        ev.assume = []


def is_len_of(base, src):
    return same(base, _A("len", (src,)))


def exc_ok(o, m, sm):
    """Documented refusals: smoothing with single pass."""
    txt = show(o.value, 200)
    return "Smoothing is not supported" in txt
