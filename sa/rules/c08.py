"""C08 — symmetry under class swap, direction reversal and rescaling (DESIGN §4 C08)."""
from __future__ import annotations

from fractions import Fraction

from ..evalr import Obj
from ..numeval import Arr, CannotEvaluate, Eps, ekey
from ..spec import GAMMAS, GROUP, SCORES, POS, NEG, EP, EN, T, returns, raises, unmodelled_text
from ..terms import App, Const, Sym, same, show, sub, subst, atoms_of
from ..simp import mk_app
from .c01 import derive_cm_table
from .thr import METRICS, METHODS, SCORE_REPS, EASY_REPS, TARGET_REPS, env_for, explore_threshold, pick_value

LEVEL = "other"
FLIP = {"pos": "neg", "neg": "pos"}


def table(ctx, chk, sc, ec, pos=POS, neg=NEG, ep=EP, en=EN):
    from ..spec import CELLS, cell, CM
    from ..spec import returns as rets_
    outs = ctx.explore(lambda: ctx.ev.call(ctx.method(ctx.scores_obj(sc, ec, SCORES, pos, neg, ep, en), "cm"), [T], {}), chk)
    r = rets_(outs)
    if len(r) != 1 or r[0].unmodelled or not isinstance(r[0].value, Obj):
        return None
    m = r[0].value.attrs.get("matrix")
    return {n: cell(ctx.ev, m, ij) for n, ij in CELLS.items()}


def mirror(term):
    """Image of a counting term under s -> -s, t -> -t:  #{a < t} <-> #{a > t},  #{a <= t} <-> #{a >= t}."""
    mp = {}
    for a in atoms_of(term):
        if isinstance(a, App) and a.fn == "count_lt":
            mp[a] = sub(App("len", (a.args[0],)), mk_app("count_le", list(a.args)))
        elif isinstance(a, App) and a.fn == "count_le":
            mp[a] = sub(App("len", (a.args[0],)), mk_app("count_lt", list(a.args)))
    return subst(term, mp)


def swap_rule(ctx, chk):
    for cls in (SCORES, GROUP):
        q = cls + ".swap"
        for sc, ec in GAMMAS:
            outs = ctx.explore(lambda: ctx.ev.call(ctx.method(ctx.scores_obj(sc, ec, cls), "swap"), [], {}), chk)
            rets = returns(outs)
            inst = "%s:%s/%s" % (cls.split(".")[-1], sc, ec)
            if len(rets) != 1 or raises(outs) or not isinstance(rets[0].value, Obj):
                chk.unknown("R08.1", "%s: %d return paths" % (inst, len(rets)))
                continue
            o = rets[0].value
            src = ctx.scores_obj(sc, ec, cls)
            want = {"pos": src.attrs["neg"], "neg": src.attrs["pos"], "nb_easy_pos": src.attrs["nb_easy_neg"], "nb_easy_neg": src.attrs["nb_easy_pos"],
                    "score_class": ctx.label(FLIP[sc]), "equal_class": ctx.label(FLIP[ec])}
            if cls == GROUP:
                want.update(pos_groups=src.attrs["neg_groups"], neg_groups=src.attrs["pos_groups"])
            bad = [(k, o.attrs.get(k), w) for k, w in want.items() if not (o.attrs.get(k) is not None and same(o.attrs.get(k), w))]
            if o.cls.qualname != cls:
                bad.append(("class", o.cls.qualname, cls))
            if not bad:
                chk.hold("R08.1", inst, "swap() -> %s(pos=neg, neg=pos, easy counts swapped, both flags flipped%s)" % (cls.split(".")[-1], ", groups swapped" if cls == GROUP else ""))
            for k, g, w in bad:
                chk.violation("R08.1", q, inst + ":" + k, show(g, 120) if hasattr(g, "key") else str(g), show(w, 120) if hasattr(w, "key") else str(w), ctx.where(q))
    chk.floor("R08.1", 8, "2 classes x 4 configurations")


def table_rules(ctx, chk):
    for sc, ec in GAMMAS:
        t0 = table(ctx, chk, sc, ec)
        t1 = table(ctx, chk, FLIP[sc], FLIP[ec], pos=NEG, neg=POS, ep=EN, en=EP)
        t2 = table(ctx, chk, FLIP[sc], ec)
        if not (t0 and t1 and t2):
            chk.unknown("R08.2", "cm table not derivable for %s/%s" % (sc, ec))
            continue
        for a, b in (("tp", "tn"), ("fp", "fn"), ("fn", "fp"), ("tn", "tp")):
            inst = "swap:%s/%s:%s'=%s" % (sc, ec, a.upper(), b.upper())
            if same(t1[a], t0[b]):
                chk.hold("R08.2", inst, "%s of swapped object = %s of original = %s" % (a.upper(), b.upper(), show(t0[b], 100)))
            else:
                chk.violation("R08.2", SCORES + ".cm", inst, show(t1[a], 160), show(t0[b], 160), ctx.where(SCORES + ".cm"))
        for a in ("tp", "fn", "fp", "tn"):
            inst = "negation:%s/%s:%s" % (sc, ec, a)
            if same(mirror(t2[a]), t0[a]):
                chk.hold("R08.2", inst, "cm of (-scores, flipped score_class) at -t equals cm at t: %s" % show(t0[a], 100))
            else:
                chk.violation("R08.2", SCORES + ".cm", inst, show(mirror(t2[a]), 160), show(t0[a], 160), ctx.where(SCORES + ".cm"))
    chk.floor("R08.2", 32, "4 configurations x (4 swap + 4 negation) cells")


def tmap(v, a, b):
    """Image of a threshold value under s -> a*s + b (a != 0); sentinels keep / flip their side."""
    if isinstance(v, Eps):
        return Eps(a * v.x + b, v.s if a > 0 else -v.s)
    return a * v + b


def equivariance(ctx, chk, tier):
    from .thr import reps_for, easy_for
    reps = reps_for(tier)
    easy = easy_for(tier, 2)
    targets = TARGET_REPS if tier == "thorough" else TARGET_REPS[::2]
    if tier != "thorough":
        reps = [r for r in reps if r[0] in ("1v1", "3v2", "2v3sep", "ties")]
    maps = ((Fraction(3), Fraction(7)), (Fraction(1, 4), Fraction(-2)))
    for metric in METRICS:
        q = SCORES + ".threshold_at_" + metric
        for sc, ec in GAMMAS:
            for method in METHODS:
                outs = explore_threshold(ctx, chk, metric, sc, ec, method)
                outs_m = explore_threshold(ctx, chk, metric, FLIP[sc], ec, method)
                bad = None
                n = 0
                try:
                    for rname, (pos, neg) in reps:
                        for ep, en in easy:
                            for r in targets:
                                t = pick_value(outs, env_for(pos, neg, ep, en, r=r))
                                if isinstance(t, tuple):
                                    continue
                                for a, b in maps:
                                    t2 = pick_value(outs, env_for([a * x + b for x in pos], [a * x + b for x in neg], ep, en, r=r))
                                    n += 1
                                    if ekey(t2)[0] != ekey(tmap(t, a, b))[0] and bad is None:
                                        bad = ("affine", rname, ep, en, r, "scores*%s+%s: threshold %r, expected %r" % (a, b, t2, tmap(t, a, b)))
                                if method == "linear":
                                    t3 = pick_value(outs_m, env_for(sorted(-Fraction(x) for x in pos), sorted(-Fraction(x) for x in neg), ep, en, r=r))
                                    n += 1
                                    if ekey(t3)[0] != ekey(tmap(t, Fraction(-1), Fraction(0)))[0] and bad is None:
                                        bad = ("negation", rname, ep, en, r, "negated scores with score_class flipped: threshold %r, expected %r" % (t3, tmap(t, Fraction(-1), Fraction(0))))
                except CannotEvaluate as e:
                    chk.unknown("R08.3", "%s %s/%s %s: %s" % (metric, sc, ec, method, e))
                    continue
                chk.paths(n)
                inst = "%s:%s/%s:%s" % (metric, sc, ec, method)
                if bad is None:
                    chk.hold("R08.3", inst, "%d representative pairs: thresholds map by the same affine map; negation negates (linear)" % n)
                else:
                    chk.violation("R08.3", q, inst + ":" + bad[0], "rep %s easy=(%d,%d) r=%s: %s" % (bad[1], bad[2], bad[3], bad[4], bad[5]),
                                  "equivariance of the returned threshold", ctx.where(q))
    chk.floor("R08.3", 72, "6 metrics x 4 configurations x 3 methods")


def run(ctx, chk, tier):
    from . import c10 as _c10
    _c10.copy_derivations(ctx, chk, rule="R08.1")   # objects derived by a shallow copy must not keep the parent's caches
    from . import c01 as _c01
    _c01.flag_identity(ctx, chk)   # direction flags: identity comparisons need BinaryLabel members on every construction path
    chk.rule_text = ("R08.1: field-by-field image of swap() for 2 classes x 4 configurations; R08.2: 32 cell identities between derived cm tables; "
                     "R08.3: derived threshold terms evaluated on representative pairs (original, transformed); non-trivial = term mentions scores")
    chk.explanation = ("swap() is evaluated symbolically and its constructor arguments compared with the mirrored state. Rate symmetries are decided on the derived "
                       "cm tables: the table of the swapped object equals the transposed-role table of the original, and the table for the reversed direction equals "
                       "the mirror image (#{a<t} <-> #{a>t}) of the original, as polynomial identities valid for all inputs. Threshold equivariance is decided by "
                       "exact evaluation of the derived threshold terms on order-type representatives and their affine/negated images (bounded enumeration).")
    chk.trusted |= {"C01 decision table", "nextafter commutes with increasing affine maps up to ulp (modelled as infinitesimal)"}
    chk.assumptions = ["thresholds are compared up to the infinitesimal (one-ulp) sentinel shift, as the property allows a few ulp", "EER equivariance is covered by C06"]
    swap_rule(ctx, chk)
    table_rules(ctx, chk)
    equivariance(ctx, chk, tier)
    # EER equivariance under reversal rests on the EER rules (zero clause, crossing function) and affine equivariance of the
    # sentinels on the float typing of the threshold array: re-decide those obligations here.
    from . import c06, c03, c07, c10
    c06.run(ctx, chk, tier)
    c03.sentinel_dtype(ctx, chk)
    # equivariance of the TOPR / TONR setters presupposes that they invert over the pooled scores as given (a class cast to the other's
    # dtype while merging is not an affine image of anything): R02.1
    from . import c02s
    c02s.flip_parity(ctx, chk, metrics=("topr", "tonr"))
    # AUC invariance rests on the AUC construction (both float neighbours of every score, own rates); relations between two runs
    # that share a target array rest on the setters not modifying caller arrays
    c07.structural(ctx, chk)
    c10.purity(ctx, chk, only=("Scores.threshold_at_", "Scores.cm", "Scores.eer", "Scores.auc", "Scores.swap", "GroupScores.swap"))
