"""C06 — EER is a crossing point (DESIGN §4 C06)."""
from __future__ import annotations

from ..evalr import FuncV, Obj
from ..spec import GAMMAS, SCORES, POS, NEG, EP, EN, returns, raises, unmodelled_text, pc_text
from ..terms import (App, Const, Num, Sym, Tup, TRUE, FALSE, same, show, sub, add, mul, div, neg, subst, atoms_of, to_poly, mk_num, negate, compare,
                     cmp0, V)
from ..simp import mk_app

LEVEL = "other"
EERQ = SCORES + ".eer"
ROOTQ = SCORES + "._find_root"
HP, HN = App("len", (POS,)), App("len", (NEG,))


def stub_setter(name):
    def h(ev, fi, bound):
        arg = [v for k, v in bound.items() if k not in ("self", "method")][0]
        return App(name, (arg,))
    return h


def delegate_stubs(ctx, public, name):
    """When a public setter merely forwards to a private implementation (`return self._threshold_at_fpr(self.neg, fpr, method)`), callers inside
    the class may use that implementation directly (to convert the scores once): it is the same setter.  Returns {qualname: stub} for it."""
    import ast
    try:
        fi = ctx.db.function(SCORES + "." + public)
    except Exception:  # noqa: BLE001
        return {}
    params = [a.arg for a in fi.node.args.args if a.arg != "self"]
    if not params:
        return {}
    ratio = params[0]
    rets = [n for n in ast.walk(fi.node) if isinstance(n, ast.Return) and isinstance(n.value, ast.Call)]
    out = {}
    for r in rets:
        c = r.value
        if not (isinstance(c.func, ast.Attribute) and isinstance(c.func.value, ast.Name) and c.func.value.id == "self" and c.func.attr.startswith("_")):
            continue
        try:
            d = ctx.db.function(SCORES + "." + c.func.attr)
        except Exception:  # noqa: BLE001
            continue
        dparams = [a.arg for a in d.node.args.args if a.arg != "self"]
        target, pop = None, None
        for i, a in enumerate(c.args):
            if isinstance(a, ast.Name) and a.id == ratio and i < len(dparams):
                target = dparams[i]
            if isinstance(a, ast.Attribute) and isinstance(a.value, ast.Name) and a.value.id == "self" and a.attr in ("pos", "neg") and i < len(dparams):
                pop = (dparams[i], a.attr)
        for k in c.keywords:
            if isinstance(k.value, ast.Name) and k.value.id == ratio:
                target = k.arg
        # only a pure delegation counts: the ratio is passed through unchanged and the callee is not the shared inversion helper
        if target is not None and d.qualname not in (SCORES + "._threshold_at_ratio", SCORES + "._invert_increasing_function"):
            def stub(ev, fi_, bound, t=target, pop=pop):
                if pop is not None:
                    # the implementation must be handed the class the public setter hands it (as given or converted to float)
                    from ..libmodel import strip_fresh
                    got = strip_fresh(bound.get(pop[0]))
                    want = strip_fresh(bound["self"].attrs.get(pop[1])) if hasattr(bound.get("self"), "attrs") else None
                    if want is None or got != want:
                        return App(name + "_ON_OTHER_SCORES", (bound[t],))
                return App(name, (bound[t],))
            out[d.qualname] = stub
    return out


X = Sym("x", ("param_scalar", "float", "notnone"))


def explore_eer(ctx, chk, sc, ec, easy):
    fcalls = []

    def stubroot(ev, fi, bound):
        # the root finder's parameters by POSITION (function, lower end, upper end, first-or-last flag): private names are not part of the contract
        names = [a.arg for a in fi.node.args.posonlyargs + fi.node.args.args if a.arg not in ("self", "cls")]
        fn_, lo_, hi_ = (bound.get(n) for n in names[:3])
        flag_ = bound.get("find_first", bound.get(names[3]) if len(names) > 3 else None)
        fx = ev.call(fn_, [X], {})
        fcalls.append(fx)
        return App("ROOT", (lo_, hi_, flag_))

    ev = ctx.ev
    ev.stubs[SCORES + ".threshold_at_fpr"] = stub_setter("TFPR")
    ev.stubs[SCORES + ".threshold_at_fnr"] = stub_setter("TFNR")
    extra = {}
    extra.update(delegate_stubs(ctx, "threshold_at_fpr", "TFPR"))
    extra.update(delegate_stubs(ctx, "threshold_at_fnr", "TFNR"))
    ev.stubs.update(extra)
    ev.stubs[ROOTQ] = stubroot
    if easy:
        ev.assume = [compare(">", EP, Const(0)), compare(">", EN, Const(0))]
        ep, en = EP, EN
    else:
        ep, en = Const(0), Const(0)
    try:
        outs = ctx.explore(lambda: ev.call(ctx.method(ctx.scores_obj(sc, ec, ep=ep, en=en), "eer"), [], {}), chk)
    finally:
        ev.assume = []
        for k in [SCORES + ".threshold_at_fpr", SCORES + ".threshold_at_fnr", ROOTQ] + list(extra):
            ev.stubs.pop(k, None)
    return outs, fcalls


def run(ctx, chk, tier):
    own = chk.pid == "C06"   # as a prerequisite of another check the host's own rule text and explanation stay
    saved = (getattr(chk, "rule_text", ""), getattr(chk, "explanation", ""))
    chk.rule_text = ("obligations per return path of eer() for 2 score directions x easy/no-easy: admissible EER value (cap), zero clause, threshold is a setter "
                     "applied to the returned EER, crossing function; plus the bisection schema of _find_root; non-trivial = path value mentions scores or ratios")
    chk.explanation = ("eer() is explored path by path with the two threshold setters and the root finder stubbed. Every returned EER value must be 0 under strict "
                       "separation, the cap min(hard_pos_ratio, hard_neg_ratio), the smaller hard fraction under its guard, or the midpoint of two roots on [0, cap]; the "
                       "zero path must return the midpoint of the two separating extremes under a strict guard (then cm() has no errors for either equal_class by C01); "
                       "the crossing function must be sign*(T_fpr(x) - T_fnr(x)) normalised so that f(0) <= 0; _find_root's loop body is checked against the bisection "
                       "schema by case analysis on the sign of f(xm).")
    if not own:
        chk.rule_text, chk.explanation = saved
    chk.trusted |= {"C02/C03 for the two threshold setters", "np.isclose as an equality test of the two hard fractions"}
    chk.assumptions = ["the one-sample magnitude |FPR(t) - e| <= 1/N and convergence of the bisection are not decided here"]
    for sc in ("pos", "neg"):
        for easy in (True, False):
            hp = div(HP, add(HP, EP)) if easy else Const(1)
            hn = div(HN, add(HN, EN)) if easy else Const(1)
            cap = mk_app("min", [hp, hn])
            outs, fcalls = explore_eer(ctx, chk, sc, "pos", easy)
            tag = "%s:%s" % (sc, "easy" if easy else "noeasy")
            rets = returns(outs)
            if len(rets) < 3 or any(o.unmodelled for o in rets):
                chk.unknown("R06.1", "eer() %s: %d return paths, unmodelled %s" % (tag, len(rets), [unmodelled_text(o) for o in rets if o.unmodelled][:1]))
                continue
            for o in raises(outs):
                if not o.pc:
                    chk.violation("R06.1", EERQ, tag + ":raises", show(o.value, 80), "eer() returns for non-empty classes", ctx.where(EERQ))
                    continue
                # a refusal that depends on how many scores a (non-empty) class has, or on the declared easy counts, rejects inputs of the quantifier
                from ..terms import atoms_of as _atoms
                conds = [(c, t) for c, t in o.pc if any(a in (HP, HN, EP, EN) for a in [c] + list(_atoms(c)))]
                sized = [c for c, t in conds if not (isinstance(c, App) and c.fn in ("eq0", "ne0") and len(_atoms(c)) <= 2 and to_poly(c.args[0]) is not None
                                                      and to_poly(c.args[0]).const_value() == 0)]
                if sized:
                    chk.violation("R06.1", EERQ, tag + ":refusal", "%s when %s" % (show(o.value, 80), pc_text(o)[:160]),
                                  "eer() returns a pair whenever both classes are non-empty (a class of a single score included)", ctx.where(EERQ))
            # separating extremes for the zero clause
            lo_side, hi_side = (App("getitem", (NEG, Const(-1))), App("getitem", (POS, Const(0)))) if sc == "pos" else (App("getitem", (POS, Const(-1))), App("getitem", (NEG, Const(0))))
            strict = cmp0("lt", to_poly(sub(lo_side, hi_side)))
            nroot = 0
            rets = split_selected_returns(rets, hp, hn)
            if len(rets) < 3 or any(o.unmodelled for o in rets):
                chk.unknown("R06.1", "eer() %s: %d return paths" % (tag, len(rets)))
                continue
            for i, o in enumerate(rets):
                val_ = o.value
                if isinstance(val_, Obj) and getattr(val_, "nt_fields", None) is not None and len(val_.nt_fields) == 2:
                    val_ = Tup([val_.attrs[f_] for f_ in val_.nt_fields])       # a (threshold, eer) NamedTuple is the pair
                if not (isinstance(val_, Tup) and len(val_.items) == 2):
                    chk.unknown("R06.1", "eer() %s returns %s" % (tag, show(o.value, 80)))
                    continue
                t, e = val_.items
                pcs = {c.key: tk for c, tk in o.pc}
                inst = "%s:path%d" % (tag, i)
                kind = None
                if same(e, Const(0)):
                    kind = "zero"
                    ok_guard = pc_value(o.pc, strict) is True
                    ok_thr = same(t, div(add(lo_side, hi_side), Const(2)))
                    if ok_guard and ok_thr:
                        chk.hold("R06.2", inst, "EER 0 only under strict separation %s, threshold = midpoint %s" % (show(strict, 80), show(t, 80)))
                    else:
                        chk.violation("R06.2", EERQ, "%s:zero-clause" % tag, "guard: %s ; threshold %s" % (pc_text(o)[:160], show(t, 120)),
                                      "guard %s (strict) and threshold = (%s + %s)/2" % (show(strict, 80), show(lo_side), show(hi_side)), ctx.where(EERQ))
                    continue
                roots = [a for a in atoms_of(e) if isinstance(a, App) and a.fn == "ROOT"]
                if roots:
                    kind = "root"
                    nroot += 1
                    want = div(add(App("ROOT", (Const(0), cap, TRUE)), App("ROOT", (Const(0), cap, FALSE))), Const(2))
                    if same(e, want):
                        chk.hold("R06.1", inst, "EER = midpoint of first and last root of f on [0, %s]" % show(cap, 80))
                    else:
                        chk.violation("R06.1", EERQ, tag + ":root-interval", show(e, 240), show(want, 240), ctx.where(EERQ))
                elif same(e, cap):
                    kind = "cap"
                    chk.hold("R06.1", inst, "EER = cap = %s" % show(cap, 100))
                elif same(e, hp) and easy and pc_value(o.pc, cmp0("lt", to_poly(sub(hp, hn)))) is True:
                    kind = "hp"
                    chk.hold("R06.1", inst, "EER = hard_pos_ratio under guard hard_pos_ratio < hard_neg_ratio")
                elif same(e, hn) and easy and pc_value(o.pc, cmp0("lt", to_poly(sub(hp, hn)))) is False:
                    kind = "hn"
                    chk.hold("R06.1", inst, "EER = hard_neg_ratio under guard hard_neg_ratio <= hard_pos_ratio")
                else:
                    understood = all((isinstance(a, App) and a.fn in ("min", "max", "inv", "len", "ROOT")) or a in (EP, EN) for a in atoms_of(e))
                    if understood:
                        chk.violation("R06.1", EERQ, tag + ":cap", "EER = %s on path [%s]" % (show(e, 200), pc_text(o)[:120]),
                                      "0, min(hard_pos_ratio, hard_neg_ratio) = %s, the smaller hard fraction under its guard, or a root midpoint on [0, cap]" % show(cap, 100), ctx.where(EERQ))
                    else:
                        chk.unknown("R06.1", "EER value not understood on %s: %s" % (inst, show(e, 160)))
                    continue
                # R06.3: threshold is a setter applied to the returned EER (which one depends on the saturating rate)
                tf, tn_ = App("TFPR", (e,)), App("TFNR", (e,))
                mid = div(add(tf, tn_), Const(2))
                if kind == "hp":
                    cands, why = [tf], "threshold_at_fpr(e): FNR saturates at hard_pos_ratio, FPR must be set"
                elif kind == "hn":
                    cands, why = [tn_], "threshold_at_fnr(e): FPR saturates at hard_neg_ratio, FNR must be set"
                elif kind == "cap":
                    eqg = any(tk and ((isinstance(c, App) and c.fn == "isclose" and {x.key for x in c.args} == {hp.key, hn.key}) or c == cmp0("eq", to_poly(sub(hp, hn))))
                              for c, tk in o.pc) or same(hp, hn)
                    cands = [tf, tn_, mid] if eqg else []
                    why = "the midpoint/either setter only when both hard fractions coincide (guard isclose(hard_pos_ratio, hard_neg_ratio))"
                else:
                    cands, why = [tf, tn_, mid], "threshold_at_fpr(e), threshold_at_fnr(e) or their midpoint"
                # a setter applied to a constant k that the path condition equates with the EER (a memoised end point) is setter(EER)
                for a in list(atoms_of(t)):
                    if isinstance(a, App) and a.fn in ("TFPR", "TFNR") and len(a.args) == 1 and a.args[0] != e and to_poly(a.args[0]) is not None \
                            and pc_value(o.pc, compare("==", e, a.args[0])) is True:
                        t = subst(t, {a: App(a.fn, (e,))})
                if any(same(t, c) for c in cands):
                    chk.hold("R06.3", inst + ":threshold", "threshold = setter(EER) [%s]" % kind)
                elif any(isinstance(a, App) and (a.fn.startswith("dict.") or a.fn.startswith("ext:")) for a in atoms_of(t)):
                    chk.unknown("R06.3", "%s: threshold %s is read from a container the analysis cannot resolve" % (inst, show(t, 120)))
                elif not any(isinstance(a, App) and a.fn in ("TFPR", "TFNR") for a in [t] + list(atoms_of(t))):
                    # the threshold is not computed through the setters the rule replaces by tokens (a private implementation bound some other
                    # way): it cannot be compared in this vocabulary
                    chk.unknown("R06.3", "%s: threshold is not expressed through threshold_at_fpr / threshold_at_fnr: %s" % (inst, show(t, 120)))
                else:
                    chk.violation("R06.3", EERQ, tag + ":threshold-of-eer:" + kind, "%s on path [%s]" % (show(t, 160), pc_text(o)[-160:]), why, ctx.where(EERQ))
            if nroot == 0:
                chk.unknown("R06.1", "eer() %s: no path reaches the root finder" % tag)
            # R06.3 crossing function
            sign = neg(sub(App("TFPR", (Const(0),)), App("TFNR", (Const(0),))))
            want_f = mul(sign, sub(App("TFPR", (X,)), App("TFNR", (X,))))
            if not fcalls:
                chk.unknown("R06.3", "crossing function not observed for %s" % tag)
            for fx in fcalls[:1]:
                if same(fx, want_f):
                    chk.hold("R06.3", tag + ":crossing", "f(x) = -(T_fpr(0) - T_fnr(0)) * (T_fpr(x) - T_fnr(x))")
                elif same(fx, neg(want_f)):
                    chk.violation("R06.3", EERQ, tag + ":crossing-sign", show(fx, 200), show(want_f, 200) + "  (normalised so that f(0) <= 0)", ctx.where(EERQ))
                elif all((isinstance(a, App) and a.fn in ("TFPR", "TFNR")) or a == X for a in atoms_of(fx) if isinstance(a, (App, Sym))):
                    chk.violation("R06.3", EERQ, tag + ":crossing", show(fx, 240), show(want_f, 240), ctx.where(EERQ))
                else:
                    # the crossing function does not go through the threshold setters the rule replaces by tokens (a private implementation
                    # bound some other way): its value cannot be compared in this vocabulary
                    chk.unknown("R06.3", "%s: crossing function is not expressed through threshold_at_fpr / threshold_at_fnr: %s" % (tag, show(fx, 160)))
    prerequisites(ctx, chk, tier)
    chk.floor("R06.1", 12, "non-zero return paths over 2 directions x easy/no-easy")
    chk.floor("R06.2", 4, "zero paths")
    find_root(ctx, chk)


def prerequisites(ctx, chk, tier):
    """The EER argument composes cm(), the FPR/FNR rates and their threshold setters: re-decide those obligations here."""
    from . import c01, c09, c02s
    from ..spec import cm_oracle
    c01.cm_cells_rule(ctx, chk)
    c09.inverse_maps(ctx, chk, metrics=("fpr", "fnr"))
    c02s.flip_parity(ctx, chk, metrics=("fpr", "fnr"))
    # eer() reads pos[0], pos[-1], neg[0], neg[-1] as extremes: the class invariant "pos/neg ascending" (R01.4) is a prerequisite
    c01.run_sortedness(ctx, chk, tier)
    c01.rates_from_cm(ctx, chk, metrics=("fnr", "fpr"))
    # no in-place write to the score arrays and no unsound memo in the functions eer() composes
    from . import c10
    c10.purity(ctx, chk, only=("Scores.eer", "Scores.threshold_at_fpr", "Scores.threshold_at_fnr", "Scores.fpr", "Scores.fnr", "Scores.cm"), strict=False)


def split_selected_returns(rets, hp, hn):
    """A return whose (threshold, eer) components are selections `ite(c, ., .)` on one condition is two paths (c true / c false);
    min(hp, hn) is resolved under the path condition.  (Merged `elif ...: return a, b` arms and a shared `max_eer` local.)"""
    import copy
    out = []

    def resolve(v, pc):
        lt = cmp0("lt", to_poly(sub(hp, hn)))
        k = pc_value(pc, lt)
        if k is None or not hasattr(v, "key"):
            return v
        mn = mk_app("min", [hp, hn])
        if isinstance(mn, App) and mn.fn == "min":
            return subst(v, {mn: hp if k else hn})
        return v

    def rec(o, depth=0):
        v = o.value
        if isinstance(v, Tup) and len(v.items) == 2 and depth < 3:
            conds = [x.args[0] for x in v.items if isinstance(x, App) and x.fn == "ite"]
            if conds:
                c = conds[0]
                for truth in (True, False):
                    o2 = copy.copy(o)
                    o2.pc = list(o.pc) + [(c, truth)]
                    o2.value = Tup([x.args[1 if truth else 2] if isinstance(x, App) and x.fn == "ite" and x.args[0] == c else x for x in v.items])
                    rec(o2, depth + 1)
                return
        if isinstance(v, Tup):
            o2 = copy.copy(o)
            o2.value = Tup([resolve(x, o.pc) for x in v.items])
            o2.pc = [(resolve(c, o.pc), t_) for c, t_ in o.pc]
            out.append(o2)
        else:
            out.append(o)
    for o in rets:
        rec(o)
    return out


def pc_value(pc, cond):
    """Truth value the path condition gives to `cond`, whichever polarity / spelling (a < b, not a >= b) the code tested."""
    n = negate(cond)
    for c, t in pc:
        if c.key == cond.key:
            return t
        if c.key == n.key:
            return not t
        if isinstance(c, App) and c.fn == "and" and t and any(x.key == cond.key for x in c.args):
            return True
        if isinstance(c, App) and c.fn == "or" and not t and any(x.key == cond.key for x in c.args):
            return False
    return None


def find_root(ctx, chk):
    f = Sym("f", ("callable", "param"))
    XA, XE = Sym("xa", ("float", "notnone")), Sym("xe", ("float", "notnone"))
    fn = ctx.fn(ROOTQ)
    # the bracket variables by ROLE: the second and third positional parameters (lower end, upper end), whatever they are called
    fi_ = ctx.db.function(ROOTQ)
    pn = [a.arg for a in fi_.node.args.posonlyargs + fi_.node.args.args if a.arg not in ("self", "cls")]
    if len(pn) < 4:
        chk.unknown("R06.4", "_find_root has %d positional parameters (function, lower, upper, flag expected)" % len(pn))
        return
    FN_, LO_, HI_, FLAG_ = pn[0], pn[1], pn[2], ("find_first" if "find_first" in pn else pn[3])
    for first in (True, False):
        outs = ctx.explore(lambda: ctx.ev.call(fn, [], {FN_: f, LO_: XA, HI_: XE, FLAG_: Const(first)}), chk)
        rets, rs = returns(outs), raises(outs)
        inst = "find_first=%s" % first
        fa, fe = App("call", (f, Tup([XA]))), App("call", (f, Tup([XE])))
        pre = None
        for o in rs:
            pre = o
        ok_pre = False
        if rs:
            conds = [c if t else negate(c) for o in rs for c, t in o.pc]
            want = [cmp0("lt", to_poly(neg(fa))), cmp0("lt", to_poly(fe))]  # f(xa) > 0  or  f(xe) < 0
            ok_pre = all(any(c == w or (isinstance(c, App) and c.fn == "or" and w in c.args) for c in conds) for w in want) or \
                any(isinstance(c, App) and c.fn == "or" and set(want) <= set(c.args) for c in conds)
        if ok_pre:
            chk.hold("R06.4", inst + ":precondition", "raises unless f(xa) <= 0 <= f(xe)")
        else:
            chk.violation("R06.4", ROOTQ, inst + ":precondition", "raise paths: %s" % [pc_text(o)[:120] for o in rs], "ValueError unless f(xa) <= 0 <= f(xe)", ctx.where(ROOTQ))
        seen = {}
        allok = True
        lo_slot, hi_slot = LO_, HI_
        for o in rets:
            its = [e for e in o.events if e["kind"] == "while_iter"]
            if not its:
                continue
            it = its[0]
            # the bracket ends by ROLE: the loop-carried slots (names, or fields of a loop-carried record) that are
            # initialised with the lower and the upper end
            def _slots(d):
                r = {}
                for n_, v_ in (d or {}).items():
                    if isinstance(v_, Obj) and getattr(v_, "nt_fields", None):
                        for f_ in v_.nt_fields:
                            r["%s.%s" % (n_, f_)] = v_.attrs.get(f_)
                    else:
                        r[n_] = v_
                return r
            s_init, s_pre, s_post = _slots(it.get("init")), _slots(it["pre"]), _slots(it["post"])
            lo_s = [k for k, v_ in s_init.items() if isinstance(v_, V) and same(v_, XA)]
            hi_s = [k for k, v_ in s_init.items() if isinstance(v_, V) and same(v_, XE)]
            if len(lo_s) == 1 and len(hi_s) == 1:
                lo_slot, hi_slot = lo_s[0], hi_s[0]
            a0, e0 = s_pre.get(lo_slot), s_pre.get(hi_slot)
            a1, e1 = s_post.get(lo_slot), s_post.get(hi_slot)
            if not all(isinstance(x_, V) for x_ in (a0, e0, a1, e1)):
                chk.unknown("R06.4", "loop variables of _find_root not recognised")
                continue
            xm = div(add(a0, e0), Const(2))
            fm = App("call", (f, Tup([xm])))
            neg_c, pos_c = cmp0("lt", to_poly(fm)), cmp0("lt", to_poly(neg(fm)))
            pcs = {c.key: t for c, t in o.pc}
            todo = []
            # the three sign cases of f(xm); each is applied by substitution, and skipped when the path condition contradicts it
            # (works whether the body forks on the sign, merges the arms into ite values, or mixes both)
            cases = (("f(xm)<0", True, False, (xm, e0)), ("f(xm)>0", False, True, (a0, xm)), ("f(xm)=0", False, False, (a0, xm) if first else (xm, e0)))
            for cname, is_neg, is_pos, want in cases:
                if pcs.get(neg_c.key, is_neg) != is_neg or pcs.get(pos_c.key, is_pos) != is_pos:
                    continue
                if pcs.get(negate(neg_c).key, not is_neg) != (not is_neg) or pcs.get(negate(pos_c).key, not is_pos) != (not is_pos):
                    continue
                mp = {neg_c: TRUE if is_neg else FALSE, negate(neg_c): FALSE if is_neg else TRUE,
                      pos_c: TRUE if is_pos else FALSE, negate(pos_c): FALSE if is_pos else TRUE}
                todo.append((cname, mp, want))
            other = [c for c, _t in o.pc if any(a_ == fm for a_ in atoms_of(c)) and c.key not in (neg_c.key, pos_c.key, negate(neg_c).key, negate(pos_c).key)]
            if other:
                chk.unknown("R06.4", "loop body of _find_root branches on something other than the sign of f(xm): %s" % pc_text(o)[:160])
                continue
            for cname, mp, want in todo:
                seen[cname] = True
                ga, ge = (subst(a1, mp), subst(e1, mp)) if mp else (a1, e1)
                if not (same(ga, want[0]) and same(ge, want[1])):
                    allok = False
                    chk.violation("R06.4", ROOTQ, "%s:%s" % (inst, cname), "(xa, xe) := (%s, %s)" % (show(ga, 80), show(ge, 80)),
                                  "(%s, %s)" % (show(want[0], 80), show(want[1], 80)), ctx.where(ROOTQ))
        if len(seen) < 3:
            chk.unknown("R06.4", "only cases %s of the bisection step were observed (%s)" % (sorted(seen), inst))
        elif allok:
            chk.hold("R06.4", inst + ":bisection", "f(xm)<0 moves xa, f(xm)>0 moves xe, f(xm)=0 moves %s" % ("xe (first root)" if first else "xa (last root)"))
        for o in rets:
            v = o.value
            fin = [a for a in atoms_of(v) if isinstance(a, Sym) and a.name.startswith("afterwhile:")]
            names = sorted(a.name.split("#")[0] for a in fin)
            if not isinstance(v, V):
                chk.unknown("R06.4", "%s: the result is not a value the evaluator models: %r" % (inst, v))
            elif isinstance(v, (Num, App, Sym)) and names == sorted(["afterwhile:" + lo_slot, "afterwhile:" + hi_slot]) and same(v, div(add(fin[0], fin[1]), Const(2))):
                chk.hold("R06.4", inst + ":result", "returns the midpoint of the final bracket")
            elif not (set(names) <= {"afterwhile:" + lo_slot, "afterwhile:" + hi_slot}):
                chk.unknown("R06.4", "%s: the result is built from loop state other than the bracket ends: %s" % (inst, show(v, 120)))
            else:
                chk.violation("R06.4", ROOTQ, inst + ":result", show(v, 120), "(xa + xe)/2 of the final bracket", ctx.where(ROOTQ))
    chk.floor("R06.4", 6, "precondition, bisection step, result x find_first in {True, False}")
