"""C15 — ROC curves are genuine operating points, ordered along the chosen x-axis (DESIGN §4 C15)."""
from __future__ import annotations

from ..evalr import Obj
from ..numeval import CannotEvaluate
from ..spec import GAMMAS, SCORES, POS, NEG, returns, raises, unmodelled_text, pc_text
from ..terms import App, Const, Num, Sym, Tup, same, show, sub, add, atoms_of, is_const, const_of, to_poly
from .thr import rate_term
from .c02s import direction

LEVEL = "other"
ROCQ = "score_analysis.roc_curve.roc"
FST = "score_analysis.roc_curve._find_support_thresholds"
CURVE = "score_analysis.roc_curve.ROCCurve"
F = Sym("f_in", ("param", "array", "notnone", "arraylike"))
P = Sym("p_in", ("param", "array", "notnone", "arraylike"))
TH = Sym("t_in", ("param", "array", "notnone", "arraylike"))
NB = Sym("nb", ("int", "notnone"))
AXES = {"fnr": "fnr", "fpr": "fpr", "tnr": "tnr", "tpr": "tpr", "far": "fpr", "frr": "fnr", "tar": "tpr", "trr": "tnr"}
REV = App("slice", (Const(None), Const(None), Const(-1)))
NAMES = ("fnr", "fpr", "threshold_at_fnr", "threshold_at_fpr")


def with_stubs(ctx, fn):
    ev = ctx.ev

    def mk(nm):
        def h(ev_, fi, bound):
            arg = [v for k, v in bound.items() if k not in ("self", "method")][0]
            return App(nm, (arg,))
        return h
    for nm in NAMES:
        ev.stubs[SCORES + "." + nm] = mk(nm.upper())
    try:
        return fn()
    finally:
        for nm in NAMES:
            ev.stubs.pop(SCORES + "." + nm, None)


def peel(x):
    """(number of reversals, sorted?, inner) of a threshold term."""
    rev = 0
    while isinstance(x, App) and x.fn == "getitem" and x.args[1] == REV:
        rev += 1
        x = x.args[0]
    srt = False
    if isinstance(x, App) and x.fn == "sort":
        srt = True
        x = x.args[0]
    return rev, srt, x


def support_args_untouched(ctx, chk, rule="R15.6", with_extra=False):
    """The support-point helper only reads the caller's fnr / fpr / thresholds (lists and tuples are documented inputs; arrays must not be
    re-ordered behind the caller's back): no in-place operation reaches their storage, with or without extra points."""
    ev = ctx.ev
    f = ctx.fn(FST)
    NE = Sym("nb_extra", ("int", "notnone"))
    n = 0
    for kw in ({"thresholds": TH}, {"fnr": F}, {"fpr": P}, {"fnr": F, "fpr": P, "thresholds": TH}):
        for extra in ((Const(None), NE) if with_extra else (Const(None),)):
            args = {"fnr": Const(None), "fpr": Const(None), "thresholds": Const(None), "nb_points": NB, "nb_extra_points": extra, "x_axis": Const("fnr")}
            args.update(kw)
            ev.mark_conversions = True
            try:
                outs = with_stubs(ctx, lambda: ctx.explore(lambda: ev.call(f, [ctx.scores_obj("pos", "pos")], dict(args)), chk))
            finally:
                ev.mark_conversions = False
            for o in returns(outs):
                n += 1
                bad = [e for e in o.events if e["kind"] in ("inplace", "augstore", "store") and e.get("root") in (TH, F, P)]
                raw = [e for e in o.events if e["kind"] == "raw_sequence_use"]
                if raw and not bad:
                    e = raw[0]
                    chk.violation(rule, FST, "args-as-sequences:%s:extra=%s" % ("+".join(sorted(kw)), "no" if extra == Const(None) else "yes"),
                                  "ndarray-only use %s of the supplied %s before any conversion" % (e["what"], show(e["value"], 30)),
                                  "supplied fnr / fpr / thresholds may be lists or tuples: they are only indexed, measured with len() or passed to numpy functions",
                                  "score_analysis/roc_curve.py:%s" % getattr(e.get("node"), "lineno", "?"))
                    continue
                inst = "args-untouched:%s:extra=%s:path[%s]" % ("+".join(sorted(kw)), "no" if extra == Const(None) else "yes", "".join("T" if t else "F" for _c, t in o.pc))
                if bad:
                    e = bad[0]
                    chk.violation(rule, FST, "args-untouched:%s:extra=%s" % ("+".join(sorted(kw)), "no" if extra == Const(None) else "yes"),
                                  "%s of %s (storage of %s)" % (e.get("how", e["kind"]), e.get("target", "?"), show(e["root"], 40)),
                                  "supplied fnr / fpr / thresholds are only read", "score_analysis/roc_curve.py:%s" % getattr(e.get("node"), "lineno", "?"))
                else:
                    chk.hold(rule, inst, "no in-place write reaches the caller's arrays")
    if n < (8 if with_extra else 4):
        chk.unknown(rule, "only %d paths of the support-point helper analysed" % n)


def _supplied_path(ctx, chk, kw, inst, r):
        X = r.attrs.get("thresholds")
        if same(r.attrs.get("fnr"), App("FNR", (X,))) and same(r.attrs.get("fpr"), App("FPR", (X,))):
            chk.hold("R15.1", inst, "fnr = scores.fnr(thresholds), fpr = scores.fpr(thresholds) on the returned array")
        else:
            chk.violation("R15.1", ROCQ, inst + ":rates", "fnr=%s fpr=%s" % (show(r.attrs.get("fnr"), 100), show(r.attrs.get("fpr"), 100)), "rates evaluated at the returned thresholds", ctx.where(ROCQ))
        rev, srt, inner = peel(X)
        parts = list(inner.args) if isinstance(inner, App) and inner.fn == "concat" else [inner]
        want = []
        if "thresholds" in kw:
            want.append(TH)
        if "fnr" in kw:
            want.append(App("THRESHOLD_AT_FNR", (F,)))
        if "fpr" in kw:
            want.append(App("THRESHOLD_AT_FPR", (P,)))
        missing = [w for w in want if w not in parts]
        extra = [p_ for p_ in parts if p_ not in want]
        understood = all(isinstance(p_, (Sym, App)) for p_ in parts) and not any(isinstance(a, App) and a.fn.startswith("ext:") for a in atoms_of(X))
        if not missing and not extra:
            chk.hold("R15.2", inst, "thresholds = %s of exactly the supplied thresholds and setter(supplied rates)" % ("sorted concat" if srt else "concat"))
        elif missing and understood:
            chk.violation("R15.2", FST, inst + ":containment", "thresholds built from %s" % [show(p_, 60) for p_ in parts], "contains %s" % [show(w, 60) for w in want], ctx.where(FST))
        elif missing:
            chk.unknown("R15.2", "roc(%s): threshold construction not understood: %s" % (inst, show(X, 160)))
        else:
            chk.violation("R15.2", FST, inst + ":extra-points", [show(p_, 60) for p_ in extra], "only the supplied points when any are supplied", ctx.where(FST))


def curve_owns_arrays(ctx, chk, rule="R15.10", fns=(ROCQ,)):
    """The returned curve's arrays are computed, not the caller's own buffers: a ROCCurve attribute that may alias a supplied
    fnr / fpr / thresholds array changes when the caller re-uses that array, and its rates then no longer belong to its thresholds."""
    from ..alias import construction_aliases, register_helpers
    n = 0
    import ast as _ast
    # results of the package's own module-level helpers may hand an argument back (a support-point helper that returns the caller's threshold
    # array unsorted and uncopied): one call level is followed
    register_helpers([(f.name, f.node) for m in ctx.db.modules.values() for f in m.functions.values()])
    for q in fns:
        fi = ctx.db.function(q)
        sites = [(q, fi, call, slots) for call, slots in construction_aliases(fi.node, {"ROCCurve", "cls"})]
        if not sites:
            # the curve is built by a helper / alternative constructor the function calls (ROCCurve.from_scores(...), _make_curve(...)):
            # one call level down; what the helper's curve shares with the HELPER's parameters is mapped back through the arguments
            # the function passes (an array the function computed itself aliases none of its own arguments)
            called = {n.func.attr if isinstance(n.func, _ast.Attribute) else getattr(n.func, "id", None) for n in _ast.walk(fi.node) if isinstance(n, _ast.Call)}
            for g in ctx.db.all_functions():
                if g is fi or g.module is not fi.module or g.name not in called:
                    continue
                inner = construction_aliases(g.node, {"ROCCurve", "cls"})
                if not inner:
                    continue
                gparams = [a.arg for a in g.node.args.posonlyargs + g.node.args.args if a.arg not in ("self", "cls")]
                for ccall, cslots in construction_aliases(fi.node, {g.name}):
                    actual = {}
                    for k, al in cslots.items():
                        if k.startswith("arg") and k[3:].isdigit():
                            if int(k[3:]) < len(gparams):
                                actual[gparams[int(k[3:])]] = al
                        else:
                            actual[k] = al
                    for call, slots in inner:
                        mapped = {k: set().union(*[actual.get(p_, set()) for p_ in al]) if al else set() for k, al in slots.items()}
                        sites.append((q, fi, ccall, mapped))
        for q_, fi_, call, slots in sites:
            for k, al in sorted(slots.items()):
                n += 1
                inst = "%s:ROCCurve.%s" % (q_.split(".")[-1], k)
                if al:
                    chk.violation(rule, q_, inst + ":aliases-" + "-".join(sorted(al)), "ROCCurve(%s=...) may share storage with the caller's `%s` (no-copy conversion / view)" % (k, ", ".join(sorted(al))),
                                  "freshly computed arrays", "%s:%d" % (fi_.module.relpath, call.lineno))
                else:
                    chk.hold(rule, inst, "aliases no argument", nontrivial=False)
    if n == 0:
        chk.unknown(rule, "no ROCCurve construction found in %s" % ", ".join(fns))


def run(ctx, chk, tier):
    chk.rule_text = ("obligations: curve consistency and containment for 8 supply combinations, reversal parity for 8 x-axes x 4 configurations, point counts, 12 derived views; "
                     "non-trivial = obligation mentions derived threshold terms")
    chk.explanation = ("roc() is explored with the Scores API stubbed. The returned thresholds are a sorted (and possibly reversed) concatenation: every supplied threshold and the "
                       "threshold setter applied to every supplied FNR/FPR array must be a part of it (multiset-preserving operators only), and FNR/FPR are the object's rates at "
                       "exactly that array. The number of reversals after the ascending sort must equal, modulo 2, whether the x-axis metric decreases with the threshold under the "
                       "configuration (direction derived from cm() through the object's own rate term). Default supports have nb_points//2 + (nb_points - nb_points//2) points, or "
                       "one per scored sample.")
    chk.trusted |= {"numpy.sort / concatenate / [::-1] preserve the multiset", "numpy.linspace(a, b, n) has n points", "C01/C04 for the direction of each rate"}
    ev = ctx.ev
    roc = ctx.fn(ROCQ)
    combos = [{"fnr": F}, {"fpr": P}, {"thresholds": TH}, {"fnr": F, "fpr": P}, {"fnr": F, "thresholds": TH}, {"fpr": P, "thresholds": TH}, {"fnr": F, "fpr": P, "thresholds": TH}]
    for kw in combos:
        outs = with_stubs(ctx, lambda: ctx.explore(lambda: ev.call(roc, [ctx.scores_obj("pos", "pos")], dict(kw, x_axis=Const("fnr"))), chk))
        inst = "+".join(sorted(kw))
        rets = [o for o in returns(outs) if not any(t and isinstance(c, App) and c.fn == "eq0" for c, t in o.pc)]  # the branch where the supplied arrays are non-empty
        if not rets or any(o.unmodelled or not isinstance(o.value, Obj) for o in rets):
            chk.unknown("R15.1", "roc(%s): %d relevant return paths" % (inst, len(rets)))
            continue
        base_inst = inst
        for o_ in rets:
            # every path that is feasible with non-empty supplied arrays must satisfy the clauses
            inst = base_inst if len(rets) == 1 else "%s:path[%s]" % (base_inst, pc_text(o_)[:80])
            r = o_.value
            _supplied_path(ctx, chk, kw, inst, r)
    support_args_untouched(ctx, chk)
    curve_owns_arrays(ctx, chk)
    # ---------------- R15.4 point counts
    for kw, label in (({"nb_points": NB}, "nb_points"), ({"nb_points": Const(None)}, "all-scores")):
        outs = with_stubs(ctx, lambda: ctx.explore(lambda: ev.call(roc, [ctx.scores_obj("pos", "pos")], dict(kw, x_axis=Const("fnr"))), chk))
        rets = returns(outs)
        if len(rets) != 1 or not isinstance(rets[0].value, Obj):
            chk.unknown("R15.4", "roc(%s): %d return paths" % (label, len(rets)))
            continue
        rev, srt, inner = peel(rets[0].value.attrs.get("thresholds"))
        parts = list(inner.args) if isinstance(inner, App) and inner.fn == "concat" else [inner]
        if label == "nb_points":
            ns = []
            for p_ in parts:
                if isinstance(p_, App) and p_.fn.startswith("THRESHOLD_AT_") and isinstance(p_.args[0], App) and p_.args[0].fn == "linspace":
                    ls = p_.args[0]
                    ok_range = ls.args[0] == Const(0) and ls.args[1] == Const(1) and ls.kwd("endpoint") in (None, Const(True))
                    ns.append((p_.fn, ls.args[2] if len(ls.args) > 2 else ls.kwd("num"), ok_range))
            tot = Const(0)
            for _f, n_, _ok in ns:
                tot = add(tot, n_)
            kinds = sorted(f for f, _n, _ok in ns)
            tot_ok = same(tot, NB)
            if not tot_ok:
                # integer identities such as n//2 + (n + 1)//2 = n: a sum of floor-divisions (by positive constants) of linear terms in n is
                # linear on every residue class modulo the lcm L of the divisors, so agreement on [0, 2L + 1] is agreement for all n >= 0
                import math as _math
                from ..numeval import evaluate as _evaluate, CannotEvaluate as _CannotEvaluate
                from fractions import Fraction as _Fraction
                fds = [a_ for a_ in [tot] + list(atoms_of(tot)) if isinstance(a_, App) and a_.fn == "floordiv"]
                lin = all(len(a_.args) == 2 and isinstance(a_.args[1], Const) and isinstance(a_.args[1].value, int) and a_.args[1].value > 0
                          and to_poly(a_.args[0]) is not None and all(sum(e_ for _a, e_ in m_) <= 1 for m_ in to_poly(a_.args[0]).t) and set(atoms_of(a_.args[0])) <= {NB} for a_ in fds)
                others = [a_ for a_ in atoms_of(tot) if a_ != NB and not (isinstance(a_, App) and a_.fn == "floordiv") and not any(a_ in atoms_of(f_) for f_ in fds)]
                if fds and lin and not others:
                    L = 1
                    for a_ in fds:
                        L = L * a_.args[1].value // _math.gcd(L, a_.args[1].value)
                    try:
                        tot_ok = all(_evaluate(tot, {NB: _Fraction(n_)}) == n_ for n_ in range(0, 2 * L + 2))
                    except _CannotEvaluate:
                        tot_ok = False
            if len(ns) == len(parts) == 2 and tot_ok and kinds == ["THRESHOLD_AT_FNR", "THRESHOLD_AT_FPR"] and all(ok for _f, _n, ok in ns):
                chk.hold("R15.4", "nb_points", "nb_points//2 thresholds along FNR + the rest along FPR = nb_points points (linspace 0..1 inclusive)")
            else:
                chk.violation("R15.4", FST, "nb_points", [show(p_, 100) for p_ in parts], "linspace(0,1,n1) along FNR and linspace(0,1,n2) along FPR with n1 + n2 = nb_points", ctx.where(FST))
        else:
            keys = sorted(p_.key for p_ in parts)
            if keys == sorted([POS.key, NEG.key]):
                chk.hold("R15.4", "all-scores", "one threshold per scored sample: concat(pos, neg)")
            else:
                chk.violation("R15.4", FST, "all-scores", [show(p_, 80) for p_ in parts], "concatenate([scores.pos, scores.neg]) (one point per scored sample, ties kept)", ctx.where(FST))
    # ---------------- R15.3 reversal parity
    for axis, metric in AXES.items():
        for sc, ec in GAMMAS:
            outs = with_stubs(ctx, lambda: ctx.explore(lambda: ev.call(roc, [ctx.scores_obj(sc, ec)], {"thresholds": TH, "x_axis": Const(axis)}), chk))
            rets = [o for o in returns(outs) if not any(t and isinstance(c, App) and c.fn == "eq0" for c, t in o.pc)]
            inst = "%s:%s/%s" % (axis, sc, ec)
            if len(rets) != 1 or not isinstance(rets[0].value, Obj):
                chk.unknown("R15.3", "roc(x_axis=%s) %s/%s: %d return paths" % (axis, sc, ec, len(rets)))
                continue
            rev, srt, inner = peel(rets[0].value.attrs.get("thresholds"))
            rate = rate_term(ctx, chk, metric, sc, ec)
            try:
                d = direction(rate)
            except (CannotEvaluate, TypeError) as e:
                chk.unknown("R15.3", "direction of %s under %s/%s: %s" % (metric, sc, ec, e))
                continue
            need = 0 if d > 0 else 1
            if not srt:
                chk.violation("R15.3", FST, inst + ":sorted", show(rets[0].value.attrs.get("thresholds"), 120), "thresholds sorted before orientation", ctx.where(FST))
            elif rev % 2 == need:
                chk.hold("R15.3", inst, "%s %s with the threshold: %d reversal(s) after the ascending sort" % (metric, "increases" if d > 0 else "decreases", rev))
            else:
                chk.violation("R15.3", FST, inst + ":orientation", "%d reversal(s) after the ascending sort" % rev,
                              "%s number of reversals (%s %s with the threshold under %s/%s)" % ("even" if need == 0 else "odd", metric, "increases" if d > 0 else "decreases", sc, ec), ctx.where(FST))
    # unknown axis raises
    outs = with_stubs(ctx, lambda: ctx.explore(lambda: ev.call(roc, [ctx.scores_obj("pos", "pos")], {"thresholds": TH, "x_axis": Const("bogus")}), chk))
    if returns(outs):
        chk.violation("R15.3", FST, "unknown-axis", "returns a curve", "ValueError for an unknown x_axis", ctx.where(FST))
    chk.floor("R15.3", 32, "8 x-axis names x 4 configurations")
    # ---------------- R15.5 derived views
    ci = ctx.db.cls(CURVE)
    fn_, fp_, fci, pci = (Sym(n, ("attr", "array", "notnone")) for n in ("FNRv", "FPRv", "FNRci", "FPRci"))
    last_rev = Tup([Const(Ellipsis), REV])

    def view(name, with_ci=True):
        def thunk():
            o = Obj(ci)
            o.attrs.update(fnr=fn_, fpr=fp_, thresholds=Sym("THRv"), fnr_ci=fci if with_ci else Const(None), fpr_ci=pci if with_ci else Const(None))
            return ev.getattr(o, name)
        return returns(ctx.explore(thunk, chk))
    one = Const(1)
    mirror = lambda c: sub(one, App("getitem", (c, last_rev)))  # noqa: E731
    expect = {"tpr": sub(one, fn_), "tnr": sub(one, fp_), "frr": fn_, "far": fp_, "tar": sub(one, fn_), "trr": sub(one, fp_),
              "tpr_ci": mirror(fci), "tnr_ci": mirror(pci), "frr_ci": fci, "far_ci": pci, "tar_ci": mirror(fci), "trr_ci": mirror(pci)}
    for name, want in expect.items():
        r = view(name)
        got = r[0].value if len(r) == 1 else None
        g2 = got
        while isinstance(g2, App) and g2.fn == "fresh":
            g2 = g2.args[0]
        if g2 is not None and same(g2, want):
            chk.hold("R15.5", name, "%s = %s" % (name, show(want, 80)))
        else:
            chk.violation("R15.5", CURVE + "." + name, "view", show(got, 120) if got is not None else "%d paths" % len(r), show(want, 120), CURVE)
        if name.endswith("_ci"):
            r0 = view(name, with_ci=False)
            if not (len(r0) == 1 and r0[0].value == Const(None)):
                chk.violation("R15.5", CURVE + "." + name, "none-when-no-ci", [show(x.value, 40) for x in r0], "None", CURVE)
    chk.floor("R15.5", 12, "12 derived views")
    # prerequisite: the setters and roc() do not modify the supplied arrays (the same array may be passed as fnr and fpr)
    from . import c10
    c10.purity(ctx, chk, only=("Scores.threshold_at_fnr", "Scores.threshold_at_fpr", "roc_curve.roc", "Scores.fnr", "Scores.fpr"))
    from . import c01
    c01.rates_from_cm(ctx, chk, metrics=("fnr", "fpr"))
