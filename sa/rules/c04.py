"""C04 — binary metric algebra, NaN rule, normal-approximation CIs (DESIGN §4 C04)."""
from __future__ import annotations

from ..evalr import Obj
import ast

from ..spec import CM, cell, returns, raises, unmodelled_text, pc_text
from ..terms import (App, Const, Num, Sym, Tup, NAN, add, sub, mul, div, neg, same, show, to_poly, mk_num, Poly, subst,
                     atoms_of, cmp0, negate)
from ..simp import mk_app, norm_fn

LEVEL = "proof"
MET = "score_analysis.metrics."
M = Sym("M", ("param", "array", "notnone", "intcount"))
A = Sym("alpha", ("param_scalar", "float", "notnone"))


def cells(ev, m=M):
    return {n: cell(ev, m, ij) for n, ij in (("tp", (0, 0)), ("fn", (0, 1)), ("fp", (1, 0)), ("tn", (1, 1)))}


def binary_identities(ev, m=M):
    """Reductions of whole-matrix reductions to the four cells for shape (..., 2, 2)."""
    c = cells(ev, m)
    tot = add(add(c["tp"], c["fn"]), add(c["fp"], c["tn"]))
    trace = add(c["tp"], c["tn"])
    out = {}
    for ax in (Tup([Const(-1), Const(-2)]), Tup([Const(-2), Const(-1)])):
        out[App("sum", (m,), [("axis", ax)])] = tot
    for a1, a2 in ((-1, -2), (-2, -1)):
        d = App("diagonal", (m,), [("axis1", Const(a1)), ("axis2", Const(a2))])
        out[App("sum", (d,), [("axis", Const(-1))])] = trace
    return out


def as_rate(term):
    """Decompose  a + b*gdiv(N, D, nan, D != 0)  with (a,b) in {(0,1),(1,-1)} into (num, den) or a reason string."""
    p = to_poly(term)
    if p is None:
        return "not numeric"
    g = [a for a in p.atoms() if isinstance(a, App) and a.fn == "gdiv"]
    if len(g) != 1:
        return "expected exactly one guarded division, found %d" % len(g)
    g = g[0]
    num, den, fill, guard = g.args
    coef = p.t.get(((g, 1),))
    const = p.const_value()
    rest = {m: c for m, c in p.t.items() if m not in ((), ((g, 1),))}
    if rest or coef is None:
        return "not an affine function of one quotient"
    if fill != NAN:
        return "fill value of the guarded division is %s, expected NaN" % show(fill)
    want_guard = cmp0("ne", to_poly(den))
    if guard != want_guard:
        return "guard %s is not `denominator != 0` (%s)" % (show(guard), show(want_guard))
    if (const, coef) == (0, 1):
        return (num, den)
    if (const, coef) == (1, -1):
        return (sub(den, num), den)
    return "quotient enters as %s + %s*q" % (const, coef)


# name -> (numerator cells, denominator cells)
RATES = {
    "tpr": (("tp",), ("tp", "fn")), "fnr": (("fn",), ("tp", "fn")),
    "tnr": (("tn",), ("fp", "tn")), "fpr": (("fp",), ("fp", "tn")),
    "topr": (("tp", "fp"), ("tp", "fn", "fp", "tn")), "tonr": (("fn", "tn"), ("tp", "fn", "fp", "tn")),
    "ppv": (("tp",), ("tp", "fp")), "fdr": (("fp",), ("tp", "fp")),
    "npv": (("tn",), ("fn", "tn")), "for_": (("fn",), ("fn", "tn")),
    "accuracy": (("tp", "tn"), ("tp", "fn", "fp", "tn")), "error_rate": (("fn", "fp"), ("tp", "fn", "fp", "tn")),
}
COUNTS = {"tp": ("tp",), "fn": ("fn",), "fp": ("fp",), "tn": ("tn",), "p": ("tp", "fn"), "n": ("fp", "tn"),
          "top": ("tp", "fp"), "ton": ("fn", "tn"), "pop": ("tp", "fn", "fp", "tn")}
ALIASES = {"tar": "tpr", "frr": "fnr", "trr": "tnr", "far": "fpr", "acceptance_rate": "topr", "rejection_rate": "tonr",
           "tar_ci": "tpr_ci", "frr_ci": "fnr_ci", "trr_ci": "tnr_ci", "far_ci": "fpr_ci"}
CIS = {"tpr_ci": "tpr", "tnr_ci": "tnr", "fpr_ci": "fpr", "fnr_ci": "fnr"}
COMPLEMENTS = [("tpr", "fnr"), ("tnr", "fpr"), ("ppv", "fdr"), ("npv", "for_"), ("topr", "tonr"), ("accuracy", "error_rate")]
CM_METHODS = {**{n: n for n in list(COUNTS) + list(RATES) + list(ALIASES) + list(CIS)},
              "class_accuracy": "accuracy", "class_error_rate": "error_rate"}


def csum(c, names):
    tot = Const(0)
    for n in names:
        tot = add(tot, c[n])
    return tot


def eval_fn(ctx, chk, q, args, kwargs=None):
    outs = ctx.explore(lambda: ctx.ev.call(ctx.fn(q), list(args), dict(kwargs or {})), chk)
    rets = returns(outs)
    int_products(ctx, chk, q, outs)
    # scipy's loc/scale form is NaN for scale == 0: with the standard error as scale, a class rate of exactly 0 or 1 (a perfectly legitimate
    # matrix) gets a NaN interval although the rate is defined - the shipped formula is centre -+ z * std, which is [p, p] there
    for o_ in outs:
        for e_ in o_.events:
            if e_["kind"] == "norm_scale" and q.endswith(("binomial_ci",)) and ("norm_scale", q) not in _INT_SEEN.setdefault(id(chk), set()):
                _INT_SEEN[id(chk)].add(("norm_scale", q))
                chk.violation("R04.4", q, "scale-zero", "scipy.stats.norm.%s(..., scale=%s): NaN whenever the scale is 0" % (e_["fn"], show(e_["scale"], 80)),
                              "NaN exactly when the rate is NaN: a rate of 0 or 1 has standard error 0 and the interval [p, p]", ctx.where(q))
    # argument validation that refuses only alphas outside the documented open interval (0, 1) is not a path of the property
    rs = [o for o in raises(outs) if not (o.pc and alpha_region_meets_unit(o.pc) is False)]
    if len(rets) != 1 or rs:
        return None, "%d return / %d raise paths" % (len(rets), len(rs))
    if rets[0].unmodelled:
        return None, "unmodelled: " + unmodelled_text(rets[0])
    return rets[0].value, None


_INT_SEEN = {}


def int_products(ctx, chk, q, outs):
    """R04.7: count arrays arrive in the caller's fixed-width integer dtype (confusion matrices are integer arrays); a product or power of
    degree >= 3 in the counts evaluated BEFORE the conversion to float (true division) wraps around once a count exceeds 2**21 (~2.1e6).
    The shipped formulas divide first (p = count / nobs) and multiply floats."""
    seen = _INT_SEEN.setdefault(id(chk), set())
    evs = [e for o in outs for e in o.events if e["kind"] == "int_product"]
    for e in evs:
        key = (q, e["text"])
        if key in seen:
            continue
        seen.add(key)
        node = e.get("node")
        home = next((f for f in ctx.db.all_functions() if any(n is node for n in ast.walk(f.node))), None)
        where = "%s:%s" % (home.module.relpath, node.lineno) if home is not None else ctx.where(q)
        chk.violation("R04.7", home.qualname if home is not None else q, "int-product:" + e["text"][:60], "`%s` is a degree-%d product of caller counts evaluated in their integer dtype" % (e["text"][:80], e["degree"]),
                      "counts are converted to float (true division) before products of degree >= 3 (int64 wraps at 2**21 per factor of a cube)",
                      where)
    if not evs and (q, None) not in seen:
        seen.add((q, None))
        chk.hold("R04.7", q.split(".")[-1], "no product of degree >= 3 in the counts is evaluated in integer dtype", nontrivial=False)


def alpha_region_meets_unit(pc):
    """Do the path conditions (comparisons of alpha with constants, combined by and / or / not) admit an alpha in the open interval (0, 1)?
    The conditions are piecewise constant between the constants they mention: they are evaluated exactly at every such breakpoint inside
    (0, 1) and at one point of every gap between consecutive breakpoints.  True / False / None (a condition outside that vocabulary)."""
    from fractions import Fraction
    from ..numeval import evaluate, CannotEvaluate
    pts = {Fraction(0), Fraction(1)}
    for c, _t in pc:
        for a_ in [c] + list(atoms_of(c)):
            if isinstance(a_, App) and a_.fn in ("lt0", "le0", "eq0", "ne0") and a_.args:
                p_ = to_poly(a_.args[0])
                if p_ is None or any(m != () and not (len(m) == 1 and m[0] == (A, 1)) for m in p_.t):
                    return None
                k_, b_ = Fraction(p_.t.get(((A, 1),), 0)), Fraction(p_.t.get((), 0))
                if k_ != 0:
                    pts.add(-b_ / k_)
            elif isinstance(a_, Sym) and a_ != A:
                return None
    inner = sorted(x for x in pts if 0 <= x <= 1)
    samples = [x for x in inner if 0 < x < 1] + [(x + y) / 2 for x, y in zip(inner, inner[1:])]
    try:
        for x in samples:
            if all(bool(evaluate(c, {A: x})) == t for c, t in pc):
                return True
    except CannotEvaluate:
        return None
    return False


def devalue(v):
    """Replace guarded quotients by plain quotients; return (value, NaN-locus descriptors, problems)."""
    loci, problems = set(), []

    def zero_set(den):
        p = to_poly(den)
        sm = p.single_monomial()
        if sm is not None:
            return "{" + ",".join(sorted(a.key for a, _e in sm[0])) + "}=0"
        return mk_num(p).key + "=0"

    def rec(t):
        if isinstance(t, App) and t.fn == "gdiv":
            num, den, fill, guard = [rec(x) for x in t.args]
            if fill != NAN:
                problems.append("fill %s is not NaN" % show(fill))
            gz = zero_set(guard.args[0]) if isinstance(guard, App) and guard.fn == "ne0" else None
            if gz != zero_set(den):
                problems.append("guard %s is not `divisor != 0` for divisor %s" % (show(guard, 80), show(den, 80)))
            loci.add(zero_set(den))
            return div(num, den)
        if isinstance(t, Num):
            mp = {}
            for a in t.poly.atoms():
                na = rec(a)
                if na != a:
                    mp[a] = to_poly(na)
            return mk_num(t.poly.subst(mp)) if mp else t
        if isinstance(t, App):
            return mk_app(t.fn, [rec(a) for a in t.args], [(k, rec(a)) for k, a in t.kw])
        if isinstance(t, Tup):
            return Tup([rec(a) for a in t.items])
        return t

    return rec(v), loci, problems


def binomial_spec(count, nobs, alpha):
    g = cmp0("ne", to_poly(nobs))
    p = mk_app("gdiv", [count, nobs, NAN, g])
    var = mk_app("gdiv", [mul(p, sub(Const(1), p)), nobs, NAN, g])
    dist = mul(norm_fn("isf", div(alpha, Const(2))), mk_app("sqrt", [var]))
    return App("stack", (Tup([sub(p, dist), add(p, dist)]),), [("axis", Const(-1))])


def run(ctx, chk, tier):
    ev = ctx.ev
    own = chk.pid == "C04"    # as a prerequisite of C18 the host's own rule text, explanation and assumptions stay
    saved = (getattr(chk, "rule_text", ""), getattr(chk, "explanation", ""), list(getattr(chk, "assumptions", []) or []))
    chk.rule_text = ("one obligation per metric function / alias / ConfusionMatrix method: its value term (straight-line code, symbolic matrix) "
                     "against the tabled definition; non-trivial = term mentions at least one matrix cell")
    chk.explanation = ("Every function of metrics.py and utils.binomial_ci is straight-line; global value numbering gives each a closed term over the "
                       "four cells. Rates must be (1 -) guarded quotients whose guard is `den != 0` on the divisor itself with NaN fill; numerators and "
                       "denominators are compared with the definition table in polynomial normal form; complement/range/NaN-locus identities are then "
                       "derived from the (num, den) pairs; the CI term is compared with p -+ isf(alpha/2)*sqrt(p(1-p)/n).")
    chk.trusted |= {"numpy.divide(out=full_like(nan), where=) is a guarded quotient", "basic indexing M[...,i,j]", "scipy.stats.norm.isf monotone decreasing",
                    "sum over axes (-1,-2) of a (...,2,2) array is the sum of its four cells; trace likewise"}
    chk.assumptions = ["matrix entries are non-negative", "dtype/overflow effects (int64 wrap in products) are outside the model"]
    if not own:
        chk.rule_text, chk.explanation, chk.assumptions = saved
    c = cells(ev)
    ident = binary_identities(ev)

    def norm(v):
        return subst(v, ident)

    # ---- R04.1 counts
    for name, cs in COUNTS.items():
        v, err = eval_fn(ctx, chk, MET + name, [M])
        if v is None:
            chk.unknown("R04.1", "metrics.%s: %s" % (name, err))
            continue
        v = norm(v)
        exp = csum(c, cs)
        if same(v, exp):
            chk.hold("R04.1", name, "%s(M) = %s" % (name, show(v)))
        else:
            chk.violation("R04.1", MET + name, "definition", show(v), show(exp), ctx.where(MET + name))
    # ---- R04.2 rates
    derived = {}
    for name, (ncs, dcs) in RATES.items():
        v, err = eval_fn(ctx, chk, MET + name, [M])
        if v is None:
            chk.unknown("R04.2", "metrics.%s: %s" % (name, err))
            continue
        r = as_rate(v)
        if isinstance(r, str):
            bad = [a for a in atoms_of(v) if isinstance(a, App) and a.fn.startswith("ext:")]
            if bad:
                chk.unknown("R04.2", "metrics.%s uses constructs outside the model (%s): %s" % (name, show(bad[0], 80), r))
            else:
                chk.violation("R04.2", MET + name, "guarded-quotient-form", "%s  [%s]" % (show(v, 300), r),
                              "(1 -) num/den with NaN where den == 0 and guard `den != 0` on the divisor", ctx.where(MET + name))
            continue
        num, den = norm(r[0]), norm(r[1])
        derived[name] = (num, den)
        en, ed = csum(c, ncs), csum(c, dcs)
        if same(num, en) and same(den, ed):
            chk.hold("R04.2", name, "%s = (%s) / (%s), NaN iff denominator == 0" % (name, show(num), show(den)))
        else:
            chk.violation("R04.2", MET + name, "num/den", "(%s) / (%s)" % (show(num), show(den)), "(%s) / (%s)" % (show(en), show(ed)), ctx.where(MET + name))
    chk.floor("R04.2", 12, "12 rates")
    # ---- R04.3 derived identities
    for a, b in COMPLEMENTS:
        if a in derived and b in derived:
            (na, da), (nb, db) = derived[a], derived[b]
            if same(da, db) and same(add(na, nb), da):
                chk.hold("R04.3", "%s+%s=1" % (a, b), "num_%s + num_%s = den = %s" % (a, b, show(da)))
            else:
                chk.violation("R04.3", MET + a, "complement:" + b, "nums %s, %s dens %s, %s" % (show(na), show(nb), show(da), show(db)),
                              "equal denominators and numerators summing to it", ctx.where(MET + a))
    for name, (num, den) in derived.items():
        pn, pd = to_poly(num), to_poly(den)
        ok = all(co > 0 for co in pn.t.values()) and all(co > 0 for co in pd.t.values()) and all(
            pd.t.get(m, 0) >= co for m, co in pn.t.items()) and all(len(m) == 1 and m[0][1] == 1 for m in list(pn.t) + list(pd.t))
        if ok:
            chk.hold("R04.3", "range:" + name, "numerator cells are a sub-sum of the denominator cells => [0,1]")
        else:
            chk.violation("R04.3", MET + name, "range", "(%s)/(%s)" % (show(num), show(den)), "numerator a sub-sum of the denominator", ctx.where(MET + name))
    # ---- R04.4 binomial_ci and the interval wrappers
    Cn, Nn = Sym("count", ("param", "array", "notnone", "intcount")), Sym("nobs", ("param", "array", "notnone", "intcount"))
    q = "score_analysis.utils.binomial_ci"
    v, err = eval_fn(ctx, chk, q, [Cn, Nn], {"alpha": A})
    if v is None:
        # one formula for every alpha in (0, 1): a path split (or a raise) that depends on alpha alone must leave (0, 1) untouched - argument
        # validation that refuses alpha <= 0 or alpha >= 1 is fine, a branch INSIDE the interval changes the result for part of the range
        outs_ = ctx.explore(lambda: ctx.ev.call(ctx.fn(q), [Cn, Nn], {"alpha": A}), chk)
        conds = [c for o in outs_ for c, _t in o.pc]
        only_alpha = bool(conds) and all(all((not isinstance(a, Sym)) or a == A for a in atoms_of(c)) and any(a == A for a in atoms_of(c)) for c in conds)
        inside = [o for o in outs_ if alpha_region_meets_unit(o.pc) is not False]
        undecided = [o for o in outs_ if alpha_region_meets_unit(o.pc) is None]
        if only_alpha and not undecided and len(inside) == 1 and inside[0].kind == "return" and not inside[0].unmodelled:
            v = inside[0].value      # the only path that documented alphas can take
        elif only_alpha and not undecided:
            chk.violation("R04.4", q, "alpha-branch", "behaviour branches on alpha inside (0, 1): %s (%s)" % (sorted({show(c, 80) for c in conds})[:3], err),
                          "the same formula z(alpha/2)*sqrt(p(1-p)/n) for every alpha in (0, 1)", ctx.where(q))
        else:
            chk.unknown("R04.4", "binomial_ci: " + err)
    if v is not None:
        exp = binomial_spec(Cn, Nn, A)
        dv, dl, dp = devalue(v)
        xv, xl, _xp = devalue(exp)
        if same(dv, xv) and dl == xl and not dp:
            chk.hold("R04.4", "binomial_ci", "where defined ci = %s ; NaN locus %s" % (show(dv, 300), sorted(dl)))
        else:
            chk.violation("R04.4", q, "formula", "%s ; NaN locus %s %s" % (show(dv, 500), sorted(dl), "; ".join(dp)),
                          "%s ; NaN locus %s" % (show(xv, 500), sorted(xl)), ctx.where(q))
    ci_args = {}
    for name, rate in CIS.items():
        seen = []

        def stub(ev_, fi, bound):
            seen.append(bound)
            return App("CI", (bound.get("count"), bound.get("nobs"), bound.get("alpha")))

        ctx.ev.stubs[q] = stub
        try:
            v, err = eval_fn(ctx, chk, MET + name, [M], {"alpha": A})
        finally:
            ctx.ev.stubs.pop(q, None)
        if v is None and seen:
            # several paths although the helper was reached: each call of the helper must receive alpha itself - a branch on alpha that
            # hands over 1 - alpha (or refuses part of (0, 1)) changes the interval for part of the documented range
            alphas = {show(b_.get("alpha"), 80) for b_ in seen}
            outs_ = ctx.explore(lambda: ctx.ev.call(ctx.fn(MET + name), [M], {"alpha": A}), chk)
            conds = [c_ for o_ in outs_ for c_, _t in o_.pc]
            only_alpha = bool(conds) and all(all((not isinstance(a_, Sym)) or a_ == A for a_ in atoms_of(c_)) and any(a_ == A for a_ in atoms_of(c_)) for c_ in conds)
            if only_alpha and (alphas != {show(A, 80)} or any(o_.kind == "raise" for o_ in outs_)):
                chk.violation("R04.4", MET + name, "alpha-branch", "behaviour branches on alpha: %s; binomial_ci receives alpha in %s" % (sorted({show(c_, 60) for c_ in conds})[:3], sorted(alphas)),
                              "the same formula with the caller's alpha for every alpha in (0, 1)", ctx.where(MET + name))
                continue
        if v is None or not seen:
            chk.unknown("R04.4", "metrics.%s: %s" % (name, err or "does not call binomial_ci"))
            continue
        b = seen[-1]
        ncs, dcs = RATES[rate]
        got = (norm(b["count"]), norm(b["nobs"]), b["alpha"])
        ci_args[name] = got
        if same(got[0], csum(c, ncs)) and same(got[1], csum(c, dcs)) and got[2] == A and isinstance(v, App) and v.fn == "CI":
            chk.hold("R04.4", name, "%s = binomial_ci(count=%s, nobs=%s, alpha=alpha)" % (name, show(got[0]), show(got[1])))
        else:
            chk.violation("R04.4", MET + name, "arguments", "binomial_ci(count=%s, nobs=%s, alpha=%s) -> %s" % (show(got[0]), show(got[1]), show(got[2]), show(v, 120)),
                          "binomial_ci(count=%s, nobs=%s, alpha=alpha)" % (show(csum(c, ncs)), show(csum(c, dcs))), ctx.where(MET + name))
    for a, b in (("tpr_ci", "fnr_ci"), ("tnr_ci", "fpr_ci")):
        if a in ci_args and b in ci_args:
            if same(ci_args[a][1], ci_args[b][1]) and same(add(ci_args[a][0], ci_args[b][0]), ci_args[a][1]):
                chk.hold("R04.4", "mirror:%s/%s" % (a, b), "shared nobs, counts sum to nobs => mirrored intervals")
            else:
                chk.violation("R04.4", MET + a, "mirror:" + b, "counts/nobs differ", "shared nobs and complementary counts", ctx.where(MET + a))
    # ---- R04.5 aliases and ConfusionMatrix delegation
    for al, tgt in ALIASES.items():
        kw = {"alpha": A} if al.endswith("_ci") else {}
        va, e1 = eval_fn(ctx, chk, MET + al, [M], kw)
        vt, e2 = eval_fn(ctx, chk, MET + tgt, [M], kw)
        if va is None or vt is None:
            chk.unknown("R04.5", "alias %s: %s" % (al, e1 or e2))
        elif same(va, vt):
            chk.hold("R04.5", "metrics.%s==%s" % (al, tgt), "same value number")
        else:
            chk.violation("R04.5", MET + al, "alias-of:" + tgt, show(va, 300), show(vt, 300), ctx.where(MET + al))
        if al.endswith("_ci"):
            # the defaulted call too: an alias whose default significance level differs from its original's is no alias
            va, e1 = eval_fn(ctx, chk, MET + al, [M], {})
            vt, e2 = eval_fn(ctx, chk, MET + tgt, [M], {})
            if va is None or vt is None:
                chk.unknown("R04.5", "alias %s (defaults): %s" % (al, e1 or e2))
            elif same(va, vt):
                chk.hold("R04.5", "metrics.%s==%s:defaults" % (al, tgt), "same value number for the defaulted call")
            else:
                chk.violation("R04.5", MET + al, "alias-of:" + tgt + ":defaults", show(va, 300), show(vt, 300), ctx.where(MET + al))
    cmcls = ctx.db.cls(CM)
    for meth, fn in sorted(CM_METHODS.items()):
        if meth not in cmcls.methods and cmcls.find_assign(meth) is None:     # a def, or a callable bound by class-level assignment (generated alias)
            chk.unknown("R04.5", "anchor vanished: ConfusionMatrix.%s" % meth)
            continue
        kw = {"alpha": A} if meth.endswith("_ci") else {}

        def call():
            o = Obj(cmcls)
            o.attrs.update(matrix=M, binary=Const(True), classes=Sym("classes", ("attr", "array", "notnone")))
            return ctx.ev.call(ctx.ev.getattr(o, meth), [], dict(kw))

        outs = ctx.explore(call, chk)
        rets = returns(outs)
        vt, e2 = eval_fn(ctx, chk, MET + fn, [M], kw)
        qn = CM + "." + meth
        if len(rets) != 1 or vt is None or rets[0].unmodelled:
            chk.unknown("R04.5", "ConfusionMatrix.%s: %d return paths %s" % (meth, len(rets), e2 or ""))
        elif same(rets[0].value, vt):
            chk.hold("R04.5", "cm.%s==metrics.%s" % (meth, fn), "binary ConfusionMatrix.%s() = metrics.%s(self.matrix)" % (meth, fn))
        else:
            chk.violation("R04.5", qn, "delegates-to:" + fn, show(rets[0].value, 300), show(vt, 300), ctx.where(qn))
        if meth.endswith("_ci"):
            kw = {}
            outs = ctx.explore(call, chk)
            rets = returns(outs)
            vt, e2 = eval_fn(ctx, chk, MET + fn, [M], {})
            if len(rets) != 1 or vt is None or rets[0].unmodelled:
                chk.unknown("R04.5", "ConfusionMatrix.%s (defaults): %d return paths %s" % (meth, len(rets), e2 or ""))
            elif same(rets[0].value, vt):
                chk.hold("R04.5", "cm.%s==metrics.%s:defaults" % (meth, fn), "same interval for the defaulted call")
            else:
                chk.violation("R04.5", qn, "delegates-to:" + fn + ":defaults", show(rets[0].value, 300), show(vt, 300), ctx.where(qn))
    chk.floor("R04.5", 10 + 37, "10 metric aliases + 37 ConfusionMatrix methods")
    # hidden per-object state: a memo in the metric methods / decorator must be determined by its key (all arguments, keyword ones included)
    from . import c10
    c10.purity(ctx, chk, only=("ConfusionMatrix.", "metrics.", "utils.binomial_ci"), strict=False)
    # a binary matrix may be handed over as nested lists, a dict of dicts or a DataFrame: the cells the rates are computed from are the labelled
    # cells for every input form (R05.2)
    from . import c05
    c05.check_from_matrix(ctx, chk)
