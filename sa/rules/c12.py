"""C12 — group labels stay attached to their scores; groups partition the data (DESIGN §4 C12)."""
from __future__ import annotations

from ..evalr import Obj, Dct
from ..spec import GROUP, SCORES, CM, POS, NEG, T, returns, raises, pc_text, unmodelled_text
from ..terms import App, Const, Num, Sym, Tup, same, show, compare, atoms_of, to_poly, cmp0
from ..typestate import index_transform, strip_views
from ..mirror import lint
from . import c11

LEVEL = "other"
PG = Sym("pos_groups", ("attr", "array", "notnone"))
NG = Sym("neg_groups", ("attr", "array", "notnone"))
GROUPS = Sym("groups", ("attr", "array", "notnone"))
INITQ = GROUP + ".__init__"
BSQ = GROUP + ".bootstrap_sample"
GIQ = GROUP + ".__getitem__"


def aligned(scores, labels, base_s, base_l):
    """scores = base_s[I] and labels = base_l[I] with one index term I (or both untouched)."""
    (bs, i1), (bl, i2) = index_transform(scores), index_transform(labels)
    if i1 is None and i2 is None:
        return strip_views(scores) == base_s and strip_views(labels) == base_l, "no re-ordering"
    if i1 is None or i2 is None:
        return False, "scores indexed by %s, labels indexed by %s" % (show(i1, 80) if i1 is not None else "nothing", show(i2, 80) if i2 is not None else "nothing")
    if bs != base_s or bl != base_l:
        return False, "bases %s / %s" % (show(bs, 60), show(bl, 60))
    return (i1 == i2), "scores[%s] vs labels[%s]" % (show(i1, 80), show(i2, 80))


def run(ctx, chk, tier):
    from . import c14 as _c14
    _c14.set_iteration_order(ctx, chk, rule="R12.4")   # the by-group sampling loop visits the groups in an order given by the object's content
    from . import c01 as _c01
    _c01.flag_identity(ctx, chk)   # direction flags: identity comparisons need BinaryLabel members on every construction path
    chk.rule_text = ("alignment obligations: one per (class, construction site) pair (scores, labels) in __init__, from_labels, swap and every bootstrap_sample path; "
                     "per-group extraction, group_cm/groupwise stacking order, name list, by-group sampler; non-trivial = index term derived from the source")
    chk.explanation = ("Alignment is a typestate over derived terms: (scores, labels) stay attached when both are the same index transformation of an aligned base pair. "
                       "GroupScores.__init__ applies one argsort permutation to both members of each pair; from_labels one mask; every bootstrap path indexes scores and labels "
                       "with the same index value number (by_group: lock-step appends of group-g scores indexed by I and len(I) copies of g); __getitem__ selects each class by "
                       "its own label array; group_cm and groupwise map over self.groups in order; samples are built with group_names=self.groups; default names are the sorted "
                       "union of both label arrays (so groups partition the data and per-group matrices sum to cm by C01).")
    chk.trusted |= {"numpy.argsort permutation applied by indexing", "boolean mask indexing selects matching positions in order", "C01 (sortedness), C11 R11.3 (count algebra)"}
    ev = ctx.ev
    ci = ctx.db.cls(GROUP)
    # ---------------- R12.1 __init__
    P, N = Sym("p_in", ("param", "array", "notnone")), Sym("n_in", ("param", "array", "notnone"))
    PGI, NGI = Sym("pg_in", ("param", "array", "notnone")), Sym("ng_in", ("param", "array", "notnone"))
    for flag in (Const(False), Const(True)):
        outs = ctx.explore(lambda: ev.instantiate(ci, [P, N], {"pos_groups": PGI, "neg_groups": NGI, "is_sorted": flag}), chk)
        rets = returns(outs)
        if len(rets) != 1:
            chk.unknown("R12.1", "GroupScores.__init__(is_sorted=%s): %d return paths" % (show(flag), len(rets)))
            continue
        o = rets[0].value
        for cls_, bs, bl in (("pos", P, PGI), ("neg", N, NGI)):
            ok, why = aligned(o.attrs.get(cls_), o.attrs.get(cls_ + "_groups"), bs, bl)
            inst = "__init__(is_sorted=%s):%s" % (show(flag), cls_)
            if ok:
                chk.hold("R12.1", inst, "(%s, %s_groups) aligned: %s" % (cls_, cls_, why))
            else:
                chk.violation("R12.1", INITQ, inst, "%s ; %s = %s, %s_groups = %s" % (why, cls_, show(o.attrs.get(cls_), 100), cls_, show(o.attrs.get(cls_ + "_groups"), 100)),
                              "one permutation applied to both the scores and their group labels", ctx.where(INITQ))
        # default group names
        if flag == Const(False):
            g = o.attrs.get("groups")
            want = {"setof(pg_in)", "setof(ng_in)"}
            txt = show(g, 300)
            if isinstance(g, App) and "sorted" in txt and "setof(pg_in)" in txt and "setof(ng_in)" in txt:
                chk.hold("R12.3", "default-names", "groups = %s" % txt)
            else:
                chk.violation("R12.3", INITQ, "default-names", txt, "sorted(set(pos_groups) | set(neg_groups))", ctx.where(INITQ))
    gn = Sym("names", ("param", "array", "notnone"))
    outs = returns(ctx.explore(lambda: ev.instantiate(ci, [P, N], {"pos_groups": PGI, "neg_groups": NGI, "group_names": gn}), chk))
    if len(outs) == 1 and outs[0].value.attrs.get("groups") == gn:
        chk.hold("R12.3", "explicit-names", "explicit group_names are kept as given")
    else:
        chk.violation("R12.3", INITQ, "explicit-names", [show(o.value.attrs.get("groups"), 80) for o in outs], "asarray(group_names) unchanged", ctx.where(INITQ))
    from_labels_rule(ctx, chk)
    sampling_alignment(ctx, chk)
    getitem_rule(ctx, chk)
    group_cm_rule(ctx, chk)
    groupwise_rule(ctx, chk)
    cache_rule(ctx, chk)
    rest(ctx, chk)


def sampling_alignment(ctx, chk):
    """R12.1 / R12.3 on every GroupScores.bootstrap_sample path: scores and labels carried by one index, names and flags forwarded."""
    from . import c11
    # ---------------- bootstrap_sample paths
    outs = c11.sample_outcomes(ctx, chk, flags=("neg", "pos"), classes=(GROUP,))
    nsites = 0
    for label, o in outs:
        if o.kind != "return":
            if "Unsupported" in show(o.value, 200) or "not supported" in show(o.value, 200) or "not implemented" in show(o.value, 200):
                continue
            chk.violation("R12.1", BSQ, label + ":raises", "%s when %s" % (show(o.value, 100), pc_text(o)[:160]), "a sample", ctx.where(BSQ))
            continue
        news = [e for e in o.events if e["kind"] == "new" and e["cls"] == GROUP]
        if len(news) != 1:
            chk.unknown("R12.1", "%s: %d GroupScores constructions on a path" % (label, len(news)))
            continue
        kw = news[0]["kwargs"]
        nsites += 1
        by_group = "by_group" in label
        for cls_, bs, bl in (("pos", POS, PG), ("neg", NEG, NG)):
            sv, lv = kw.get(cls_), kw.get(cls_ + "_groups")
            inst = "%s:%s" % (label, cls_)
            if not by_group:
                ok, why = aligned(sv, lv, bs, bl)
            else:
                ok, why = lockstep(sv, lv, bs, bl)
            if ok:
                chk.hold("R12.1", inst, "sampled (%s, %s_groups) aligned: %s" % (cls_, cls_, why))
            elif ok is None:
                chk.unknown("R12.1", "%s: %s" % (inst, why))
            else:
                chk.violation("R12.1", BSQ, inst, why, "scores and labels carried by the same index", ctx.where(BSQ))
        if same(kw.get("group_names", Const(None)), GROUPS):
            chk.hold("R12.3", label + ":names", "sample built with group_names=self.groups")
        else:
            chk.violation("R12.3", BSQ, label + ":names", show(kw.get("group_names", Const(None)), 80), "self.groups (list and order preserved)", ctx.where(BSQ))
        flags = (kw.get("score_class"), kw.get("equal_class"))
        if flags == (ctx.label("neg"), ctx.label("pos")):
            chk.hold("R12.1", label + ":flags", "flags forwarded", nontrivial=False)
        else:
            chk.violation("R12.1", BSQ, label + ":flags", "%s/%s" % tuple(show(f) if f is not None else "?" for f in flags), "self.score_class/self.equal_class", ctx.where(BSQ))
    if nsites < 9:
        chk.unknown("R12.1", "only %d sampling paths with a GroupScores construction analysed" % nsites)


def from_labels_rule(ctx, chk):
    """R12.1 from_labels: scores and group labels of each class are selected by one mask (labels ==/!= pos_label)."""
    ev = ctx.ev
    labels, scores, groups, pl = (Sym(n, ("param", "array", "notnone")) for n in ("labels", "scores", "grp", "pos_label"))
    seen = []

    def stub(ev_, fi, bound):
        seen.append(bound)
        return Const(None)

    ev.stubs[INITQ] = stub
    try:
        fl = ev.getattr(ev.global_value(ctx.db.module("score_analysis.group_scores"), "GroupScores"), "from_labels")
        ctx.explore(lambda: ev.call(fl, [labels, scores, groups], {"pos_label": pl, "score_class": Const("neg"), "equal_class": Const("neg")}), chk)
    finally:
        ev.stubs.pop(INITQ, None)
    flq = GROUP + ".from_labels"
    if len(seen) != 1:
        chk.unknown("R12.1", "from_labels constructs %d objects" % len(seen))
    else:
        b = seen[0]
        for cls_, op in (("pos", "=="), ("neg", "!=")):
            m = compare(op, labels, pl)
            ok = same(b.get(cls_), App("getitem", (scores, m))) and same(b.get(cls_ + "_groups"), App("getitem", (groups, m)))
            if ok:
                chk.hold("R12.1", "from_labels:" + cls_, "%s = scores[labels %s pos_label], %s_groups = groups[same mask]" % (cls_, op, cls_))
            else:
                chk.violation("R12.1", flq, "from_labels:" + cls_, "%s=%s groups=%s" % (cls_, show(b.get(cls_), 100), show(b.get(cls_ + "_groups"), 100)),
                              "scores and groups selected by the same mask labels %s pos_label" % op, ctx.where(flq))
        if b.get("score_class") == Const("neg") and b.get("equal_class") == Const("neg"):
            chk.hold("R12.1", "from_labels:flags", "score_class and equal_class forwarded", nontrivial=False)
        else:
            chk.violation("R12.1", flq, "from_labels:flags", "%s/%s" % (show(b.get("score_class")), show(b.get("equal_class"))), "forwarded", ctx.where(flq))


def getitem_rule(ctx, chk):
    ev = ctx.ev
    # ---------------- R12.2 __getitem__
    g = Sym("group", ("param_scalar", "notnone"))
    ev.assume = [App("in", (g, GROUPS))]
    try:
        outs = ctx.explore(lambda: ev.call(ctx.method(ctx.scores_obj("neg", "pos", GROUP), "__getitem__"), [g], {}), chk)
    finally:
        ev.assume = []
    rets = returns(outs)
    if len(rets) != 1 or not isinstance(rets[0].value, Obj):
        chk.unknown("R12.2", "__getitem__: %d return paths" % len(rets))
    else:
        o = rets[0].value
        want = {"pos": App("getitem", (POS, compare("==", PG, g))), "neg": App("getitem", (NEG, compare("==", NG, g))),
                "score_class": ctx.label("neg"), "equal_class": ctx.label("pos"), "nb_easy_pos": Const(0), "nb_easy_neg": Const(0)}
        bad = [(k, o.attrs.get(k), w) for k, w in want.items() if o.attrs.get(k) is None or not same(o.attrs.get(k), w)]
        if o.cls.qualname != SCORES:
            bad.append(("class", Const(o.cls.qualname), Const(SCORES)))
        if not bad:
            chk.hold("R12.2", "getitem", "self[g] = Scores(pos[pos_groups == g], neg[neg_groups == g], flags of the receiver)")
        for k, gv, w in bad:
            chk.violation("R12.2", GIQ, "getitem:" + k, show(gv, 120) if gv is not None else "unset", show(w, 120), ctx.where(GIQ))
        stores = [e for e in rets[0].events if e["kind"] == "attr_store" and not e["in_init"]]
        if stores:
            chk.violation("R12.2", GIQ, "getitem:attr-store", [e["attr"] for e in stores], "no attribute re-binding", ctx.where(GIQ))
    outs = ctx.explore(lambda: ev.call(ctx.method(ctx.scores_obj("neg", "pos", GROUP), "__getitem__"), [g], {}), chk)
    if any(o.kind == "raise" and isinstance(o.value, App) and o.value.fn == "ValueError" for o in outs):
        chk.hold("R12.2", "getitem:unknown-group", "unknown group raises ValueError", nontrivial=False)


def group_cm_rule(ctx, chk):
    ev = ctx.ev
    # ---------------- R12.3 group_cm / groupwise
    marker = []

    def cmstub(ev_, fi, bound):
        return App("CMOF", (Sym(bound["self"].key if isinstance(bound["self"], Obj) else "?"), bound["threshold"]))

    def gistub(ev_, fi, bound):
        o = Obj(ctx.db.cls(SCORES), label="groupobj")
        o.attrs["__group__"] = bound["group"]
        return o

    def cmstub2(ev_, fi, bound):
        return App("CMOF", (bound["self"].attrs.get("__group__", Const("?")), bound["threshold"]))

    ev.stubs[GIQ] = gistub
    ev.stubs[SCORES + ".cm"] = cmstub2
    try:
        outs = ctx.explore(lambda: ev.call(ctx.method(ctx.scores_obj("neg", "pos", GROUP), "group_cm"), [T], {}), chk)
    finally:
        ev.stubs.pop(GIQ, None)
        ev.stubs.pop(SCORES + ".cm", None)
    rets = returns(outs)
    gq = GROUP + ".group_cm"
    ok = False
    if len(rets) == 1 and isinstance(rets[0].value, Obj) and rets[0].value.cls.qualname == CM:
        m = rets[0].value.attrs.get("matrix")
        fors_ok = isinstance(m, App) and m.fn == "stack" and m.kwd("axis") == Const(0)
        if fors_ok:
            inner = m.args[0]
            txt = show(inner, 400)
            if isinstance(inner, App) and inner.fn == "forall" and len(inner.args[0].items) == 1:
                el, body = inner.args[0].items[0], inner.args[1]
                ok = isinstance(el, App) and el.fn == "elem" and el.args[0] == GROUPS and body == App("CMOF", (el, T))
        if ok and rets[0].value.attrs.get("binary") == Const(True):
            chk.hold("R12.3", "group_cm", "stack([self[g].cm(t) for g in self.groups], axis=0), binary=True")
    if not ok:
        chk.violation("R12.3", gq, "group_cm", show(rets[0].value.attrs.get("matrix"), 200) if rets and isinstance(rets[0].value, Obj) else "?",
                      "per-group matrices stacked on a new leading axis in the order of self.groups", ctx.where(gq))


def groupwise_rule(ctx, chk):
    """R12.3 groupwise(metric)(obj)[i] = metric(obj[obj.groups[i]]): rows in the order of obj.groups, stacked on a new leading axis."""
    ev = ctx.ev
    gwq = "score_analysis.group_scores.groupwise"
    kwv = Sym("kwarg", ("param", "notnone"))

    def gistub(ev_, fi, bound):
        o = Obj(ctx.db.cls(SCORES), label="groupobj")
        o.attrs["__group__"] = bound["group"]
        return o

    def mstub(ev_, fi, bound):
        s = bound["self"]
        return App("METRIC", (s.attrs.get("__group__", Const("?")) if isinstance(s, Obj) else Const("?"), bound.get("threshold", Const("?"))))

    for form in ("name", "callable"):
        ev.stubs[GIQ] = gistub
        ev.stubs[SCORES + ".tpr"] = mstub
        try:
            def thunk():
                gw = ev.global_value(ctx.db.module("score_analysis.group_scores"), "groupwise")
                m = Const("tpr") if form == "name" else ev.getattr(ev.global_value(ctx.db.module("score_analysis.scores"), "Scores"), "tpr")
                f = ev.call(gw, [m], {})
                return ev.call(f, [ctx.scores_obj("neg", "pos", GROUP)], {"threshold": kwv})
            outs = ctx.explore(thunk, chk)
        finally:
            ev.stubs.pop(GIQ, None)
            ev.stubs.pop(SCORES + ".tpr", None)
        rets = returns(outs)
        ok, got = False, "?"
        if len(rets) == 1 and len(outs) == 1:
            m = rets[0].value
            got = show(m, 200) if hasattr(m, "key") else repr(m)
            if isinstance(m, App) and m.fn == "stack" and m.kwd("axis") == Const(0):
                inner = m.args[0]
                if isinstance(inner, App) and inner.fn == "forall" and len(inner.args[0].items) == 1:
                    el, body = inner.args[0].items[0], inner.args[1]
                    ok = isinstance(el, App) and el.fn == "elem" and el.args[0] == GROUPS and body == App("METRIC", (el, kwv))
        else:
            got = "%d paths (%d returning)" % (len(outs), len(rets))
        if ok:
            chk.hold("R12.3", "groupwise:" + form, "groupwise(metric)(obj, **kw) = stack([metric(obj[g], **kw) for g in obj.groups], axis=0)")
        else:
            chk.violation("R12.3", gwq, "groupwise:" + form, got, "metric applied group by group in the order of obj.groups, keyword arguments forwarded, stacked on a new leading axis",
                          ctx.where(gwq))


def cache_rule(ctx, chk):
    """R12.6 cache coherence over the history index -> derive -> index: an object derived from one whose per-group cache is filled
    starts with an empty cache, or with entries that are the derived object's own per-group extraction."""
    ev = ctx.ev
    g = Sym("group", ("param_scalar", "notnone"))
    cases = [("swap", None)] + [("bootstrap_sample[%s,%s]" % (m, s), (m, s)) for m, s, _ in c11.GROUP_CONFIGS]
    n = 0
    for name, cfg in cases:
        def thunk():
            obj = ctx.scores_obj("neg", "pos", GROUP)
            ev.call(ctx.method(obj, "__getitem__"), [g], {})
            if not (isinstance(obj.attrs.get("_grouped_scores"), Dct) and g in obj.attrs["_grouped_scores"].items):
                raise_unknown.append(name)
            if cfg is None:
                return ev.call(ctx.method(obj, "swap"), [], {})
            return ev.call(ctx.method(obj, "bootstrap_sample"), [], {"config": c11.make_config(ctx, cfg[0], cfg[1], False, None)})
        raise_unknown = []
        ev.assume = [App("in", (g, GROUPS))]
        try:
            outs = ctx.explore(thunk, chk)
        finally:
            ev.assume = []
        q = GROUP + "." + name.split("[")[0]
        if raise_unknown:
            chk.unknown("R12.6", "%s: the per-group cache of the source was not filled by indexing (cache no longer a dict attribute _grouped_scores?)" % name)
            continue
        for o in returns(outs):
            d = o.value
            if not isinstance(d, Obj):
                chk.unknown("R12.6", "%s: derived value is not an object" % name)
                continue
            c = d.attrs.get("_grouped_scores")
            n += 1
            if c is None:
                chk.hold("R12.6", name + ":" + pc_text(o)[:60], "derived object has no per-group cache", nontrivial=False)
                continue
            if not isinstance(c, Dct) or c.unknown:
                chk.unknown("R12.6", "%s: per-group cache of the derived object not understood" % name)
                continue
            bad = []
            for k, v in c.items.items():
                want = {"pos": App("getitem", (d.attrs.get("pos"), compare("==", d.attrs.get("pos_groups"), k))),
                        "neg": App("getitem", (d.attrs.get("neg"), compare("==", d.attrs.get("neg_groups"), k))),
                        "score_class": d.attrs.get("score_class"), "equal_class": d.attrs.get("equal_class")}
                if not isinstance(v, Obj):
                    bad.append((k, "entry is not a Scores object"))
                    continue
                for a, w in want.items():
                    gv = v.attrs.get(a)
                    if gv is None or w is None or not same(gv, w):
                        bad.append((k, "%s = %s, the derived object's own extraction is %s" % (a, show(gv, 80) if gv is not None else "unset", show(w, 80) if w is not None else "?")))
            inst = "%s:%s" % (name, pc_text(o)[:60])
            if bad:
                chk.violation("R12.6", q, name + ":stale-cache", "; ".join("key %s: %s" % (show(k, 40), why) for k, why in bad[:3]),
                              "a derived object starts with an empty per-group cache (or entries extracted from its own arrays)", ctx.where(q))
            else:
                chk.hold("R12.6", inst, "derived object's per-group cache: %d entries, all its own" % len(c.items))
    if n < 10:
        chk.unknown("R12.6", "only %d derived objects analysed" % n)


def rest(ctx, chk):
    ev = ctx.ev
    # ---------------- R12.4 by-group uses the non-stratified sampler per group
    hit = 0
    for label, o in c11.sample_outcomes(ctx, chk, flags=("neg", "pos"), classes=(GROUP,)):
        if "by_group" not in label or o.kind != "return":
            continue
        calls = [e for e in o.events if e["kind"] == "call" and e["callee"] == SCORES + "._sample_indices"]
        for e in calls:
            hit += 1
            bl = e["bound"].get("by_label")
            recv = e["bound"].get("self")
            sp = e["bound"].get("single_pass")
            if "dynamic" in label and sp != Const(False):
                chk.violation("R12.4", GROUP + "._sampling_method", label + ":dynamic-resolution", "single_pass=%s when %s" % (show(sp) if sp is not None else "?", pc_text(o)[:120]),
                              "dynamic sampling resolves to replacement under by-group stratification (single-pass multiplicities do not preserve a group's sample count)",
                              ctx.where(GROUP + "._sampling_method"))
            elif bl == Const(False) and isinstance(recv, Obj) and recv.cls.qualname == SCORES:
                chk.hold("R12.4", label, "per-group Scores._sample_indices(by_label=False): group size preserved by the count algebra (R11.3)")
            else:
                chk.violation("R12.4", BSQ, label + ":per-group-sampler", "by_label=%s on %s" % (show(bl) if bl is not None else "?", recv),
                              "non-stratified sampling of each group's own Scores", ctx.where(BSQ))
    if hit == 0:
        chk.unknown("R12.4", "no per-group sampler call observed")
    from . import c01
    c01.construction_sites(ctx, chk)
    # prerequisite: count algebra of the sampler (group sizes) and mirror lint of the class
    c11.count_algebra(ctx, chk)
    from . import c10
    c10.purity(ctx, chk, only=("GroupScores.",), strict=False)
    for q in (INITQ, GROUP + ".swap", GIQ, BSQ, GROUP + ".from_labels"):
        f = ctx.db.function(q)
        n, finds = lint(f.node)
        for fd in finds:
            chk.violation("R12.5", q, "partial-mirror:%s" % fd["statement"][:80], "%s   (partner line %d: %s)" % (fd["statement"], fd["partner_line"], fd["partner"]),
                          fd["detail"], "%s:%d" % (f.module.relpath, fd["line"]))
        if not finds:
            chk.hold("R12.5", q.split(".")[-1], "%d pos/neg statement pairs are exact mirror images" % n, nontrivial=n > 0)
    chk.floor("R12.1", 4 + 2 + 18, "constructor, from_labels and sampling-path pairs")


def libmodel_len(idx):
    from .. import libmodel
    return libmodel.length(None, idx)


def lockstep(sv, lv, bs, bl):
    """by_group: scores = concat(for g: S_g[I_g]), labels = concat(for g: [g for _ in I_g]) with S_g = base[labels_base == g]."""
    def unwrap(v):
        if isinstance(v, App) and v.fn in ("concat_seq", "concat") and len(v.args) == 1 and isinstance(v.args[0], App) and v.args[0].fn == "forall":
            return v.args[0].args
        return None
    a, b = unwrap(sv), unwrap(lv)
    if a is None or b is None:
        return None, "by-group concatenation not recognised: %s / %s" % (show(sv, 100), show(lv, 100))
    (lg1, xs), (lg2, xl) = a, b
    if lg1 != lg2 or len(lg1.items) != 1:
        return False, "scores and labels are built in different loops"
    g = lg1.items[0]
    base, idx = index_transform(xs)
    if idx is None:
        return None, "per-group scores are not indexed: %s" % show(xs, 100)
    want_base = App("getitem", (bs, compare("==", bl, g)))
    if not same(base, want_base):
        return False, "per-group scores %s are not %s" % (show(base, 100), show(want_base, 100))
    if isinstance(xl, App) and xl.fn == "binop:Mult":
        # [g] * len(I): len(I) copies of g
        lst, cnt = xl.args
        if isinstance(cnt, Tup):
            lst, cnt = cnt, lst
        if isinstance(lst, Tup) and len(lst.items) == 1 and lst.items[0] == g and same(cnt, App("len", (idx,))):
            return True, "lock-step appends of group-g scores[I] and [g] * len(I)"
        if isinstance(lst, Tup) and len(lst.items) == 1 and lst.items[0] == g:
            cs = libmodel_len(idx)
            if same(cnt, cs):
                return True, "lock-step appends of group-g scores[I] and [g] * len(I)"
        return False, "labels %s are not len(index) copies of the loop's group" % show(xl, 120)
    if isinstance(xl, App) and xl.fn == "full" and len(xl.args) == 2:
        cnt, val = xl.args
        if val != g:
            return False, "labels filled with %s, not the loop's group" % show(val, 60)
        if not (same(cnt, App("len", (idx,))) or same(cnt, libmodel_len(idx))):
            return False, "label count %s is not the number of sampled scores" % show(cnt, 80)
        dt = xl.kwd("dtype")
        if dt is not None and not (isinstance(dt, App) and dt.fn in ("attr:dtype", "dtype") and dt.args and dt.args[0] == bl):
            return False, "labels are cast to dtype %s (the dtype of another label array: a longer or different-kind label is truncated / converted)" % show(xl.kwd("dtype"), 60)
        return True, "lock-step appends of group-g scores[I] and full(len(I), g)"
    if not (isinstance(xl, App) and xl.fn == "forall" and len(xl.args[0].items) == 1):
        return None, "per-group labels not a comprehension: %s" % show(xl, 100)
    el, val = xl.args[0].items[0], xl.args[1]
    if not (isinstance(el, App) and el.fn == "elem" and el.args[0] == idx):
        return False, "labels repeated over %s, scores indexed by %s" % (show(el, 80), show(idx, 80))
    if val != g:
        return False, "label value %s is not the loop's group %s" % (show(val, 60), show(g, 60))
    return True, "lock-step appends of group-g scores[I] and len(I) copies of g"
