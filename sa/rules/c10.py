"""C10 — queries are vectorised elementwise, shape-preserving and side-effect free (DESIGN §4 C10)."""
from __future__ import annotations

import ast
import os
import tempfile

from ..evalr import Evaluator, Obj, Dct, FuncV
from ..progdb import ModuleInfo, FunctionInfo
from ..spec import GAMMAS, GROUP, SCORES, FRAUD, CM, POS, NEG, T, returns, raises, unmodelled_text, pc_text
from ..terms import App, Const, Num, Sym, Tup, Star, V, same, show, atoms_of, walk
from .. import libmodel
from .thr import METRICS, ALIASES, METHODS, R, explore_threshold, explore_rate
from . import c11

LEVEL = "other"
NONPOINTWISE = {"sort", "concat", "sum", "nansum", "amin", "amax", "reshape", "flatten", "attr:T", "transpose", "moveaxis", "stack", "cumsum", "diff", "unique",
                "union1d", "argsort", "m:sum", "m:mean", "mean", "median", "trapezoid", "m:flatten", "m:reshape", "m:ravel", "ravel"}


# memo keyed by the group label; its entries are functions of (pos, neg, groups, flags) which no query re-binds
TABLED_CACHES = {(GROUP, "_grouped_scores")}


def param(name, *tags):
    return Sym(name, ("param", "array", "notnone") + tags)


def _input_atoms(x, depth=0):
    """Symbols of a stored value that are inputs of the running query (everything except receiver state)."""
    from ..evalr import Lst
    out = set()
    if isinstance(x, Obj) and depth < 3:
        for v in x.attrs.values():
            out |= _input_atoms(v, depth + 1)
    elif isinstance(x, (Lst,)) and depth < 3:
        for v in x.items:
            out |= _input_atoms(v, depth + 1)
    elif hasattr(x, "key") and not isinstance(x, (Obj, Dct, FuncV)):
        for a in atoms_of(x):
            if isinstance(a, Sym) and a.tags and not ({"attr", "attr_scalar", "loopvar", "loopcarried", "draw"} & set(a.tags)):
                out.add(a)
    return out


def _key_components(k):
    if isinstance(k, Tup):
        out = set()
        for i in k.items:
            out |= _key_components(i.value if isinstance(i, Star) else i)
        return out
    return {k}


_REBIND_CACHE = {}
FRESH_MAKERS = {"copy", "deepcopy", "__new__", "replace"}


def fresh_locals(fn_node):
    """Local names bound to an object CREATED in this function (a constructor call, copy.copy(...), type(self)(...), cls(...)): attribute
    stores on them initialise a new object, they do not modify an existing one."""
    out = set()
    for n in ast.walk(fn_node):
        if isinstance(n, ast.Assign) and len(n.targets) == 1 and isinstance(n.targets[0], ast.Name) and isinstance(n.value, ast.Call):
            f = n.value.func
            nm = f.attr if isinstance(f, ast.Attribute) else getattr(f, "id", None)
            if nm in FRESH_MAKERS or (isinstance(nm, str) and nm[:1].isupper()) or nm == "cls" \
                    or (isinstance(f, ast.Call) and isinstance(f.func, ast.Name) and f.func.id == "type"):
                out.add(n.targets[0].id)
    return out


def construction_only(db, fi, _depth=0):
    """A private method that is only ever invoked while an object is being set up: from a constructor on `self`, or on an object the caller
    has just created (`sample = copy.copy(self); sample._sort_scores()`).  Stores it makes to self are initialisation, not mutation."""
    if fi.name == "__init__":
        return True
    if not fi.name.startswith("_") or fi.name.startswith("__") or _depth > 2:
        return False
    sites = 0
    for g in db.all_functions():
        fresh = None
        for n in ast.walk(g.node):
            if isinstance(n, ast.Call) and isinstance(n.func, ast.Attribute) and n.func.attr == fi.name:
                sites += 1
                base = n.func.value
                if isinstance(base, ast.Name) and base.id == "self":
                    if not (g is not fi and construction_only(db, g, _depth + 1)):
                        return False
                elif isinstance(base, ast.Name):
                    fresh = fresh_locals(g.node) if fresh is None else fresh
                    if base.id not in fresh:
                        return False
                else:
                    return False
    return sites > 0


def rebindable_attrs(db, ci):
    """Attributes of instances of `ci` (or of a subclass) that some method other than __init__ re-binds: {attr: qualname of the writer}.
    (FraudScores' alias setters re-bind pos/neg of a Scores.)"""
    k = (id(db), ci.qualname)
    if k in _REBIND_CACHE:
        return _REBIND_CACHE[k]
    out = {}
    for mi in db.modules.values():
        for c in mi.classes.values():
            try:
                related = ci in c.mro() or c in ci.mro()
            except Exception:  # noqa: BLE001
                related = False
            if not related:
                continue
            for mname, m in list(c.methods.items()) + [(n_ + ".setter", f_) for n_, f_ in c.setters.items()]:
                if mname == "__init__" or (not mname.endswith(".setter") and construction_only(db, m)):
                    continue
                for node in ast.walk(m.node):
                    tg = node.targets if isinstance(node, ast.Assign) else [node.target] if isinstance(node, (ast.AugAssign, ast.AnnAssign)) else []
                    for t in tg:
                        for x in ast.walk(t):
                            if isinstance(x, ast.Attribute) and isinstance(x.value, ast.Name) and x.value.id == "self" and isinstance(x.ctx, ast.Store):
                                out.setdefault(x.attr, c.qualname + "." + mname)
    _REBIND_CACHE[k] = out
    return out


def attr_writers(db, ci):
    """{attr: [FunctionInfo, ...]} every method / setter other than __init__ of a related class that re-binds self.<attr>."""
    out = {}
    for mi in db.modules.values():
        for c in mi.classes.values():
            try:
                related = ci in c.mro() or c in ci.mro()
            except Exception:  # noqa: BLE001
                related = False
            if not related:
                continue
            for mname, m in list(c.methods.items()) + [(n_ + ".setter", f_) for n_, f_ in c.setters.items()]:
                if mname == "__init__" or (not mname.endswith(".setter") and construction_only(db, m)):
                    continue
                for node in ast.walk(m.node):
                    tg = node.targets if isinstance(node, ast.Assign) else [node.target] if isinstance(node, (ast.AugAssign, ast.AnnAssign)) else []
                    for t in tg:
                        for x in ast.walk(t):
                            if isinstance(x, ast.Attribute) and isinstance(x.value, ast.Name) and x.value.id == "self" and isinstance(x.ctx, ast.Store):
                                if m not in out.setdefault(x.attr, []):
                                    out[x.attr].append(m)
    return out


def invalidates(fn_node, name):
    """The function drops the cached entry `name` of self: del self.name / delattr(self, "name") / self.__dict__.pop("name", ...) /
    vars(self).pop("name", ...) / del self.__dict__["name"] / self.__dict__.clear()."""
    for n in ast.walk(fn_node):
        if isinstance(n, ast.Delete):
            for t in n.targets:
                if isinstance(t, ast.Attribute) and isinstance(t.value, ast.Name) and t.value.id == "self" and t.attr == name:
                    return True
                if isinstance(t, ast.Subscript) and ast.unparse(t.value) in ("self.__dict__", "vars(self)") and isinstance(t.slice, ast.Constant) and t.slice.value == name:
                    return True
        if isinstance(n, ast.Call):
            src = ast.unparse(n.func)
            if src == "delattr" and len(n.args) == 2 and ast.unparse(n.args[0]) == "self" and isinstance(n.args[1], ast.Constant) and n.args[1].value == name:
                return True
            if src in ("self.__dict__.pop", "vars(self).pop") and n.args and isinstance(n.args[0], ast.Constant) and n.args[0].value == name:
                return True
            if src in ("self.__dict__.clear", "vars(self).clear"):
                return True
    return False


def self_reads(ci, fi, depth=0, seen=None):
    """Attributes of self a method reads, directly or through other methods / properties of its class hierarchy."""
    seen = set() if seen is None else seen
    if fi is None or fi.qualname in seen or depth > 4:
        return set()
    seen.add(fi.qualname)
    mro = [c for c in ci.mro() if hasattr(c, "methods")]
    out = set()
    for n in ast.walk(fi.node):
        if isinstance(n, ast.Attribute) and isinstance(n.value, ast.Name) and n.value.id == "self" and isinstance(n.ctx, ast.Load):
            out.add(n.attr)
            tgt = next((c.methods[n.attr] for c in mro if n.attr in c.methods), None)
            out |= self_reads(ci, tgt, depth + 1, seen)
    return out


def stale_cache_attrs(db, ci, fi, name):
    """Re-bindable attributes a functools-cached method of `ci` depends on whose writers do not all drop the cached entry `name`."""
    rb = rebindable_attrs(db, ci)
    writers = attr_writers(db, ci)
    return [(a, rb[a]) for a in sorted(self_reads(ci, fi)) if a in rb and not all(invalidates(w.node, name) for w in writers.get(a, []))]


def memo_stale(db, e):
    """Receiver attributes the stored value depends on that a public method re-binds later (the entry would go stale)."""
    v = e.get("value")
    deps = set()

    def collect(x, depth=0):
        if isinstance(x, Obj) and depth < 3:
            for y in x.attrs.values():
                collect(y, depth + 1)
        elif hasattr(x, "key") and not isinstance(x, (Obj, Dct, FuncV)):
            for a in atoms_of(x):
                if isinstance(a, Sym) and "attr" in a.tags:
                    deps.add(a.name)
    collect(v)
    rb = rebindable_attrs(db, e["obj"].cls)
    writer_attr = e["attr"]
    return sorted((a, rb[a]) for a in deps if a in rb and a != writer_attr)


def memo_unsound(e):
    """A per-object memo entry must be determined by its key: every query input the stored value depends on is a component
    of the key itself (names, hashes, byte strings or sorted keyword names of an input do not determine it)."""
    comps = _key_components(e["key"]) if hasattr(e["key"], "key") else set()
    missing = sorted((a for a in _input_atoms(e.get("value")) if a not in comps), key=lambda a: a.key)
    return missing


def mutation_findings(o, strict=True, db=None):
    # findings ABOUT a library call (a key built with tobytes(), id(), ...) name it on purpose: the report's safety net for value mismatches
    # that merely pass through an uninterpreted `ext:` application does not apply to them
    return [(k, m.replace("ext:", "lib:"), e) for k, m, e in _mutation_findings(o, strict, db)]


def _mutation_findings(o, strict=True, db=None):
    out = []
    for e in o.events:
        if e["kind"] == "inplace" and e["root"] is not None:
            out.append(("inplace", "%s of %s (storage of %s)" % (e["how"], e["target"], show(e["root"], 40)), e))
        elif e["kind"] == "attr_store" and not e["in_init"]:
            if e.get("empty"):
                continue  # creation of an empty memo table: judged by what is stored in it
            val = e.get("value")
            if isinstance(val, Tup) and len(val.items) >= 2 and not any(isinstance(i, Star) for i in val.items):
                # a one-entry memo kept in an attribute: self._last = (key..., value); the entry is returned when the key parts match again
                comps = set()
                for i in val.items[:-1]:
                    comps |= _key_components(i)
                missing = sorted((a for a in _input_atoms(val.items[-1]) if a not in comps), key=lambda a: a.key)
                if missing:
                    out.append(("memo-key", "one-entry memo self.%s: the remembered value depends on %s, which the remembered key %s does not determine (a later call with another %s gets this entry)"
                                % (e["attr"], ", ".join(show(a, 30) for a in missing[:3]), show(Tup(list(val.items[:-1])), 60), show(missing[0], 30)), e))
                    continue
                # a complete key in the STORED tuple says nothing about how the entry is looked up on the next call (exact match, identity,
                # allclose ...): a one-call exploration never sees the lookup succeed, so the store stays a reported re-binding
            out.append(("attr-store", "self.%s re-bound" % e["attr"], e))
        elif e["kind"] == "dict_store" and not e["in_init"] and (not strict or (e["obj"].cls.qualname, e["attr"]) not in TABLED_CACHES):
            # a per-object memo is unobservable - and accepted - when its key determines the stored value and nothing the value depends on
            # is re-bound later; otherwise it makes results depend on the call history
            miss = memo_unsound(e)
            stale = memo_stale(db, e) if db is not None else []
            if stale and not miss:
                out.append(("memo-stale", "memo self.%s: the stored value depends on self.%s, which %s re-binds without invalidating the entry"
                            % (e["attr"], stale[0][0], stale[0][1]), e))
            if miss:
                out.append(("memo-key", "memo self.%s: the value stored under key %s depends on %s, which the key does not determine (a later call with another %s gets this entry)"
                            % (e["attr"], show(e["key"], 60), ", ".join(show(a, 30) for a in miss[:3]), show(miss[0], 30)), e))
        elif e["kind"] == "raw_arith":
            out.append(("raw-dtype-arithmetic", "%s on values that still have the caller's score dtype (%s): for unsigned-integer scores the result wraps around instead of going negative"
                        % (e["op"], e.get("text", "")[:60]), e))
        elif e["kind"] == "foreign_attr_store":
            out.append(("attr-store", "attribute %s of a foreign object re-bound" % e["attr"], e))
    return out


def depends_nonpointwise(term, sym):
    """Name of a non-elementwise operator whose operand mentions `sym`, else None."""
    hit = []

    def f(x):
        if isinstance(x, App) and x.fn in NONPOINTWISE and any(a == sym for a in atoms_of(x)):
            hit.append(x.fn)
        if isinstance(x, App) and x.fn == "getitem" and x.args[0] == sym and not _is_broadcast_index(x.args[1]):
            hit.append("getitem(%s, %s)" % (sym.name, show(x.args[1], 40)))
    walk(term, f)
    for h in hit:
        if h in ("attr:T", "transpose"):
            return h
    return hit[0] if hit else None


FIXED_AXIS_JOINS = {"dstack": 2, "column_stack": 1, "hstack": 1, "vstack": 1, "row_stack": 1}


def fixed_axis_stack(term, sym):
    """np.dstack / column_stack / hstack / vstack of arrays shaped like `sym` under a reshape: the join axis is fixed (2 / 1 / 0), so the
    reshape to sym.shape + (...) is elementwise only up to that rank."""
    hit = []

    def f(x):
        if isinstance(x, App) and x.fn in ("reshape", "m:reshape") and x.args:
            inner = x.args[0]
            if isinstance(inner, App) and inner.fn in FIXED_AXIS_JOINS and any(a == sym for a in atoms_of(inner)):
                hit.append(inner.fn)
    walk(term, f)
    return hit[0] if hit else None


def _is_broadcast_index(idx):
    items = idx.items if isinstance(idx, Tup) else [idx]
    return all(i == Const(None) or i == Const(Ellipsis) or (isinstance(i, App) and i.fn == "slice" and all(a == Const(None) for a in i.args)) for i in items)


def targets(ctx):
    """(label, qualname, thunk, deterministic) for every public deterministic query."""
    ev = ctx.ev
    out = []
    S = lambda cls=SCORES: ctx.scores_obj("neg", "pos", cls)  # noqa: E731
    tq = param("t")
    for name in ("cm", "confusion_matrix") + METRICS + tuple(ALIASES):
        out.append(("Scores.%s" % name, SCORES + "." + (name if name != "confusion_matrix" else "cm"), lambda name=name: ev.call(ctx.method(S(), name), [tq], {})))
    rq = param("r")
    for name in METRICS + tuple(ALIASES):
        for m in ("linear", "lower"):
            out.append(("Scores.threshold_at_%s[%s]" % (name, m), SCORES + ".threshold_at_" + name,
                        lambda name=name, m=m: ev.call(ctx.method(S(), "threshold_at_" + name), [rq], {"method": Const(m)})))
    # the setters transform the target differently per configuration (1 - r, the one-rank shift of right-continuous metrics): whether the
    # caller's array is only read is decided for each of them
    for name in METRICS:
        for sc_, ec_ in (("pos", "pos"), ("pos", "neg"), ("neg", "neg")):
            out.append(("Scores.threshold_at_%s[linear,%s/%s]" % (name, sc_, ec_), SCORES + ".threshold_at_" + name,
                        lambda name=name, sc_=sc_, ec_=ec_: ev.call(ctx.method(ctx.scores_obj(sc_, ec_), "threshold_at_" + name), [rq], {"method": Const("linear")})))
    met = Sym("metric", ("callable", "param", "notnone"))
    for pts, lab in ((Const(None), "all"), (param("points"), "array")):
        out.append(("Scores.threshold_at_metric[%s]" % lab, SCORES + ".threshold_at_metric", lambda pts=pts: ev.call(ctx.method(S(), "threshold_at_metric"), [param("target"), met], {"points": pts})))
    out.append(("Scores.eer", SCORES + ".eer", lambda: ev.call(ctx.method(S(), "eer"), [], {})))
    out.append(("Scores.auc", SCORES + ".auc", lambda: ev.call(ctx.method(S(), "auc"), [Sym("lo", ("float", "notnone")), Sym("hi", ("float", "notnone"))], {})))
    out.append(("Scores.swap", SCORES + ".swap", lambda: ev.call(ctx.method(S(), "swap"), [], {})))
    out.append(("GroupScores.swap", GROUP + ".swap", lambda: ev.call(ctx.method(S(GROUP), "swap"), [], {})))
    for name in ("group_cm", "group_tpr", "group_fnr", "group_tnr", "group_fpr", "group_topr", "group_tonr", "group_far", "group_frr"):
        out.append(("GroupScores.%s" % name, GROUP + "." + name, lambda name=name: ev.call(ctx.method(S(GROUP), name), [tq], {})))
    pw = ctx.fn("score_analysis.scores.pointwise_cm")
    out.append(("pointwise_cm", "score_analysis.scores.pointwise_cm", lambda: ev.call(pw, [param("labels"), param("scores"), param("threshold")], {"score_class": Const("neg")})))
    M = param("M")
    for f in sorted(ctx.db.module("score_analysis.metrics").functions):
        q = "score_analysis.metrics." + f
        kw = {"alpha": Sym("alpha", ("float", "notnone"))} if f.endswith("_ci") else {}
        out.append(("metrics." + f, q, lambda q=q, kw=kw: ev.call(ctx.fn(q), [M], dict(kw))))
    cmcls = ctx.db.cls(CM)
    for binary in (True, False):
        assigned = {n_: None for n_, v_, _a in getattr(cmcls, "assigns", []) if isinstance(v_, (ast.Call, ast.Lambda, ast.Name)) and not n_.startswith("_") and n_ not in cmcls.methods}
        for name, mi in sorted(list(cmcls.methods.items()) + list(assigned.items())):     # methods, and callables bound by class-level assignment (generated aliases)
            if name.startswith("_") or (mi is not None and mi.kind != "function"):
                continue
            kw = {"alpha": Sym("alpha", ("float", "notnone"))} if name.endswith("_ci") else {}

            def thunk(name=name, kw=kw, binary=binary):
                o = Obj(cmcls)
                o.attrs.update(matrix=Sym("matrix", ("attr", "array", "notnone")), binary=Const(binary), classes=Sym("classes", ("attr", "array", "notnone")))
                return ev.call(ev.getattr(o, name), [], dict(kw))
            out.append(("ConfusionMatrix.%s[%s]" % (name, "binary" if binary else "multiclass"), CM + "." + name, thunk))
    U = "score_analysis.utils."
    out.append(("utils.binomial_ci", U + "binomial_ci", lambda: ev.call(ctx.fn(U + "binomial_ci"), [param("count"), param("nobs")], {})))
    for m in ("quantile", "bc", "bca"):
        out.append(("utils.bootstrap_ci[%s]" % m, U + "bootstrap_ci", lambda m=m: ev.call(ctx.fn(U + "bootstrap_ci"), [param("theta"), param("theta_hat"), param("alpha")], {"method": Const(m)})))
    out.append(("utils.invert_pl_function", U + "invert_pl_function", lambda: ev.call(ctx.fn(U + "invert_pl_function"), [param("x"), param("y"), param("t")], {})))
    RCM = "score_analysis.roc_curve."
    out.append(("roc_curve._aggregate_rectangles", RCM + "_aggregate_rectangles", lambda: ev.call(ctx.fn(RCM + "_aggregate_rectangles"), [param("x"), param("dxp"), param("dyp")], {})))
    out.append(("roc_curve._apply_rule_of_three", RCM + "_apply_rule_of_three", lambda: ev.call(ctx.fn(RCM + "_apply_rule_of_three"), [],
                                                                                             {"p": param("p"), "ci": param("ci"), "alpha": Sym("alpha", ("float", "notnone")), "n": Sym("n", ("int", "positive", "notnone"))})))
    for kw, lab in (({"fnr": param("f_in"), "fpr": param("p_in"), "thresholds": param("t_in")}, "supplied"), ({}, "default")):
        out.append(("roc_curve.roc[%s]" % lab, RCM + "roc", lambda kw=kw: ev.call(ctx.fn(RCM + "roc"), [S()], dict(kw))))
    return out


def positive_control(chk):
    """The purity rule must fire on a tiny embedded example (a rule with expected count zero)."""
    src = ("import numpy as np\n"
           "def f(x, r):\n"
           "    r = np.asarray(r)\n"
           "    r /= 2\n"
           "    y = x[..., 0]\n"
           "    y[0] = 1\n"
           "    x.sort()\n"
           "    return r\n")
    d = tempfile.mkdtemp(prefix="sa_ctrl_")
    try:
        os.makedirs(os.path.join(d, "ctrlpkg"))
        with open(os.path.join(d, "ctrlpkg", "__init__.py"), "w") as fh:
            fh.write(src)
        from ..progdb import ProgramDB
        db = ProgramDB(d, "ctrlpkg")
        ev = Evaluator(db)
        fn = ev.make_function(db.function("ctrlpkg.f"), None)
        outs = ev.explore(lambda: ev.call(fn, [param("x"), param("r")], {}))
        n = sum(len(mutation_findings(o)) for o in outs)
    finally:
        import shutil
        shutil.rmtree(d, ignore_errors=True)
    if n >= 3:
        chk.hold("R10.1", "positive-control", "embedded example with 3 in-place writes to caller arrays is flagged %d times" % n, nontrivial=False)
    else:
        chk.unknown("R10.1", "positive control failed: only %d of 3 seeded in-place writes detected" % n)


def run(ctx, chk, tier):
    from . import c01 as _c01
    _c01.flag_identity(ctx, chk)   # direction flags: identity comparisons need BinaryLabel members on every construction path
    chk.rule_text = ("one purity obligation per public deterministic callable (symbolic arguments, all paths): no in-place write reaches caller/receiver storage, no attribute re-binding, "
                     "no RNG; shape/elementwise obligations for cm, 6 rates, 12 threshold setters, pointwise_cm; alias forwarding; non-trivial = callable has array parameters")
    chk.explanation = ("Alias/effect analysis on the abstract evaluator: every value's storage root is followed through view operators (asarray, reshape, basic slicing) to a "
                       "parameter or receiver attribute; subscript stores, augmented assignments, out= arguments, .sort()/.fill() and shuffle on such storage are reported, as are "
                       "attribute stores outside constructors and any random draw reachable from a deterministic query (the per-group cache dict of GroupScores is the tabled "
                       "exception). Shape preservation: cm() writes cells (..., i, j) of a (*threshold.shape, 2, 2) buffer with terms that are elementwise in the threshold; rates and "
                       "thresholds are elementwise in their argument (no reducing / re-arranging operator applied to it).")
    chk.trusted |= {"view vs copy facts of the library model (asarray/reshape/basic slicing are views; astype/copy/arithmetic/fancy indexing are fresh)"}
    chk.assumptions = ["dtype effects (integer truncation when .astype(float) is dropped) are outside the model"]
    positive_control(chk)
    n = purity(ctx, chk)
    global_state_rule(ctx, chk)
    if n < 170:
        chk.unknown("R10.1", "only %d callables analysed (hand-confirmed floor 170 of 177)" % n)
    shapes_and_aliases(ctx, chk)
    # the per-class queries of a vectorised multi-class ConfusionMatrix go through one_vs_all(): each (..., j, 2, 2) slab is built from the
    # cells of ITS OWN matrix (sums over the last two axes only - a sum over all axes mixes the elements of the stack)
    from . import c05 as _c05
    _c05.check_one_vs_all(ctx, chk)


def memo_rule(ctx, chk, outs, q, label, rule="R10.1"):
    """Apply the memo soundness clauses (key determines value; no dependence on re-bindable receiver state) to explored outcomes."""
    seen = set()
    n = 0
    for o in outs:
        for kind, msg, e in mutation_findings(o, False, ctx.db):
            if kind.startswith("memo") and (kind, msg) not in seen:
                seen.add((kind, msg))
                chk.violation(rule, q, "%s:%s:%s" % (label, kind, msg[:70]), msg, "a per-object memo entry is determined by its key and by state nothing re-binds",
                              "%s line %s" % (ctx.where(q), getattr(e.get("node"), "lineno", "?")))
        n += sum(1 for e in o.events if e["kind"] == "dict_store" and not e["in_init"])
    if not seen:
        chk.hold(rule, label + ":memo", "%d memo store(s) on %d path(s): each determined by its key" % (n, len(outs)), nontrivial=n > 0)


MUTABLE_CTORS = {"dict", "list", "set", "defaultdict", "OrderedDict", "Counter", "deque", "WeakValueDictionary", "WeakKeyDictionary", "bytearray"}
MUTATORS = {"append", "extend", "insert", "add", "update", "setdefault", "pop", "popitem", "clear", "remove", "discard", "appendleft", "sort", "reverse"}


def global_state(db, modules=None):
    """Module-level mutable containers that function bodies write to, and functools caches: [(module, name, writer qualname, line, how, key source)]."""
    out = []
    for mq, mi in db.modules.items():
        if modules is not None and not any(mq.endswith(m) for m in modules):
            continue
        tree = mi.tree if hasattr(mi, "tree") else None
        if tree is None:
            continue
        cands = {}
        for st in tree.body:
            tg, val = None, None
            if isinstance(st, ast.Assign) and len(st.targets) == 1 and isinstance(st.targets[0], ast.Name):
                tg, val = st.targets[0].id, st.value
            elif isinstance(st, ast.AnnAssign) and isinstance(st.target, ast.Name) and st.value is not None:
                tg, val = st.target.id, st.value
            if tg is None:
                continue
            mutable = isinstance(val, (ast.Dict, ast.List, ast.Set, ast.DictComp, ast.ListComp, ast.SetComp)) or \
                (isinstance(val, ast.Call) and ast.unparse(val.func).split(".")[-1] in MUTABLE_CTORS)
            if mutable:
                cands[tg] = st.lineno
        for fn in [n for n in ast.walk(tree) if isinstance(n, (ast.FunctionDef, ast.AsyncFunctionDef))]:
            for d in fn.decorator_list:
                src = ast.unparse(d)
                if src.split("(")[0].split(".")[-1] in ("lru_cache", "cache", "cached_property"):
                    first = fn.args.args[0].arg if fn.args.args else ""
                    is_method = first in ("self", "cls") or src.split("(")[0].split(".")[-1] == "cached_property"
                    out.append((mq, fn.name, mq + "." + fn.name, fn.lineno, "@" + src,
                                "self (the object, not its state)" if is_method else "value-keyed cache of a module-level function"))
            if not cands:
                continue
            for n in ast.walk(fn):
                name, how, keysrc = None, None, ""
                if isinstance(n, (ast.Assign, ast.AugAssign, ast.Delete)):
                    tgs = n.targets if isinstance(n, (ast.Assign, ast.Delete)) else [n.target]
                    for t in tgs:
                        if isinstance(t, ast.Subscript) and isinstance(t.value, ast.Name) and t.value.id in cands:
                            name, how, keysrc = t.value.id, "subscript store", ast.unparse(t.slice)
                elif isinstance(n, ast.Call) and isinstance(n.func, ast.Attribute) and isinstance(n.func.value, ast.Name) and n.func.value.id in cands \
                        and n.func.attr in MUTATORS:
                    name, how = n.func.value.id, "." + n.func.attr + "()"
                    keysrc = ast.unparse(n.args[0]) if n.args else ""
                elif isinstance(n, ast.Global) and any(x in cands for x in n.names):
                    name, how = [x for x in n.names if x in cands][0], "global re-binding"
                if name:
                    # resolve a key variable to its defining expression inside the function, if it is a plain local
                    ksrc = keysrc
                    defs = [ast.unparse(a.value) for a in ast.walk(fn)
                            if isinstance(a, ast.Assign) and len(a.targets) == 1 and isinstance(a.targets[0], ast.Name) and a.targets[0].id == keysrc]
                    if defs:
                        ksrc = " | ".join(defs)   # every definition of the key variable (a fallback `key = None` does not hide the real one)
                    out.append((mq, name, mq + "." + fn.name, n.lineno, how, ksrc))
    return out


DATA_ATTRS = ("pos", "neg", "pos_groups", "neg_groups", "matrix")


def copy_derivations(ctx, chk, rule="R10.1"):
    """An object derived by a SHALLOW COPY of an existing one (`x = copy.copy(self)`, then `x.pos = ...`) shares every attribute it does not
    re-bind - also the lazily filled per-object caches computed from the data it replaces.  Each such cache (an attribute that some
    non-constructor method of the hierarchy fills and whose filler reads the replaced data) must be re-bound on the copy in the same function.
    (A constructor call initialises everything; a copy that keeps the data unchanged may keep the caches.)"""
    if getattr(chk, "_copy_derivations_done", False):
        return
    chk._copy_derivations_done = True
    db = ctx.db
    n_sites = 0
    for mi in db.modules.values():
        for c in mi.classes.values():
            hier = [k for m2 in db.modules.values() for k in m2.classes.values() if (c in k.mro() or k in c.mro())]
            # lazily filled attributes of the hierarchy and what their fillers read
            lazy = {}
            for k in hier:
                for mname, m in k.methods.items():
                    if mname == "__init__":
                        continue
                    if any(d.split(".")[-1] == "cached_property" for d in m.decorators):
                        # functools.cached_property keeps its value in the instance __dict__ under the method's name: a shallow copy carries it
                        lazy.setdefault(mname, set()).update(self_reads(k, m))
                    for node in ast.walk(m.node):
                        tg = node.targets if isinstance(node, ast.Assign) else [node.target] if isinstance(node, ast.AnnAssign) else []
                        for t in tg:
                            for x in ast.walk(t):
                                if isinstance(x, ast.Attribute) and isinstance(x.value, ast.Name) and x.value.id == "self" and isinstance(x.ctx, ast.Store) and x.attr not in DATA_ATTRS:
                                    lazy.setdefault(x.attr, set()).update(self_reads(k, m))
                                # dict-valued caches filled by item stores: self._cache[key] = value
                                if isinstance(x, ast.Subscript) and isinstance(x.value, ast.Attribute) and isinstance(x.value.value, ast.Name) and x.value.value.id == "self" \
                                        and isinstance(x.ctx, ast.Store):
                                    lazy.setdefault(x.value.attr, set()).update(self_reads(k, m))
            for mname, m in c.methods.items():
                copies = set()
                for node in ast.walk(m.node):
                    if isinstance(node, ast.Assign) and len(node.targets) == 1 and isinstance(node.targets[0], ast.Name) and isinstance(node.value, ast.Call):
                        f = node.value.func
                        nm = f.attr if isinstance(f, ast.Attribute) else getattr(f, "id", None)
                        if nm == "copy" and len(node.value.args) == 1 and isinstance(node.value.args[0], ast.Name) and node.value.args[0].id == "self":
                            copies.add(node.targets[0].id)
                for cp in sorted(copies):
                    stores = set()
                    for node in ast.walk(m.node):
                        tg = node.targets if isinstance(node, ast.Assign) else [node.target] if isinstance(node, (ast.AnnAssign, ast.AugAssign)) else []
                        for t in tg:
                            for x in ast.walk(t):
                                if isinstance(x, ast.Attribute) and isinstance(x.value, ast.Name) and x.value.id == cp and isinstance(x.ctx, ast.Store):
                                    stores.add(x.attr)
                        # swaps written as tuple assignment are Assign nodes too (covered); setattr(cp, "name", v):
                        if isinstance(node, ast.Call) and getattr(node.func, "id", None) == "setattr" and len(node.args) >= 2 and isinstance(node.args[0], ast.Name) \
                                and node.args[0].id == cp and isinstance(node.args[1], ast.Constant):
                            stores.add(node.args[1].value)
                    replaced = sorted(a for a in stores if a in DATA_ATTRS)
                    if not replaced:
                        continue
                    n_sites += 1
                    q = c.qualname + "." + mname
                    kept = sorted(a for a, reads in lazy.items() if a not in stores and (set(replaced) & reads))
                    if kept:
                        chk.violation(rule, q, "%s:shallow-copy-keeps-cache:%s" % (mname, kept[0]),
                                      "%s = copy.copy(self) re-binds %s but keeps the parent's self.%s (filled lazily from %s)" % (cp, ", ".join(replaced), kept[0], ", ".join(sorted(set(replaced) & lazy[kept[0]]))),
                                      "a derived object starts with empty caches (construct it, or reset every lazily filled attribute on the copy)",
                                      "%s:%d" % (mi.relpath, m.node.lineno))
                    else:
                        chk.hold(rule, "copy-derivation:%s" % q.split(".", 2)[-1], "the copy re-binds %s and every lazily filled attribute computed from them" % ", ".join(replaced), nontrivial=False)
    if n_sites == 0:
        chk.hold(rule, "copy-derivations", "no object is derived by a shallow copy that replaces its data", nontrivial=False)


_MUTATORS = {"setdefault", "update", "append", "extend", "insert", "add", "pop", "popitem", "clear", "remove", "discard", "sort", "reverse", "appendleft"}


def class_level_state(ctx, chk, rule="R10.1"):
    """A mutable container bound at CLASS level is one object shared by every instance (and every subclass): a method that writes into it
    through `self.<name>` / `cls.<name>` (item store, setdefault / update / append ...) makes the behaviour of one object depend on which
    objects were built or queried before it.  Containers that are only read (lookup tables) are fine; so is a name re-bound per instance in
    __init__ (the instance attribute shadows the class attribute)."""
    if getattr(chk, "_class_level_state_done", False):
        return
    chk._class_level_state_done = True
    n = 0
    for mi in ctx.db.modules.values():
        for c in mi.classes.values():
            shared = {}
            for name, v, _a in getattr(c, "assigns", []):
                mutable = isinstance(v, (ast.Dict, ast.List, ast.Set, ast.DictComp, ast.ListComp, ast.SetComp)) or (
                    isinstance(v, ast.Call) and ast.unparse(v.func).split(".")[-1] in ("dict", "list", "set", "defaultdict", "OrderedDict", "deque", "Counter"))
                if mutable:
                    shared[name] = v
            if not shared:
                continue
            init = c.methods.get("__init__")
            rebound = set()
            if init is not None:
                for x in ast.walk(init.node):
                    if isinstance(x, ast.Attribute) and isinstance(x.value, ast.Name) and x.value.id == "self" and isinstance(x.ctx, ast.Store):
                        rebound.add(x.attr)
            for name in sorted(set(shared) - rebound):
                n += 1
                writes = []
                for mname, m in c.methods.items():
                    aliases = set()
                    for x in ast.walk(m.node):
                        if isinstance(x, ast.Assign) and len(x.targets) == 1 and isinstance(x.targets[0], ast.Name) and isinstance(x.value, ast.Attribute) \
                                and isinstance(x.value.value, ast.Name) and x.value.value.id in ("self", "cls") and x.value.attr == name:
                            aliases.add(x.targets[0].id)

                    def is_ref(e, aliases=aliases):
                        return (isinstance(e, ast.Attribute) and isinstance(e.value, ast.Name) and e.value.id in ("self", "cls", c.name) and e.attr == name) or \
                            (isinstance(e, ast.Name) and e.id in aliases)
                    for x in ast.walk(m.node):
                        if isinstance(x, ast.Call) and isinstance(x.func, ast.Attribute) and x.func.attr in _MUTATORS and is_ref(x.func.value):
                            writes.append((mname, x.lineno, ".%s()" % x.func.attr))
                        if isinstance(x, ast.Subscript) and isinstance(x.ctx, (ast.Store, ast.Del)) and is_ref(x.value):
                            writes.append((mname, x.lineno, "item store"))
                        if isinstance(x, ast.AugAssign) and is_ref(x.target):
                            writes.append((mname, x.lineno, "augmented assignment"))
                if writes:
                    mname, line, how = writes[0]
                    chk.violation(rule, c.qualname + "." + mname, "class-level-state:%s.%s" % (c.name, name),
                                  "%s.%s is a mutable container bound at class level; %s writes into it (%s)" % (c.name, name, mname, how),
                                  "per-object state (bound in __init__) or a read-only table: a shared container carries one object's settings into the next",
                                  "%s:%d" % (mi.relpath, line))
                else:
                    chk.hold(rule, "class-level:%s.%s" % (c.name, name), "class-level container is only read", nontrivial=False)
    if n == 0:
        chk.hold(rule, "class-level-state", "no mutable container is bound at class level", nontrivial=False)


def global_state_rule(ctx, chk, rule="R10.1", modules=None, strict=True):
    """No state outlives a call: module-level containers written by functions (and functools caches) make results depend on the call history.
    strict: any such state is a violation; otherwise identity-keyed memos (id()/hash()/repr of an argument in the key) are violations and the rest is INCONCLUSIVE."""
    copy_derivations(ctx, chk, rule)
    class_level_state(ctx, chk, rule)
    finds = global_state(ctx.db, modules)
    for mq, name, writer, line, how, ksrc in finds:
        if ksrc == "value-keyed cache of a module-level function":
            # functools cache of a module-level function: keyed by the (hashable) argument values; unobservable when the function is pure
            chk.hold(rule, "functools-cache:%s" % name, "%s on a module-level function: keyed by argument values" % how, nontrivial=False)
            continue
        if ksrc.startswith("self (the object") and "cached_property" in how:
            # a per-object cached_property: coherent (and unobservable) iff nothing it depends on is re-bound later without dropping the entry
            owner = None
            for mi in ctx.db.modules.values():
                for c in mi.classes.values():
                    m_ = c.methods.get(name)
                    if m_ is not None and mi.qualname == mq and m_.node.lineno == line:
                        owner, fi_ = c, m_
            if owner is not None:
                stale = stale_cache_attrs(ctx.db, owner, fi_, name)
                if not stale:
                    chk.hold(rule, "cached-property:%s" % name, "cached_property %s reads no attribute that is re-bound without invalidating it" % name, nontrivial=False)
                else:
                    chk.violation(rule, writer, "global-state:%s:stale-cache" % name, "%s %s depends on self.%s, which %s re-binds without dropping the cached value" % (how, name, stale[0][0], stale[0][1]),
                                  "repeating a query returns the result for the object's current scores", "%s line %d" % (mq, line))
                continue
        ident = any(tok in ksrc for tok in ("id(", "hash(", "repr(", "self (the object"))
        msg = "module-level %s written by %s (%s%s)" % (name, writer.split(".")[-1], how, ", key " + ksrc[:80] if ksrc else "")
        if ident:
            chk.violation(rule, writer, "global-state:%s:%s" % (name, "identity-key" if ident else "state"),
                          msg + (" — the key identifies an object, not its content: an in-place edit or a recycled id returns the stale entry" if ident else ""),
                          "no state outlives a call (results are functions of the arguments and the receiver)", "%s line %d" % (mq, line))
        else:
            chk.unknown(rule, msg + ": hidden cross-call state is not decided")
    if not finds:
        chk.hold(rule, "no-global-state" + ("" if modules is None else ":" + ",".join(modules)), "no module-level mutable container is written from a function body; no functools cache", nontrivial=False)


MERGE_FLAG = True   # see purity(): scalar guard-clause helpers are summarised inside the effect sweep
TOLERANCE_FNS = {"isclose", "allclose", "m:round", "round", "around"}
_SIZE_FNS = {"len", "shape", "ndim", "size", "attr:shape", "attr:ndim", "attr:size", "attr:dtype"}


def _value_syms(v, out):
    """Symbols a term depends on through their VALUES (not merely through their length / shape / dtype)."""
    from ..evalr import Obj as _Obj
    if isinstance(v, Sym):
        out.add(v)
    elif isinstance(v, Num):
        for a in v.poly.atoms():
            _value_syms(a, out)
    elif isinstance(v, App):
        if v.fn in _SIZE_FNS:
            return
        for a in v.args:
            _value_syms(a, out)
        for _k, a in v.kw:
            _value_syms(a, out)
    elif isinstance(v, Tup):
        for a in v.items:
            _value_syms(a, out)
    elif isinstance(v, Star):
        _value_syms(v.inner, out)


def _terms_of(v, depth=0):
    from ..evalr import Obj as _Obj, Lst as _Lst
    if depth > 4:
        return
    if isinstance(v, V):
        yield v
    elif isinstance(v, _Obj):
        for a in v.attrs.values():
            yield from _terms_of(a, depth + 1)
    elif isinstance(v, _Lst):
        for a in v.items:
            yield from _terms_of(a, depth + 1)


def tolerance_findings(o):
    """Approximate comparisons (np.isclose / allclose / rounding) of the query's exact inputs - the scores, the threshold, the target -
    that steer the result.  Every property quantifies over ties, one-ulp neighbours and arbitrary magnitudes of these inputs, so a decision
    taken 'up to 1e-5 relative' is wrong for inputs in the quantifier (numpy's default rtol is relative to the MAGNITUDE of the scores).
    Comparisons of derived ratios of COUNTS (eer's isclose of the two hard fractions) do not involve an exact input and are not reported."""
    out = []
    roots = [c for c, _t in o.pc] + list(_terms_of(o.value))
    for e in o.events:      # loop iterables, appended values, stored values: whatever the path computed with
        if e["kind"] in ("for", "list_append", "elem_append", "store", "inplace", "while_iter"):
            roots += [x for x in e.values() if isinstance(x, V)]
    seen = set()
    for r in roots:
        found = []
        walk(r, lambda x: found.append(x) if isinstance(x, App) and x.fn in TOLERANCE_FNS else None)
        for a in found:
            if a.key in seen:
                continue
            seen.add(a.key)
            syms = set()
            _value_syms(a, syms)
            exact = sorted((s_ for s_ in syms if ("param" in s_.tags and "array" in s_.tags) or s_.name in ("pos", "neg") or "param_scalar" in s_.tags), key=lambda s_: s_.name)
            if exact:
                out.append(("tolerance-comparison", "%s compares %s only up to a tolerance" % (show(a, 90), ", ".join(x.name for x in exact[:3])), {"node": None}))
    return out


def purity(ctx, chk, only=None, strict=None):
    """strict (C10 itself): any hidden per-object state is a mutation of the object.  Non-strict (prerequisite of other
    properties): a memo is accepted when its key determines the stored value (memo_unsound)."""
    if strict is None:
        strict = only is None
    n = 0
    if only is not None and any(p_.startswith(("Scores.", "GroupScores.")) for p_ in only):
        # functools caches (cached_property / lru_cache) in the modules behind the explored methods must be coherent: the evaluator gives a
        # cached_property the value semantics of a property, so staleness is decided here (FraudScores' setters re-bind pos / neg)
        global_state_rule(ctx, chk, rule="R10.1", modules=("scores", "group_scores"), strict=False)
    for label, q, thunk in targets(ctx):
        if only is not None and not any(label.startswith(p_) for p_ in only):
            continue
        try:
            # the sweep reads effects, not values: scalar `if c: return a / return b` helpers called from the target are summarised
            # as one selected value instead of one path per outcome (keeps guard-clause forms of the ratio properties from multiplying eer's paths)
            ctx.ev.merge_scalar_returns = MERGE_FLAG
            try:
                outs = ctx.explore(thunk, chk)
            finally:
                ctx.ev.merge_scalar_returns = False
        except Exception as e:  # noqa: BLE001
            chk.unknown("R10.1", "%s: %s" % (label, str(e)[:160]))
            continue
        n += 1
        finds = []
        rng = []
        for o in outs:
            finds += mutation_findings(o, strict, ctx.db)
            finds += tolerance_findings(o)
            rng += [e for e in o.events if e["kind"] == "rng"]
        # one array reachable through two live local names, one of them updated in place (invisible to the value-numbered terms)
        try:
            fi_ = ctx.db.function(q)
        except Exception:  # noqa: BLE001
            fi_ = None
        if fi_ is not None:
            from ..alias import shared_buffer_findings
            helpers = dict((nm_, f_.node) for nm_, f_ in (fi_.cls.methods.items() if fi_.cls is not None else ()))
            helpers.update((nm_, f_.node) for nm_, f_ in fi_.module.functions.items())
            classes_ = {nm_: c_.node for nm_, c_ in fi_.module.classes.items()}
            for line_, text_ in shared_buffer_findings(fi_.node, helpers, classes_):
                class _N:  # noqa: N801
                    lineno = line_
                finds.append(("shared-buffer", text_, {"node": _N}))
        seen = set()
        for kind, msg, e in finds:
            k = (kind, msg)
            if k in seen:
                continue
            seen.add(k)
            chk.violation("R10.1", q, "%s:%s:%s" % (label, kind, msg[:70]), msg,
                          "exact comparisons of scores / thresholds / targets (ties and one-ulp neighbours are in the quantifier)" if kind == "tolerance-comparison" else "no query mutates the object or caller-supplied arrays",
                          "%s line %s" % (ctx.where(q), getattr(e.get("node"), "lineno", "?")))
        if rng:
            chk.violation("R10.1", q, label + ":rng", "random draw %s reachable" % rng[0]["fn"], "deterministic query (repeat gives identical results)",
                          "%s line %s" % (ctx.where(q), getattr(rng[0].get("node"), "lineno", "?")))
        if not finds and not rng:
            chk.hold("R10.1", label, "no write to caller/receiver storage, no attribute re-binding, no RNG on %d path(s)" % len(outs))
    return n


def pointwise_shape_rule(ctx, chk, rule="R10.2"):
    # pointwise_cm: shape scores.shape + threshold.shape + (2, 2) through the flatten / restore pair
    pw = ctx.fn("score_analysis.scores.pointwise_cm")
    L_, S_, T_ = param("labels"), param("scores"), param("threshold")
    outs = ctx.explore(lambda: ctx.ev.call(pw, [L_, S_, T_], {}), chk)
    rets = returns(outs)
    if len(rets) != 1:
        chk.unknown(rule, "pointwise_cm: %d return paths" % len(rets))
    else:
        v = rets[0].value
        targets_ = []
        while isinstance(v, App) and v.fn == "reshape":
            targets_.append(v.args[1])
            v = v.args[0]
        want_final = Tup([Star(App("shape", (S_,))), Star(App("shape", (T_,))), Const(2), Const(2)])
        buf = libmodel.shape_of(v)
        flatS = App("reshape", (S_, Const(-1)))
        flatT = App("reshape", (T_, Const(-1)))
        want_buf = Tup([App("size", (App("getitem", (flatS, Tup([App("slice", (Const(None), Const(None), Const(None))), Const(None)]))),)),
                        App("size", (App("getitem", (flatT, Tup([Const(None), App("slice", (Const(None), Const(None), Const(None)))]))),)), Const(2), Const(2)])
        ok = bool(targets_) and targets_[0] == want_final and buf is not None and len(buf.items) == 4 and buf.items[2:] == (Const(2), Const(2))
        mids_ok = all(isinstance(t_, Tup) and t_.items[-2:] == (Const(2), Const(2)) for t_ in targets_)
        # the row-major restore to S.shape + T.shape needs the SCORES axis first in the flat buffer
        if ok:
            a0, a1 = set(atoms_of(buf.items[0])), set(atoms_of(buf.items[1]))
            if not (S_ in a0 and T_ not in a0 and T_ in a1 and S_ not in a1):
                chk.violation(rule, "score_analysis.scores.pointwise_cm", "buffer-axis-order", "flat buffer of shape %s restored to %s" % (show(buf, 160), show(targets_[0], 120)),
                              "a (scores, thresholds, 2, 2) buffer: reshaping a thresholds-first buffer to scores.shape + threshold.shape scrambles samples and thresholds",
                              ctx.where("score_analysis.scores.pointwise_cm"))
                ok = False
                targets_ = []
        reord = [a for a in atoms_of(rets[0].value) if isinstance(a, App) and a.fn.startswith("reorder:")]
        if reord:
            chk.violation(rule, "score_analysis.scores.pointwise_cm", "element-order", show(reord[0], 120),
                          "inputs flattened in logical (row-major) order, so that entry [i..., j...] belongs to scores[i...] and threshold[j...] for any memory layout",
                          ctx.where("score_analysis.scores.pointwise_cm"))
        elif ok and mids_ok:
            chk.hold(rule, "pointwise_cm:shape", "result reshaped to scores.shape + threshold.shape + (2, 2) from a (S, T, 2, 2) buffer (row-major, scores first)")
        elif targets_ and isinstance(targets_[0], Tup):
            chk.violation(rule, "score_analysis.scores.pointwise_cm", "shape", "final reshape target %s from buffer %s" % (show(targets_[0], 160), show(buf, 120) if buf is not None else "?"),
                          show(want_final, 160), ctx.where("score_analysis.scores.pointwise_cm"))
        elif buf is not None and len(buf.items) == 4 and not targets_:
            pass    # reported above
        else:
            chk.unknown(rule, "pointwise_cm: shape restoration not recognised: %s" % show(rets[0].value, 160))


def shapes_and_aliases(ctx, chk):
    # ---------------- R10.2 shapes / elementwise
    for sc, ec in GAMMAS:
        outs = ctx.explore(lambda: ctx.ev.call(ctx.method(ctx.scores_obj(sc, ec), "cm"), [T], {}), chk)
        rets = returns(outs)
        inst0 = "cm:%s/%s" % (sc, ec)
        if not rets or len(rets) > 6 or not all(isinstance(o.value, Obj) for o in rets):
            chk.unknown("R10.2", "%s: %d return paths" % (inst0, len(rets)))
            continue
        # reductions without an identity (min / max / argmin / argmax without `initial=`) over an array shaped like the threshold raise
        # "zero-size array to reduction operation" for thresholds with a size-0 axis, which the quantifier includes
        seen_red = set()
        for o in outs:
            for c, _t in o.pc:
                for a in [c] + list(atoms_of(c)):
                    if isinstance(a, App) and a.fn in ("amin", "amax", "argmin", "argmax", "nanmin", "nanmax") and a.kwd("initial") is None and a.args:
                        sh_a = libmodel.shape_of(a.args[0])
                        if sh_a is not None and any(isinstance(i_, Star) and any(x == T for x in atoms_of(i_.inner)) for i_ in sh_a.items) and a.fn not in seen_red:
                            seen_red.add(a.fn)
                            chk.violation("R10.2", SCORES + ".cm", "%s:%s-of-threshold-shaped-array" % (inst0, a.fn),
                                          "%s(...) without an identity over an array of shape %s steers the result" % (a.fn, show(sh_a, 60)),
                                          "every threshold shape, size-0 axes included, yields a matrix (numpy raises for an empty min / max)", ctx.where(SCORES + ".cm"))
        for k, o in enumerate(rets):
            # every return path (special cases for empty / scalar thresholds included) delivers t.shape + (2, 2)
            inst = inst0 if k == 0 else "%s [path %d: %s]" % (inst0, k + 1, pc_text(o)[:70])
            m = o.value.attrs.get("matrix")
            sh = libmodel.shape_of(m)
            want = Tup([Star(App("shape", (T,))), Const(2), Const(2)])
            bad = depends_nonpointwise(m, T)
            fixed = fixed_axis_stack(m, T)
            if fixed is not None:
                chk.violation("R10.2", SCORES + ".cm", inst + ":" + fixed, "cells joined by np.%s (a FIXED axis) and reshaped to t.shape + (2, 2): %s" % (fixed, show(m, 140)),
                              "cells stacked on a NEW LAST axis (np.stack(axis=-1) / element stores at [..., i, j]): a fixed-axis join followed by reshape mixes the "
                              "counts of different thresholds once the threshold has more dimensions than the join assumes", ctx.where(SCORES + ".cm"))
                continue
            if sh is not None and sh == want and bad is None:
                chk.hold("R10.2", inst, "cm(t).shape = t.shape + (2, 2); cells written at (..., i, j) are elementwise in t")
            elif bad is not None and ("attr:T" in bad or "transpose" in bad):
                chk.violation("R10.2", SCORES + ".cm", inst, "matrix built through %s of a threshold-dependent array: %s" % (bad, show(m, 160)),
                              "element [..., i, j] depends only on the same element of the threshold (axis reversal permutes elements for rank >= 2)", ctx.where(SCORES + ".cm"))
            elif sh is not None and len(rets) > 1 and all(isinstance(i_, Const) for i_ in sh.items):
                chk.violation("R10.2", SCORES + ".cm", inst, "on this path the matrix has the fixed shape %s" % show(sh, 60),
                              "t.shape + (2, 2) for every threshold shape (empty thresholds of rank >= 2 included)", ctx.where(SCORES + ".cm"))
            else:
                chk.unknown("R10.2", "%s: matrix layout not understood (shape %s, operator %s)" % (inst, show(sh, 60) if sh is not None else "?", bad))
    pointwise_shape_rule(ctx, chk, "R10.2")
    for metric in METRICS:
        outs = explore_rate(ctx, chk, metric, "pos", "pos")
        rets = returns(outs)
        if len(rets) == 1:
            bad = depends_nonpointwise(rets[0].value, T)
            if bad is None:
                chk.hold("R10.2", "rate:" + metric, "%s(t) is elementwise in t" % metric)
            else:
                chk.unknown("R10.2", "rate %s applies %s to the threshold" % (metric, bad))
        for method in ("linear", "lower"):
            bads = [depends_nonpointwise(o.value, R) for o in returns(explore_threshold(ctx, chk, metric, "pos", "pos", method))]
            if bads and all(b is None for b in bads):
                chk.hold("R10.2", "threshold_at_%s:%s" % (metric, method), "threshold_at_%s(r) is elementwise in r" % metric)
            else:
                chk.unknown("R10.2", "threshold_at_%s applies %s to the target" % (metric, [b for b in bads if b][:1]))
    # scalar reduction present: scalar input -> plain scalar (looked for in the function and the repository helpers it calls)
    import ast as _ast

    def has_item(fi, depth=0, seen=None):
        seen = seen or set()
        if fi.qualname in seen or depth > 3:
            return False
        seen.add(fi.qualname)
        for n_ in _ast.walk(fi.node):
            if isinstance(n_, _ast.Attribute) and n_.attr == "item":
                return True
            if isinstance(n_, _ast.Call) and isinstance(n_.func, _ast.Name) and n_.func.id == "float":
                return True
        for n_ in _ast.walk(fi.node):
            if isinstance(n_, _ast.Call):
                tgt = None
                if isinstance(n_.func, _ast.Name):
                    r = ctx.db.resolve_name(fi.module, n_.func.id)
                    tgt = r if hasattr(r, "node") and hasattr(r, "qualname") and not hasattr(r, "methods") else None
                elif isinstance(n_.func, _ast.Attribute) and isinstance(n_.func.value, _ast.Name) and n_.func.value.id in ("self", "cls") and fi.cls is not None:
                    tgt = fi.cls.find_method(n_.func.attr)
                if tgt is not None and has_item(tgt, depth + 1, seen):
                    return True
        return False

    for q in [SCORES + "._threshold_at_ratio"] + ["score_analysis.metrics." + m for m in ("tpr", "tnr", "fpr", "fnr", "topr", "tonr", "ppv", "npv", "accuracy")]:
        f = ctx.db.function(q)
        if has_item(f):
            chk.hold("R10.2", "scalar:" + q.split(".")[-1], "0-d result reduced to a plain scalar (.item())", nontrivial=False)
        else:
            chk.unknown("R10.2", "%s: no scalar reduction (.item()) found in the function or its helpers" % q)
    # the reduction is taken for EVERY scalar input: numpy scalars of any width (np.float32(0.3), an element of a float32 array) are scalars too,
    # `isinstance(x, (int, float))` only knows Python numbers and np.float64
    def guard_of_item(fi):
        parents = {c_: n_ for n_ in _ast.walk(fi.node) for c_ in _ast.iter_child_nodes(n_)}
        out = []
        for n_ in _ast.walk(fi.node):
            if isinstance(n_, _ast.Attribute) and n_.attr == "item":
                p_ = n_
                while p_ in parents and not (isinstance(parents[p_], _ast.If) and p_ is not parents[p_].test) and not (isinstance(parents[p_], _ast.IfExp) and p_ is not parents[p_].test):
                    p_ = parents[p_]
                g = parents.get(p_)
                if g is None:
                    out.append((n_, None))
                    continue
                t_ = g.test
                if isinstance(t_, _ast.Name):
                    binds = [a_ for a_ in _ast.walk(fi.node) if isinstance(a_, _ast.Assign) and len(a_.targets) == 1 and isinstance(a_.targets[0], _ast.Name)
                             and a_.targets[0].id == t_.id and a_.lineno < g.lineno]
                    t_ = max(binds, key=lambda a_: a_.lineno).value if binds else t_
                out.append((n_, t_))
        return out
    for q in [SCORES + "._threshold_at_ratio"]:
        f = ctx.db.function(q)
        for site, test in guard_of_item(f):
            src = _ast.unparse(test) if test is not None else ""
            typed = test is not None and any(isinstance(c_, _ast.Call) and isinstance(c_.func, _ast.Name) and c_.func.id == "isinstance" and len(c_.args) == 2
                                             and set(_ast.unparse(c_.args[1]).strip("()").replace(" ", "").split(",")) <= {"int", "float", "complex", "bool", ""}
                                             for c_ in _ast.walk(test)) or (test is not None and any(isinstance(c_, _ast.Call) and isinstance(c_.func, _ast.Name) and c_.func.id == "type" for c_ in _ast.walk(test)))
            if typed:
                chk.violation("R10.2", q, "scalar-test:%s" % q.split(".")[-1], "the scalar reduction is guarded by `%s`" % src[:100],
                              "a test that is true for every scalar input (np.isscalar(x), x.ndim == 0): numpy scalars such as np.float32(0.3) are not instances of int / float",
                              "%s:%d" % (f.module.relpath, site.lineno))
            elif "isscalar" in src or "ndim" in src:
                chk.hold("R10.2", "scalar-test:%s" % q.split(".")[-1], "scalar reduction guarded by `%s`" % src[:60], nontrivial=False)
            else:
                chk.hold("R10.2", "scalar-test:%s" % q.split(".")[-1], "the guard of the scalar reduction (`%s`) is not a test of the Python type" % src[:60], nontrivial=False)
    # ---------------- R10.3 rate aliases are pure delegations
    for alias, tgt in ALIASES.items():
        seen = []

        def stub(ev_, fi, bound):
            seen.append(dict(bound))
            return App("TARGET", (bound["threshold"],))
        ctx.ev.stubs[SCORES + "." + tgt] = stub
        try:
            outs = ctx.explore(lambda: ctx.ev.call(ctx.method(ctx.scores_obj("pos", "pos"), alias), [T], {}), chk)
        finally:
            ctx.ev.stubs.pop(SCORES + "." + tgt, None)
        rets = returns(outs)
        if len(rets) == 1 and rets[0].value == App("TARGET", (T,)):
            chk.hold("R10.3", "%s->%s" % (alias, tgt), "alias returns %s(threshold)" % tgt)
        else:
            chk.violation("R10.3", SCORES + "." + alias, "alias-of:" + tgt, [show(o.value, 80) for o in rets], "self.%s(threshold)" % tgt, ctx.where(SCORES + "." + alias))
    from . import c02s, c17
    c02s.alias_forwarding(ctx, chk)
    # threshold_at_metric is elementwise in its targets only if invert_pl_function keeps results attached to their target index
    c17.run(ctx, chk, "quick")
    cma = ctx.db.cls(SCORES).find_assign("confusion_matrix")
    if cma is not None and ast.unparse(cma[1]) == "cm":
        chk.hold("R10.3", "confusion_matrix", "class-level alias of cm", nontrivial=False)
    else:
        chk.violation("R10.3", SCORES + ".confusion_matrix", "alias", "missing", "confusion_matrix = cm", SCORES)
