"""C19 — FraudScores is a faithful, validated genuine/fraud view of Scores (DESIGN §4 C19)."""
from __future__ import annotations

from ..evalr import Obj
from ..spec import FRAUD, SCORES, BLABEL, returns, raises, pc_text, unmodelled_text
from ..terms import (App, Const, EnumM, Num, Sym, Tup, same, show, sub, negate, to_poly, cmp0, compare, disj, atoms_of)

LEVEL = "proof"
DOCLABEL = "score_analysis.applications.doc_fraud.DocLabel"
D2B = "score_analysis.applications.doc_fraud.doc_to_binary_label"
B2D = "score_analysis.applications.doc_fraud.binary_to_doc_label"
G = Sym("genuines", ("param", "array", "notnone"))
F = Sym("frauds", ("param", "array", "notnone"))
EG = Sym("Eg", ("int", "notnone", "nonneg"))
EF = Sym("Ef", ("int", "notnone", "nonneg"))


def out_of_range_forms(x):
    """Accepted encodings of `some element of x is < 0` and `some element of x is > 1`."""
    xs = [x, App("sort", (x,))]
    low, high = set(), set()
    for a in xs:
        low.add(App("any", (cmp0("lt", to_poly(a)),)).key)
        high.add(App("any", (cmp0("lt", to_poly(sub(Const(1), a))),)).key)
    s = App("sort", (x,))
    low.add(cmp0("lt", to_poly(App("getitem", (s, Const(0))))).key)
    high.add(cmp0("lt", to_poly(sub(Const(1), App("getitem", (s, Const(-1)))))).key)
    first = App("getitem", (s, App("slice", (Const(None), Const(1), Const(None)))))
    last = App("getitem", (s, App("slice", (Const(-1), Const(None), Const(None)))))
    low.add(App("any", (cmp0("lt", to_poly(first)),)).key)
    high.add(App("any", (cmp0("lt", to_poly(sub(Const(1), last))),)).key)
    for fn, st in (("amin", low), ("amax", high)):
        a = App(fn, (x,))
        st.add(cmp0("lt", to_poly(a if fn == "amin" else sub(Const(1), a))).key)
    return low, high


def is_range_check(c, x):
    parts = list(c.args) if isinstance(c, App) and c.fn == "or" else [c]
    low, high = out_of_range_forms(x)
    keys = {p.key for p in parts}
    return len(parts) == 2 and len(keys & low) == 1 and len(keys & high) == 1


def run(ctx, chk, tier):
    from . import c10 as _c10s
    _c10s.class_level_state(ctx, chk, rule="R19.2")   # per-object configuration must not live in a container shared by all instances
    from . import c01 as _c01c
    _c01c.constructor_sorted(ctx, chk)   # FraudScores is built by Scores.__init__: sorted state, untouched inputs, normalised flags
    from . import c01 as _c01
    _c01.flag_identity(ctx, chk)   # direction flags: identity comparisons need BinaryLabel members on every construction path
    chk.rule_text = ("obligations: 8 label round trips, constructor state on every return path for both score classes, override scan of the class body, "
                     "raise-condition analysis of the range validation, from_labels split and forwarding; non-trivial = involves a source-derived term")
    chk.explanation = ("The two enums are constant-folded to show the translations are mutually inverse; FraudScores.__init__ is explored symbolically: every normal path leaves "
                       "exactly the Scores state (pos=sorted genuines, neg=sorted frauds, easy counts mapped, translated score_class, equal_class=pos) and the set of raise "
                       "conditions is exactly {some genuine outside [0,1], some fraud outside [0,1]}; the class body overrides no query method, so every query is Scores' own "
                       "code on that state; from_labels splits by == / != genuine_label on one mask source and forwards every parameter.")
    chk.trusted |= {"Enum(value) lookup by value, Enum.name", "numpy.any", "boolean mask indexing"}
    ev = ctx.ev
    # ---- R19.1 translations
    d2b, b2d = ctx.fn(D2B), ctx.fn(B2D)
    bl = {n: ctx.label(n) for n in ("pos", "neg")}
    dl = {m.name: m for m in ev.enum_members(ctx.db.cls(DOCLABEL))}
    want = {"genuine": "pos", "fraud": "neg"}
    for dname, bname in want.items():
        member = [m for m in dl.values() if m.value == Const(dname)]
        if not member:
            chk.violation("R19.1", DOCLABEL, "member:" + dname, sorted(show(m.value) for m in dl.values()), "a DocLabel with value %r" % dname, "doc_fraud.py")
            continue
        member = member[0]
        for arg, label in ((member, "enum"), (Const(dname), "str")):
            outs = ctx.explore(lambda: ev.call(d2b, [arg], {}), chk)
            r = returns(outs)
            inst = "d2b(%s:%s)" % (dname, label)
            if len(r) == 1 and r[0].value == bl[bname]:
                back = returns(ctx.explore(lambda: ev.call(b2d, [r[0].value], {}), chk))
                if len(back) == 1 and back[0].value == member:
                    chk.hold("R19.1", inst, "%s -> BinaryLabel.%s -> DocLabel(%s)" % (dname, bname, dname))
                else:
                    chk.violation("R19.1", B2D, inst + ":inverse", [show(x.value) for x in back], show(member), ctx.where(B2D))
            else:
                chk.violation("R19.1", D2B, inst, [show(x.value) for x in r], show(bl[bname]), ctx.where(D2B))
        for arg, label in ((bl[bname], "enum"), (Const(bname), "str")):
            outs = ctx.explore(lambda: ev.call(b2d, [arg], {}), chk)
            r = returns(outs)
            inst = "b2d(%s:%s)" % (bname, label)
            if len(r) == 1 and r[0].value == member:
                chk.hold("R19.1", inst, "%s -> DocLabel.%s" % (bname, member.name))
            else:
                chk.violation("R19.1", B2D, inst, [show(x.value) for x in r], show(member), ctx.where(B2D))
    chk.floor("R19.1", 8, "4 + 4 translations")
    # ---- R19.2 / R19.4 constructor
    ci = ctx.db.cls(FRAUD)
    initq = FRAUD + ".__init__"
    for sc, bname in want.items():
        outs = ctx.explore(lambda: ev.instantiate(ci, [], {"genuines": G, "frauds": F, "nb_easy_genuines": EG, "nb_easy_frauds": EF, "score_class": Const(sc)}), chk)
        rets, rs = returns(outs), raises(outs)
        if not rets or any(o.unmodelled for o in outs):
            chk.unknown("R19.2", "FraudScores(%s): %d return paths %s" % (sc, len(rets), [unmodelled_text(o) for o in outs if o.unmodelled][:1]))
            continue
        exp = {"pos": App("sort", (G,)), "neg": App("sort", (F,)), "nb_easy_pos": EG, "nb_easy_neg": EF, "score_class": bl[bname], "equal_class": bl["pos"]}
        bad = None
        from ..typestate import sortedness, pc_implies_sorted, strip_views
        for o in rets:
            for k, w in exp.items():
                g = o.value.attrs.get(k)
                if k in ("pos", "neg") and g is not None and not same(g, w):
                    # accept any provably ascending arrangement of the same input (e.g. a sort skipped under a sortedness test)
                    base = strip_views(g)
                    if base == w.args[0] and (sortedness(g) == "sorted" or pc_implies_sorted(o.pc, g)):
                        continue
                if g is None or not same(g, w):
                    bad = bad or (k, g, w)
        if bad is None:
            chk.hold("R19.2", "state:" + sc, "Scores state: pos=sort(genuines), neg=sort(frauds), easy counts mapped, score_class=%s, equal_class=pos on %d paths" % (bname, len(rets)))
        else:
            chk.violation("R19.2", initq, "state:%s:%s" % (sc, bad[0]), show(bad[1], 100) if bad[1] is not None else "unset", show(bad[2], 100), ctx.where(initq))
        # raise conditions
        conds = []
        for o in rs:
            if not (isinstance(o.value, App) and o.value.fn == "ValueError"):
                chk.violation("R19.4", initq, "raise-kind:" + sc, show(o.value, 80), "ValueError", ctx.where(initq))
            tk = [c for c, t in o.pc if t]
            conds.append(tk[-1] if tk else None)
        okg = [c for c in conds if c is not None and is_range_check(c, G)]
        okf = [c for c in conds if c is not None and is_range_check(c, F)]
        other = [c for c in conds if c is None or not (is_range_check(c, G) or is_range_check(c, F))]
        if okg and okf and not other:
            neg_ok = all(any(is_range_check(c, G) and not t for c, t in o.pc) and any(is_range_check(c, F) and not t for c, t in o.pc) for o in rets)
            if neg_ok:
                chk.hold("R19.4", "validation:" + sc, "ValueError iff any(genuines<0)|any(genuines>1) or any(frauds<0)|any(frauds>1)")
            else:
                chk.violation("R19.4", initq, "validation:%s:return-paths" % sc, "a normal path does not exclude the out-of-range conditions", "all normal paths have both range checks false", ctx.where(initq))
        else:
            chk.violation("R19.4", initq, "validation:" + sc, "raise conditions: %s" % [show(c, 140) if c is not None else "unconditional" for c in conds],
                          "exactly {any(genuines<0)|any(genuines>1), any(frauds<0)|any(frauds>1)}", ctx.where(initq))
    # ---- R19.3 no query overrides
    allowed = {"__init__", "genuines", "frauds", "from_labels"}
    sci_ = ctx.db.cls(SCORES)
    inherited = set()
    for b in sci_.mro():
        inherited |= set(b.methods)
    # an override is a method of the same name as an inherited query; new private helpers are not overrides
    extra = sorted((set(ci.methods) - allowed) & inherited)
    base_ok = [b.qualname if hasattr(b, "qualname") else str(b) for b in ci.bases] == [SCORES]
    # class attributes count as well: a class-level constant of Scores (a range, a flag, a hook table) re-defined in FraudScores changes what
    # the inherited methods compute for the view
    base_attrs = set()
    for b in sci_.mro():
        base_attrs |= {n for n, _v, _a in getattr(b, "assigns", [])}
    extra += sorted("class attribute " + n for n, _v, _a in getattr(ci, "assigns", []) if n in base_attrs and not (n.startswith("__") and n.endswith("__")))
    if not extra and base_ok:
        chk.hold("R19.3", "no-overrides", "FraudScores(Scores) defines %s: none overrides an inherited query" % sorted(ci.methods), nontrivial=False)
    else:
        chk.violation("R19.3", FRAUD, "overrides", "extra methods %s, bases %s" % (extra, [str(b) for b in ci.bases]), "no inherited query overridden (only __init__, the alias properties, from_labels and new helpers); base Scores", FRAUD)
    for prop, attr in (("genuines", "pos"), ("frauds", "neg")):
        o = Obj(ci)
        X = Sym("X_" + attr, ("attr", "array"))
        o.attrs[attr] = X
        outs = ctx.explore(lambda: ev.getattr(o, prop), chk)
        r = returns(outs)
        if len(r) == 1 and r[0].value == X:
            chk.hold("R19.3", "alias:" + prop, "%s aliases self.%s" % (prop, attr))
        else:
            chk.violation("R19.3", FRAUD + "." + prop, "alias", [show(x.value, 60) for x in r], "self." + attr, FRAUD)
    # ---- R19.5 from_labels
    labels, scores, gl = Sym("labels", ("param", "array", "notnone")), Sym("scores", ("param", "array", "notnone")), Sym("genuine_label", ("param_scalar", "notnone"))
    scls = Sym("score_class_arg", ("str", "notnone"))
    seen = []

    def stub(ev_, fi, bound):
        seen.append(bound)
        return Const(None)

    ev.stubs[initq] = stub
    try:
        fl = ev.getattr(ev.global_value(ctx.db.module("score_analysis.applications.doc_fraud"), "FraudScores"), "from_labels")
        outs = ctx.explore(lambda: ev.call(fl, [labels, scores], {"genuine_label": gl, "nb_easy_genuines": EG, "nb_easy_frauds": EF, "score_class": scls}), chk)
    finally:
        ev.stubs.pop(initq, None)
    flq = FRAUD + ".from_labels"
    if len(seen) != 1:
        chk.unknown("R19.5", "from_labels constructs %d FraudScores objects" % len(seen))
    else:
        b = seen[0]
        exp = {"genuines": App("getitem", (scores, compare("==", labels, gl))), "frauds": App("getitem", (scores, compare("!=", labels, gl))),
               "nb_easy_genuines": EG, "nb_easy_frauds": EF, "score_class": scls}
        bad = [(k, b.get(k), w) for k, w in exp.items() if b.get(k) is None or not same(b.get(k), w)]
        if not bad:
            chk.hold("R19.5", "from_labels", "genuines = scores[labels == genuine_label], frauds = scores[labels != genuine_label]; easy counts and score_class forwarded")
        for k, g, w in bad:
            chk.violation("R19.5", flq, "arg:" + k, show(g, 140) if g is not None else "missing", show(w, 140), ctx.where(flq))
    # labels / scores are documented as array-LIKE: a list or tuple of labels must be converted before it is compared elementwise
    # (`[..] == label` is one scalar False: every score would land in the fraud class)
    L2, S2 = Sym("labels_like", ("param", "array", "notnone", "arraylike")), Sym("scores_like", ("param", "array", "notnone", "arraylike"))
    ev.stubs[initq] = lambda ev_, fi, bound: Const(None)
    ev.mark_conversions = True
    try:
        outs2 = ctx.explore(lambda: ev.call(fl, [L2, S2], {"genuine_label": gl, "nb_easy_genuines": EG, "nb_easy_frauds": EF, "score_class": scls}), chk)
    finally:
        ev.mark_conversions = False
        ev.stubs.pop(initq, None)
    raw = [e for o in outs2 for e in o.events if e["kind"] == "raw_sequence_use"]
    if raw:
        e = raw[0]
        chk.violation("R19.5", flq, "array-like:%s" % show(e["value"], 20), "%s %s" % (show(e["value"], 20), e["what"]),
                      "labels and scores converted with np.asarray before they are compared / indexed (lists and tuples are documented inputs)",
                      "%s line %s" % (ctx.where(flq), getattr(e.get("node"), "lineno", "?")))
    elif any(o.kind == "return" for o in outs2):
        chk.hold("R19.5", "from_labels:array-like", "labels and scores are converted before any elementwise use")
    else:
        chk.unknown("R19.5", "from_labels with array-like arguments: no return path")
    alias_setters(ctx, chk, ci)
    caches_follow_setters(ctx, chk, ci)
    class_blind(ctx, chk, ci)


def alias_setters(ctx, chk, ci):
    """R19.6 writing through an alias reaches the aliased attribute: after `obj.genuines = v`, obj.pos is v (and nothing else changed); same for frauds/neg."""
    ev = ctx.ev
    for prop, attr, other in (("genuines", "pos", "neg"), ("frauds", "neg", "pos")):
        X, Y, V_ = Sym("X_" + attr, ("attr", "array")), Sym("Y_" + other, ("attr", "array")), Sym("new_value", ("param", "array", "notnone"))
        holder = {}

        def thunk():
            o = Obj(ci)
            o.attrs[attr], o.attrs[other] = X, Y
            holder["o"] = o
            ev.setattr(o, prop, V_)
            return o
        outs = ctx.explore(thunk, chk)
        r = returns(outs)
        q = FRAUD + "." + prop
        if not r and outs and all(o.kind == "raise" and isinstance(o.value, App) and o.value.fn == "AttributeError" for o in outs):
            chk.hold("R19.6", "setter:" + prop, "%s is read-only" % prop, nontrivial=False)
            continue
        if len(r) != 1 or not isinstance(r[0].value, Obj):
            chk.unknown("R19.6", "setter %s: %d return paths" % (prop, len(r)))
            continue
        o = r[0].value
        if o.attrs.get(attr) == V_ and o.attrs.get(other) == Y:
            chk.hold("R19.6", "setter:" + prop, "obj.%s = v stores v in self.%s and leaves self.%s alone" % (prop, attr, other))
        else:
            chk.violation("R19.6", q, "setter:" + prop, "self.%s = %s, self.%s = %s" % (attr, show(o.attrs.get(attr), 60), other, show(o.attrs.get(other), 60)),
                          "self.%s = v, self.%s unchanged" % (attr, other), ctx.where(FRAUD + ".__init__"))


CACHE_DECORATORS = {"cached_property", "lru_cache", "cache"}


def caches_follow_setters(ctx, chk, ci):
    """R19.8 the alias setters re-bind self.pos / self.neg after construction, so no inherited result may be cached per object without depending on
    them: a functools cache (cached_property / lru_cache / cache) on a method in the MRO whose body reads - directly or through other methods and
    properties of the class - an attribute that a setter re-binds would keep answering for the old scores."""
    import ast
    from .c10 import rebindable_attrs, attr_writers, invalidates
    rb = rebindable_attrs(ctx.db, ci)
    mro = [c for c in ci.mro() if hasattr(c, "methods")]

    def lookup(name):
        for c in mro:
            if name in c.methods:
                return c.methods[name]
        return None

    def reads(fi, depth=0, seen=None):
        seen = set() if seen is None else seen
        if fi is None or fi.qualname in seen or depth > 4:
            return set()
        seen.add(fi.qualname)
        out = set()
        for n in ast.walk(fi.node):
            if isinstance(n, ast.Attribute) and isinstance(n.value, ast.Name) and n.value.id == "self" and isinstance(n.ctx, ast.Load):
                out.add(n.attr)
                out |= reads(lookup(n.attr), depth + 1, seen)
        return out

    n_cached = 0
    for c in mro:
        for name, fi in c.methods.items():
            decos = {ast.unparse(d.func if isinstance(d, ast.Call) else d).split(".")[-1] for d in fi.node.decorator_list}
            hit = decos & CACHE_DECORATORS
            if not hit:
                continue
            n_cached += 1
            stale = sorted(a for a in reads(fi) if a in rb)
            inst = "cache:%s.%s" % (c.qualname.split(".")[-1], name)
            # a cache that every writer of the attributes it depends on drops again is coherent
            writers = attr_writers(ctx.db, ci)
            stale = [a for a in stale if not all(invalidates(w.node, name) for w in writers.get(a, []))]
            if stale:
                chk.violation("R19.8", fi.qualname, inst, "@%s result depends on self.%s, which %s re-binds after construction" % (sorted(hit)[0], stale[0], rb[stale[0]]),
                              "results of the inherited API follow the scores currently attached through the aliases (no per-object cache over re-bindable state)",
                              "%s:%d" % (fi.module.relpath, fi.node.lineno))
            else:
                chk.hold("R19.8", inst, "cached value reads no attribute that a setter re-binds")
    # state DERIVED from pos / neg in a constructor (a float copy, a pooled array) is a cache as well: the setters must refresh or drop it
    derived = {}
    for c in mro:
        init = c.methods.get("__init__")
        if init is None:
            continue
        for n in ast.walk(init.node):
            if isinstance(n, ast.Assign) and len(n.targets) == 1 and isinstance(n.targets[0], ast.Attribute) and isinstance(n.targets[0].value, ast.Name) \
                    and n.targets[0].value.id == "self" and n.targets[0].attr not in rb:
                srcs = {x.attr for x in ast.walk(n.value) if isinstance(x, ast.Attribute) and isinstance(x.value, ast.Name) and x.value.id == "self" and x.attr in rb}
                if srcs:
                    derived[n.targets[0].attr] = (sorted(srcs), init, n.lineno)
    writers = attr_writers(ctx.db, ci)
    for attr, (srcs, init, line) in sorted(derived.items()):
        lacking = [w.qualname for a in srcs for w in writers.get(a, []) if not (invalidates(w.node, attr) or any(
            isinstance(x, ast.Attribute) and isinstance(x.ctx, ast.Store) and x.attr == attr for x in ast.walk(w.node)))]
        inst = "derived:%s" % attr
        if lacking:
            chk.violation("R19.8", init.qualname, inst, "self.%s is derived from self.%s in %s, but %s re-binds self.%s without refreshing it" % (attr, srcs[0], init.qualname.split(".")[-2] + ".__init__", lacking[0], srcs[0]),
                          "no per-object copy of the scores outlives a re-binding of pos / neg through the aliases", "%s:%d" % (init.module.relpath, line))
        else:
            chk.hold("R19.8", inst, "derived attribute is refreshed by every writer of %s" % ", ".join(srcs))
    if not n_cached:
        chk.hold("R19.8", "no-functools-cache", "no functools cache on any method in the MRO of FraudScores (%d re-bindable attributes: %s)" % (len(rb), ", ".join(sorted(rb)[:6])), nontrivial=False)


def class_blind(ctx, chk, ci):
    """R19.7 inherited queries do not look at the receiver's class: the only class-sensitive construct allowed in Scores' methods is the
    name lookup getattr(type(self), name) (harmless while R19.3 holds); equality of a FraudScores view with a Scores of identical state is decided semantically."""
    import ast
    ev = ctx.ev
    sci = ctx.db.cls(SCORES)
    sites = []
    for name, fi in sorted(sci.methods.items()):
        parents = {}
        for n in ast.walk(fi.node):
            for c in ast.iter_child_nodes(n):
                parents[c] = n
        for n in ast.walk(fi.node):
            sens = None
            if isinstance(n, ast.Call) and isinstance(n.func, ast.Name) and n.func.id == "type" and len(n.args) == 1:
                p = parents.get(n)
                lookup = (isinstance(p, ast.Call) and isinstance(p.func, ast.Name) and p.func.id == "getattr" and p.args and p.args[0] is n) or \
                         (isinstance(p, ast.Attribute) and p.value is n and p.attr not in ("__name__", "__qualname__"))
                if not lookup and isinstance(p, ast.Call) and n in p.args:
                    # type(self) handed to a package helper that only does name lookups on it (`_resolve_metric(type(self), metric)`)
                    fn_ = p.func
                    hname = fn_.id if isinstance(fn_, ast.Name) else fn_.attr if isinstance(fn_, ast.Attribute) else None
                    helper = None
                    for g in ctx.db.all_functions():
                        if g.name == hname and (g.cls is None or g.cls in sci.mro()):
                            helper = g
                            break
                    if helper is not None:
                        hp = [a_.arg for a_ in helper.node.args.args if helper.cls is None or a_.arg not in ("self", "cls")]
                        idx = p.args.index(n)
                        if idx < len(hp):
                            pn = hp[idx]
                            hparents = {c_: n_ for n_ in ast.walk(helper.node) for c_ in ast.iter_child_nodes(n_)}
                            uses = [x for x in ast.walk(helper.node) if isinstance(x, ast.Name) and x.id == pn and isinstance(x.ctx, ast.Load)]
                            lookup = bool(uses) and all(isinstance(hparents.get(x), ast.Call) and isinstance(hparents[x].func, ast.Name) and hparents[x].func.id == "getattr"
                                                        and hparents[x].args and hparents[x].args[0] is x for x in uses)
                if not lookup:
                    sens = ast.unparse(p if p is not None else n)
            elif isinstance(n, ast.Attribute) and n.attr == "__class__":
                sens = ast.unparse(parents.get(n, n))
            elif isinstance(n, ast.Call) and isinstance(n.func, ast.Name) and n.func.id in ("isinstance", "issubclass") and n.args and \
                    isinstance(n.args[0], ast.Name) and n.args[0].id in ("self", "other"):
                sens = ast.unparse(n)
            if sens:
                sites.append((name, n.lineno, sens))
    # semantic decision for __eq__ (the binary query): FraudScores view vs Scores of identical state, both operand orders
    def state(cls):
        o = Obj(ctx.db.cls(cls))
        o.attrs.update(pos=G, neg=F, nb_easy_pos=EG, nb_easy_neg=EF, score_class=ctx.label("pos"), equal_class=ctx.label("pos"))
        return o
    res = {}
    for a, b in ((SCORES, SCORES), (FRAUD, SCORES), (SCORES, FRAUD)):
        outs = ctx.explore(lambda: ev.call(ctx.method(state(a), "__eq__"), [state(b)], {}), chk)
        res[(a, b)] = sorted("%s|%s" % (o.kind, show(o.value, 300) if hasattr(o.value, "key") else repr(o.value)) for o in outs)
    ref = res[(SCORES, SCORES)]
    q = SCORES + ".__eq__"
    for k, v in res.items():
        if k == (SCORES, SCORES):
            continue
        inst = "eq:%s==%s" % (k[0].split(".")[-1], k[1].split(".")[-1])
        if v == ref and ref:
            chk.hold("R19.7", inst, "same outcome as Scores == Scores of identical state: %s" % ref[0][:80])
        else:
            chk.violation("R19.7", q, inst, v, "the answer of Scores == Scores on identical state: %s" % ref, ctx.where(q))
    for name, line, text in sites:
        if name == "__eq__":
            continue  # decided semantically above
        chk.unknown("R19.7", "Scores.%s line %d looks at the receiver's class (%s): faithfulness of the FraudScores view through this query is not decided" % (name, line, text))
    chk.hold("R19.7", "class-sensitive-scan", "%d methods of Scores scanned; class-sensitive constructs outside the getattr(type(self), name) idiom: %d" % (len(sci.methods), len(sites)),
             nontrivial=False)
