"""C01 — cm(threshold) equals counting by the documented decision rule (DESIGN §4 C01)."""
from __future__ import annotations

import ast

from ..evalr import Obj, storage_root
from ..spec import (ACCEPT, CELLS, COMPLEMENT, CM, FRAUD, GAMMAS, GROUP, SCORES, T, POS, NEG, EP, EN,
                    cell, cm_oracle, exc_name, pc_text, raises, returns, unmodelled_text)
from ..terms import App, Const, Num, Sym, Tup, add, negate, same, show, to_poly, compare
from ..typestate import is_sorted, sortedness, pc_implies_sorted
from ..terms import atoms_of, is_const
from .. import libmodel

LEVEL = "proof"
CMQ = SCORES + ".cm"
PWQ = "score_analysis.scores.pointwise_cm"


def derive_cm_table(ctx, chk, sc, ec, cls=SCORES, rule="R01.1"):
    """Cells of Scores.cm(t) specialised for one configuration, or None."""
    outs = ctx.explore(lambda: ctx.ev.call(ctx.method(ctx.scores_obj(sc, ec, cls), "cm"), [T], {}), chk)
    rets = returns(outs)
    for o in raises(outs):
        if not o.pc or exc_name(o) == "TypeError":
            chk.violation(rule, CMQ, "%s/%s:raises" % (sc, ec), "%s when %s" % (show(o.value), pc_text(o)),
                          "cm() returns a matrix for every threshold", ctx.where(CMQ))
        else:
            # a refusal that depends on the VALUE of the threshold: the quantifier covers every real threshold and +-inf (NaN is outside it)
            conds = [c for c, _t in o.pc]
            fns = {a.fn for c in conds for a in [c] + list(atoms_of(c)) if isinstance(a, App) and any(x == T for x in atoms_of(a))}
            if fns & {"isfinite", "isinf", "lt0", "le0", "eq0", "ne0", "eq", "isclose"}:
                chk.violation(rule, CMQ, "%s/%s:raises" % (sc, ec), "%s when %s" % (show(o.value, 80), pc_text(o)[:160]),
                              "cm() returns a matrix for every threshold in the quantifier (any real value, +inf and -inf included)", ctx.where(CMQ))
            elif fns and fns <= {"isnan", "any", "all", "not", "m:any", "m:all"}:
                chk.hold(rule, "%s/%s:nan-refusal" % (sc, ec), "cm() refuses NaN thresholds only (outside the quantifier)", nontrivial=False)
            else:
                chk.unknown(rule, "cm() may raise %s under a condition outside the model: %s" % (show(o.value, 80), pc_text(o)[:200]))
    if len(rets) != 1:
        if rets:
            chk.unknown(rule, "cm() has %d return paths for %s/%s: %s" % (len(rets), sc, ec, [pc_text(o) for o in rets]))
        return None
    o = rets[0]
    if o.unmodelled:
        chk.unknown(rule, "unmodelled construct in cm(): " + unmodelled_text(o))
        return None
    res = o.value
    if not isinstance(res, Obj) or res.cls.qualname != CM:
        chk.unknown(rule, "cm() does not return a ConfusionMatrix object")
        return None
    m = res.attrs.get("matrix")
    table = {name: cell(ctx.ev, m, ij) for name, ij in CELLS.items()}
    table["_binary"] = res.attrs.get("binary")
    table["_matrix"] = m
    table["_narrow_casts"] = [e for e in o.events if e["kind"] == "narrow_cast"]
    return table


VOCAB = {"count_lt", "count_le", "len", "inv"}
# re-arrangements of the threshold that the permutation algebra of simp.mk_app did not cancel: the cell is a count at a
# PERMUTED threshold (understood, and different from the count at the threshold itself)
REARRANGE = {"getitem", "argsort", "reshape", "shape", "flatten"}


def _shifted_threshold(needle):
    """needle = T + d with d a non-zero term built from T alone (a tolerance / epsilon / ulp offset)."""
    p = to_poly(needle)
    pt = to_poly(T)
    if p is None or pt is None or needle == T:
        return False
    d = p - pt
    if not d.t or d.is_const():
        return bool(d.t) and d.const_value() != 0
    syms = {x for a in d.atoms() for x in ([a] + list(atoms_of(a))) if isinstance(x, Sym)}
    return bool(syms) and syms <= {T}


def understood(term):
    """Only counting atoms over the object's own state and the threshold."""
    permuted = any(isinstance(x, App) and x.fn == "argsort" for x in atoms_of(term))
    for a in atoms_of(term):
        if permuted and isinstance(a, App) and a.fn in REARRANGE and all((not isinstance(x, Sym)) or x == T for x in atoms_of(a)):
            continue
        if isinstance(a, App) and a.fn not in VOCAB:
            return False
        if isinstance(a, Sym) and a not in (POS, NEG, EP, EN, T):
            return False
        if not isinstance(a, (App, Sym)):
            return False
    return True


def run(ctx, chk, tier):
    chk.rule_text = ("one obligation per (configuration, cell) of the decision table derived by specialising Scores.cm / "
                     "pointwise_cm for each of the 4 (score_class, equal_class) pairs; non-trivial = derived fact contains a "
                     "source-derived counting atom")
    chk.explanation = ("Scores.cm and pointwise_cm are specialised for the four configurations by conditional constant propagation; "
                       "each matrix cell becomes a counting term (#{class scores rel threshold} + easy count) through the searchsorted "
                       "model and is compared in polynomial normal form with the documented decision rule. The counting atoms are "
                       "relation symbols, so one obligation covers every order type of (scores, threshold): ties, +-ulp, +-inf, empty arrays, any shape.")
    chk.trusted |= {"numpy.searchsorted(a,v,'left')=#{a<v}, 'right'=#{a<=v} on ascending a", "numpy.sort ascending", "numpy.asarray value identity",
                    "basic-index stores write the addressed cells"}
    chk.assumptions = ["scores contain no NaN", "integer counts do not overflow int64"]

    tables = {}
    # ---------------- R01.1 / R01.2 decision table and conservation
    for sc, ec in GAMMAS:
        tab = derive_cm_table(ctx, chk, sc, ec)
        if tab is None:
            continue
        tables[(sc, ec)] = tab
        oracle = cm_oracle(sc, ec)
        for name in ("tp", "fn", "fp", "tn"):
            inst = "%s/%s:%s" % (sc, ec, name)
            if same(tab[name], oracle[name]):
                chk.hold("R01.1", inst, "cm[%s/%s] %s = %s" % (sc, ec, name.upper(), show(tab[name])))
            elif not understood(tab[name]):
                from .c10 import depends_nonpointwise
                bad_op = depends_nonpointwise(tab["_matrix"], T) if tab.get("_matrix") is not None else None
                if bad_op in ("attr:T", "transpose"):
                    chk.violation("R01.1", CMQ, inst + ":layout", "matrix assembled through %s of a threshold-dependent array: %s" % (bad_op, show(tab["_matrix"], 160)),
                                  "cell [..., i, j] holds the count for the same threshold element (a full transpose permutes elements for thresholds of rank >= 2)", ctx.where(CMQ))
                else:
                    casts = [a for a in atoms_of(tab[name]) if isinstance(a, App) and a.fn == "fresh" and a.kwd("dtype") in (Const("other"), Const("int")) and value_root(a.args[0]) == T]
                    shifted = [a for a in atoms_of(tab[name]) if isinstance(a, App) and a.fn in ("count_lt", "count_le") and len(a.args) == 2 and _shifted_threshold(a.args[1])]
                    special = [a for a in atoms_of(tab[name]) if isinstance(a, App) and a.fn in ("isinf", "isposinf", "isneginf", "isfinite") and any(x == T for x in atoms_of(a))]
                    if special:
                        chk.violation("R01.1", CMQ, inst + ":threshold-special-case", "the cell is computed differently where %s: %s" % (show(special[0], 60), show(tab[name], 200)),
                                      "one counting rule at every threshold: scores by the comparison with the threshold (which already handles +-inf), declared easy samples always in TP / TN",
                                      ctx.where(CMQ))
                        continue
                    if shifted and not casts:
                        chk.violation("R01.1", CMQ, inst + ":threshold-shifted", "scores are counted against a moved threshold: %s" % show(shifted[0].args[1], 160),
                                      "the threshold exactly as given (a score one ulp from the threshold is in the quantifier and lies on a definite side of it)", ctx.where(CMQ))
                    elif casts:
                        chk.violation("R01.1", CMQ, inst + ":threshold-cast", "threshold cast before counting: %s" % show(casts[0], 120),
                                      "the threshold is compared as given (a cast to the scores' / an integer dtype moves a threshold that is not representable there "
                                      "onto or across a score)", ctx.where(CMQ))
                    else:
                        chk.unknown("R01.1", "cell %s of cm() is built from constructs outside the counting model: %s" % (inst, show(tab[name], 600)))
            else:
                chk.violation("R01.1", CMQ, inst, show(tab[name]), show(oracle[name]) + "   (README rule: accept iff score %s threshold)" % ACCEPT[(sc, ec)],
                              ctx.where(CMQ))
        buffer_width(ctx, chk, tab, sc, ec)
        for a, b, tot, lab in (("tp", "fn", add(App("len", (POS,)), EP), "TP+FN"), ("fp", "tn", add(App("len", (NEG,)), EN), "FP+TN")):
            s = add(tab[a], tab[b])
            if not (understood(tab[a]) and understood(tab[b])):
                continue
            if same(s, tot):
                chk.hold("R01.2", "%s/%s:%s" % (sc, ec, lab), "%s = %s" % (lab, show(s)))
            else:
                chk.violation("R01.2", CMQ, "%s/%s:%s" % (sc, ec, lab), show(s), show(tot) + " (threshold-free)", ctx.where(CMQ))
        if tab["_binary"] == Const(True):
            chk.hold("R01.5", "%s/%s:binary" % (sc, ec), "ConfusionMatrix(binary=True)", nontrivial=False)
        else:
            chk.violation("R01.5", CMQ, "%s/%s:binary" % (sc, ec), show(tab["_binary"]) if tab["_binary"] is not None else "unset", "True", ctx.where(CMQ))
    chk.floor("R01.1", 16, "4 configurations x 4 cells")

    # ---------------- R01.5 writer/reader agreement: metrics.tp/fn/fp/tn read the cells cm() writes
    M = Sym("M", ("param", "array"))
    for name, ij in CELLS.items():
        q = "score_analysis.metrics." + name
        outs = ctx.explore(lambda q=q: ctx.ev.call(ctx.fn(q), [M], {}), chk)
        rets = returns(outs)
        exp = cell(ctx.ev, M, ij)
        if len(rets) == 1 and same(rets[0].value, exp):
            chk.hold("R01.5", "metrics.%s" % name, "metrics.%s(M) = %s" % (name, show(rets[0].value)))
        else:
            chk.violation("R01.5", q, "reads-cell", [show(o.value) for o in rets], show(exp), ctx.where(q))

    # ---------------- R01.3 sibling table: pointwise_cm
    run_pointwise(ctx, chk, tables)

    # ---------------- R01.4 sortedness typestate
    run_sortedness(ctx, chk, tier)
    # ---------------- prerequisites: objects built through from_labels carry the declared easy counts; cm() has no state
    from . import c09, c10
    c09.from_labels_forwarding(ctx, chk)
    c10.purity(ctx, chk, only=("Scores.cm", "Scores.confusion_matrix", "pointwise_cm"))
    rates_from_cm(ctx, chk)


def value_root(v):
    """Like storage_root, but also through value-preserving copies (copy, astype(float)); a cast to any other dtype is not value-preserving."""
    for _ in range(50):
        if isinstance(v, App) and v.fn == "fresh" and v.kwd("dtype") in (None, Const("float")):
            v = v.args[0]
            continue
        r = storage_root(v)
        if r is not None:
            return r
        if isinstance(v, App) and v.fn in ("getitem", "reshape", "asarray") and v.args:
            inner = v.args[0]
            if isinstance(inner, App) and inner.fn == "fresh" and inner.kwd("dtype") in (None, Const("float")):
                v = App(v.fn, (inner.args[0],) + tuple(v.args[1:]), v.kw)
                continue
        return None
    return None


def _cmp_relation(term, s_root, t_root):
    """Decode a comparison term over broadcast views of scores (S) and threshold (T) into 'S op T'."""
    if not isinstance(term, App) or term.fn not in ("lt0", "le0"):
        return None
    p = to_poly(term.args[0])
    coef = {}
    for m, c in p.t.items():
        if len(m) != 1 or m[0][1] != 1:
            return None
        r = value_root(m[0][0])
        if r == s_root:
            coef["S"] = c
        elif r == t_root:
            coef["T"] = c
        else:
            return None
    if set(coef) != {"S", "T"} or coef["S"] + coef["T"] != 0 or abs(coef["S"]) != 1:
        return None
    strict = term.fn == "lt0"
    if coef["S"] > 0:  # S - T (<|<=) 0
        return "<" if strict else "<="
    return ">" if strict else ">="


def run_pointwise(ctx, chk, tables):
    from . import c10 as _c10
    _c10.pointwise_shape_rule(ctx, chk, "R01.3")   # entry [i..., j...] belongs to sample i and threshold j: scores-first flat buffer
    labels = Sym("labels", ("param", "array", "notnone"))
    scores = Sym("scores", ("param", "array", "notnone", "rawdtype"))
    thr = Sym("threshold", ("param", "array", "notnone"))
    plab = Sym("pos_label", ("param_scalar", "notnone"))
    fn = ctx.fn(PWQ)
    for sc, ec in GAMMAS:
        outs = ctx.explore(lambda: ctx.ev.call(fn, [labels, scores, thr], {"pos_label": plab, "score_class": Const(sc), "equal_class": Const(ec)}), chk)
        rets = returns(outs)
        raw = [e for o in rets for e in o.events if e["kind"] == "raw_arith"]
        if raw:
            e = raw[0]
            chk.violation("R01.3", PWQ, "%s/%s:raw-dtype-arithmetic" % (sc, ec), "%s on the caller's score array (%s)" % (e["op"], e.get("text", "")[:80]),
                          "scores are only compared (negating / subtracting unsigned-integer scores wraps around)", "%s line %s" % (ctx.where(PWQ), getattr(e.get("node"), "lineno", "?")))
        if len(rets) != 1 or rets[0].unmodelled:
            chk.unknown("R01.3", "pointwise_cm %s/%s: %d return paths, unmodelled=%s" % (sc, ec, len(rets), rets and unmodelled_text(rets[0])))
            continue
        v = rets[0].value
        while isinstance(v, App) and v.fn == "reshape":
            v = v.args[0]
        acc = ACCEPT[(sc, ec)]
        rej = COMPLEMENT[acc]
        want = {"tp": ("pos", acc), "fn": ("pos", rej), "fp": ("neg", acc), "tn": ("neg", rej)}
        for name, ij in CELLS.items():
            c = cell(ctx.ev, v, ij)
            inst = "%s/%s:%s" % (sc, ec, name)
            parts = list(c.args) if isinstance(c, App) and c.fn == "and" else [c]
            rel, lab = None, None
            for prt in parts:
                r = _cmp_relation(prt, scores, thr)
                if r is not None:
                    rel = r
                elif isinstance(prt, App) and prt.fn in ("eq0", "ne0"):
                    p = to_poly(prt.args[0])
                    roots = set()
                    for a in p.atoms():
                        roots.add(storage_root(a) if storage_root(a) is not None else a)
                    if roots == {labels, plab}:
                        lab = "pos" if prt.fn == "eq0" else "neg"
            if len(parts) == 2 and (lab, rel) == want[name]:
                chk.hold("R01.3", inst, "pointwise[%s/%s] %s = (label is %s) & (score %s threshold)" % (sc, ec, name.upper(), lab, rel))
            else:
                chk.violation("R01.3", PWQ, inst, "(label %s) & (score %s threshold): %s" % (lab, rel, show(c)),
                              "(label is %s) & (score %s threshold)" % want[name], ctx.where(PWQ))
    chk.floor("R01.3", 16, "4 configurations x 4 cells of pointwise_cm")


# --------------------------------------------------------------------------- R01.4

def constructor_inputs_untouched(ctx, chk, rule="R01.4"):
    """The constructors sort COPIES: scores handed over as an array-like that np.asarray merely wraps (a pandas Series / column, a memoryview,
    an object with __array__) share memory with the converted array although `np.asarray(x) is x` is false, so an in-place sort of the
    converted array re-orders - or, for a read-only column, fails on - the caller's data.  Explored with array-like arguments whose conversion
    is kept distinct from the argument."""
    if getattr(chk, "_ctor_inputs_done", False):
        return
    chk._ctor_inputs_done = True
    P = Sym("p_like", ("param", "array", "notnone", "arraylike"))
    N = Sym("n_like", ("param", "array", "notnone", "arraylike"))
    n = 0
    for cls, kw in ((SCORES, {}), (GROUP, {"pos_groups": Sym("pg", ("param", "array", "notnone")), "neg_groups": Sym("ng", ("param", "array", "notnone"))})):
        ci = ctx.db.cls(cls)
        ctx.ev.mark_conversions = True
        try:
            outs = ctx.explore(lambda: ctx.ev.instantiate(ci, [P, N], dict(kw)), chk)
        except Exception as e:  # noqa: BLE001
            chk.unknown(rule, "%s(array-like inputs): %s" % (cls.split(".")[-1], str(e)[:120]))
            continue
        finally:
            ctx.ev.mark_conversions = False
        seen = set()
        for o in outs:
            n += 1
            for e in o.events:
                if e["kind"] == "inplace" and e.get("root") in (P, N) and (e.get("how"), e["root"].name) not in seen:
                    seen.add((e.get("how"), e["root"].name))
                    chk.violation(rule, cls + ".__init__", "%s:input-modified:%s" % (cls.split(".")[-1], e["root"].name),
                                  "%s on the converted %s argument (storage of the caller's array-like)" % (e.get("how"), "pos" if e["root"] is P else "neg"),
                                  "np.sort (a copy): a Series / column wrapped by np.asarray is the caller's data", "%s line %s" % (ctx.where(cls + ".__init__"), getattr(e.get("node"), "lineno", "?")))
        if not seen:
            chk.hold(rule, "%s:inputs-untouched" % cls.split(".")[-1], "no in-place operation reaches an array-like score argument", nontrivial=False)
    if n < 2:
        chk.unknown(rule, "only %d constructor paths explored with array-like inputs" % n)


def constructor_sorted(ctx, chk):
    """Scores.__init__ / GroupScores.__init__ leave pos and neg ascending unless is_sorted."""
    flag_identity(ctx, chk)
    constructor_inputs_untouched(ctx, chk)
    P = Sym("p_in", ("param", "array", "notnone", "rawdtype"))
    N = Sym("n_in", ("param", "array", "notnone", "rawdtype"))
    for cls, kw in ((SCORES, {}), (GROUP, {"pos_groups": Sym("pg", ("param", "array", "notnone")), "neg_groups": Sym("ng", ("param", "array", "notnone"))})):
        ci = ctx.db.cls(cls)
        init = cls + ".__init__"
        for flag in (Const(False), None):
            kwargs = dict(kw)
            if flag is not None:
                kwargs["is_sorted"] = flag
            outs = ctx.explore(lambda: ctx.ev.instantiate(ci, [P, N], dict(kwargs)), chk)
            rets = returns(outs)
            if not rets:
                chk.unknown("R01.4", "%s has no normal return path" % init)
            raw = [e for o in rets for e in o.events if e["kind"] == "raw_arith"]
            if raw:
                e = raw[0]
                chk.violation("R01.4", init, "%s:raw-dtype-arithmetic" % init.split(".")[-2], "%s on the caller's score array (%s)" % (e["op"], e.get("text", "")[:80]),
                              "no sign-sensitive arithmetic on scores in the caller's dtype: for unsigned-integer scores a difference wraps around "
                              "(an unsorted array passes `diff >= 0`)", "%s line %s" % (ctx.where(init), getattr(e.get("node"), "lineno", "?")))
            for o in rets:
                # derived copies of the scores kept next to pos / neg (float copies, pooled arrays, ...) are read by the same binary
                # searches: whatever holds for pos / neg must hold for them (a copy taken BEFORE a subclass constructor sorts is stale)
                from ..evalr import storage_root as _sr
                for attr, v in sorted(o.value.attrs.items()):
                    if attr in ("pos", "neg") or not isinstance(v, (App, Sym)):
                        continue
                    root = value_root(v)
                    if root not in (P, N):
                        continue
                    main = o.value.attrs.get("pos" if root == P else "neg")
                    inst = "%s:%s:is_sorted=%s" % (init.split(".")[-2], attr, "False" if flag is not None else "default")
                    st = sortedness(v)
                    if st != "sorted" and pc_implies_sorted(o.pc, v):
                        st = "sorted"
                    if st == "sorted":
                        chk.hold("R01.4", inst, "derived score array self.%s = %s is ascending" % (attr, show(v, 120)))
                    elif st == "unknown":
                        chk.unknown("R01.4", "cannot decide order of derived self.%s = %s in %s" % (attr, show(v, 160), init))
                    else:
                        chk.violation("R01.4", init, inst, "derived score array self.%s = %s (while self.%s = %s)" % (attr, show(v, 120), "pos" if root == P else "neg", show(main, 100)),
                                      "every per-object copy of the scores is ascending like pos / neg themselves (it is searched the same way)", ctx.where(init))
                # positional reads of the RAW input (its first / last element as the range of the scores) taken before the sort has happened
                from ..terms import walk as _walk
                for attr, v in sorted(o.value.attrs.items()):
                    if attr in ("pos", "neg") or not hasattr(v, "key") or isinstance(v, Obj):
                        continue
                    raw_reads = []

                    def _rr(t, raw_reads=raw_reads):
                        if isinstance(t, App) and t.fn == "getitem" and len(t.args) == 2 and t.args[0] in (P, N) and (is_const(t.args[1]) or (isinstance(t.args[1], App) and t.args[1].fn == "slice")):
                            raw_reads.append(t)
                    _walk(v, _rr)
                    if raw_reads:
                        chk.violation("R01.4", init, "%s:%s:positional-read-of-unsorted-input" % (init.split(".")[-2], attr),
                                      "self.%s = %s reads %s of the array as passed in (is_sorted=%s)" % (attr, show(v, 100), show(raw_reads[0], 60), "False" if flag is not None else "default"),
                                      "derived state computed from the SORTED scores (a subclass constructor that sorts after calling the base constructor leaves it stale)", ctx.where(init))
                for attr in ("pos", "neg"):
                    v = o.value.attrs.get(attr)
                    inst = "%s:%s:is_sorted=%s" % (init.split(".")[-2], attr, "False" if flag is not None else "default")
                    st = sortedness(v) if v is not None else "unsorted"
                    if st != "sorted" and v is not None and pc_implies_sorted(o.pc, v):
                        st = "sorted"
                    if st == "sorted":
                        chk.hold("R01.4", inst, "self.%s = %s is ascending" % (attr, show(v, 160)))
                    elif st == "unknown":
                        chk.unknown("R01.4", "cannot decide order of self.%s = %s in %s" % (attr, show(v, 200), init))
                    else:
                        chk.violation("R01.4", init, inst, "self.%s = %s" % (attr, show(v, 200) if v is not None else "unset"),
                                      "an ascending array (np.sort / joint argsort) when is_sorted is false", ctx.where(init))


def flag_identity(ctx, chk, rule="R01.7"):
    """The direction flags are compared by IDENTITY somewhere (`x.score_class is BinaryLabel.neg`) only if every way an object comes to exist
    stores BinaryLabel members: the flags may be given as strings ("neg" == BinaryLabel.neg, but "neg" is not BinaryLabel.neg), so an identity
    test reads a string-flagged object as the other configuration.  Each half is harmless alone; the rule reports the combination and names
    both constructs."""
    import ast
    from ..evalr import EnumM
    if getattr(chk, "_flag_identity_done", False):
        return
    chk._flag_identity_done = True
    subclass_overrides(ctx, chk, rule)
    sites = []
    for m in ctx.db.modules.values():
        for n in ast.walk(m.tree):
            if isinstance(n, ast.Compare) and any(isinstance(o, (ast.Is, ast.IsNot)) for o in n.ops):
                parts = [n.left] + list(n.comparators)
                txt = [ast.unparse(p_) for p_ in parts]
                if any(isinstance(p_, ast.Constant) and p_.value is None for p_ in parts):
                    continue
                if any("BinaryLabel." in t or t.endswith(("score_class", "equal_class", "ratio_class")) for t in txt):
                    sites.append("%s:%d `%s`" % (m.relpath, n.lineno, ast.unparse(n)[:70]))

    def normalised(v):
        if isinstance(v, EnumM):
            return True
        if isinstance(v, App) and v.fn == "ite":
            return normalised(v.args[1]) and normalised(v.args[2])
        return False
    raw = []
    P = Sym("p_in", ("param", "array", "notnone", "sorted"))
    N = Sym("n_in", ("param", "array", "notnone", "sorted"))
    n_paths = 0
    for cls, kw in ((SCORES, {}), (GROUP, {"pos_groups": Sym("pg", ("param", "array", "notnone")), "neg_groups": Sym("ng", ("param", "array", "notnone"))})):
        ci = ctx.db.cls(cls)
        for flag in (Const(True), Const(False)):
            kwargs = dict(kw, score_class=Const("neg"), equal_class=Const("neg"), is_sorted=flag)
            try:
                outs = ctx.explore(lambda: ctx.ev.instantiate(ci, [P, N], dict(kwargs)), chk)
            except Exception as e:  # noqa: BLE001
                chk.unknown(rule, "%s(is_sorted=%s, string flags): %s" % (cls.split(".")[-1], show(flag), str(e)[:120]))
                continue
            for o in returns(outs):
                n_paths += 1
                for attr in ("score_class", "equal_class"):
                    v = o.value.attrs.get(attr)
                    if v is not None and not normalised(v):
                        raw.append("%s(..., %s='neg', is_sorted=%s) stores self.%s = %s" % (cls.split(".")[-1], attr, show(flag), attr, show(v, 40)))
        # derived objects
        for sc, ec in (("pos", "neg"), ("neg", "pos")):
            try:
                outs = ctx.explore(lambda: ctx.ev.call(ctx.method(ctx.scores_obj(sc, ec, cls), "swap"), [], {}), chk)
            except Exception as e:  # noqa: BLE001
                chk.unknown(rule, "%s.swap(): %s" % (cls.split(".")[-1], str(e)[:120]))
                continue
            for o in returns(outs):
                n_paths += 1
                if not isinstance(o.value, Obj):
                    continue
                for attr in ("score_class", "equal_class"):
                    v = o.value.attrs.get(attr)
                    if v is not None and not normalised(v):
                        raw.append("%s.swap() stores %s = %s on its result" % (cls.split(".")[-1], attr, show(v, 40)))
    raw = sorted(set(raw))
    if n_paths < 6:
        chk.unknown(rule, "only %d construction paths explored" % n_paths)
    if sites and raw:
        chk.violation(rule, SCORES + ".__init__", "flag-identity:%s" % sites[0].split(" ")[0], "%s  while  %s" % (sites[0], raw[0]) + (" (+%d more sites, +%d more stores)" % (len(sites) - 1, len(raw) - 1)),
                      "flags compared by value (==), or BinaryLabel members stored on every construction path: a string flag equals the member but is not identical to it",
                      sites[0].split(" ")[0])
    else:
        chk.hold(rule, "flag-identity", "%d identity comparison(s) of direction flags; %d construction / swap paths, %d of them store a raw (non-member) flag" % (len(sites), n_paths, len(raw)), nontrivial=False)


TABLED_OVERRIDES = {"__eq__", "__init__", "_sampling_method", "bootstrap_sample", "from_labels", "swap"}


def subclass_overrides(ctx, chk, rule):
    """The derivations of a rule are made on `Scores`; they carry over to `GroupScores` / `FraudScores` (which the quantifier 'all Scores'
    includes) only while those classes INHERIT the queries.  An override of an inherited query or of a private helper it flows through
    (other than the tabled construction / sampling overrides, which have their own rules) is a sibling implementation the rule has not looked
    at: not decided."""
    if getattr(chk, "_subclass_overrides_done", False):
        return
    chk._subclass_overrides_done = True
    S = ctx.db.cls(SCORES)
    inherited = set()
    for b in S.mro():
        inherited |= set(getattr(b, "methods", {}))
    n = 0
    for m in ctx.db.modules.values():
        for c in m.classes.values():
            try:
                sub = S in c.mro() and c is not S
            except Exception:  # noqa: BLE001
                sub = False
            if not sub:
                continue
            n += 1
            # construction, equality and SAMPLING overrides have their own rules (C11 / C12 / R01.4 / R08.1), under whatever private name
            extra = sorted(n_ for n_ in (set(c.methods) & inherited) - TABLED_OVERRIDES if not any(w in n_ for w in ("sampl", "bootstrap")))
            if extra:
                chk.unknown(rule, "%s overrides the inherited %s: the obligations were derived for Scores' own implementation" % (c.qualname.split(".")[-1], ", ".join(extra)))
            else:
                chk.hold(rule, "inherits:%s" % c.qualname.split(".")[-1], "no inherited query or helper is overridden (beyond construction / sampling)", nontrivial=False)
    if n < 2:
        chk.unknown(rule, "only %d subclasses of Scores found" % n)


def attr_store_scan(ctx, chk):
    """No store to .pos/.neg outside constructors (tabled exception: FraudScores alias setters)."""
    allowed = {SCORES + ".__init__", GROUP + ".__init__", FRAUD + ".genuines", FRAUD + ".frauds"}
    n = 0
    for f in ctx.db.all_functions():
        for node in ast.walk(f.node):
            if isinstance(node, ast.Attribute) and isinstance(node.ctx, ast.Store) and node.attr in ("pos", "neg"):
                n += 1
                from .c10 import construction_only, fresh_locals
                base = node.value
                if isinstance(base, ast.Name) and base.id != "self" and base.id in fresh_locals(f.node):
                    chk.hold("R01.4", "store:%s.%s" % (f.qualname, node.attr), "initialises an object created in the same function (%s)" % base.id, nontrivial=False)
                elif isinstance(base, ast.Name) and base.id == "self" and f.qualname not in allowed and construction_only(ctx.db, f):
                    chk.hold("R01.4", "store:%s.%s" % (f.qualname, node.attr), "construction helper (only called from constructors / on freshly created objects)", nontrivial=False)
                elif f.qualname in allowed:
                    chk.hold("R01.4", "store:%s.%s" % (f.qualname, node.attr), "constructor/alias-setter store", nontrivial=False)
                else:
                    chk.violation("R01.4", f.qualname, "store-outside-constructor:" + node.attr, "assignment to .%s" % node.attr,
                                  "pos/neg are only (re)bound in constructors", "%s:%d" % (f.module.relpath, node.lineno))
            if isinstance(node, ast.Call) and isinstance(node.func, ast.Attribute) and node.func.attr in ("sort", "reverse", "partition", "fill", "put", "shuffle") \
                    and isinstance(node.func.value, ast.Attribute) and node.func.value.attr in ("pos", "neg"):
                chk.violation("R01.4", f.qualname, "inplace:" + node.func.attr, ast.unparse(node), "no in-place reordering of pos/neg",
                              "%s:%d" % (f.module.relpath, node.lineno))
    return n


def construction_sites(ctx, chk):
    """Every internal construction whose is_sorted may be true receives ascending arrays."""
    from .c11 import sample_outcomes  # shared exploration of bootstrap_sample

    sites = []  # (site label, outcome)
    for cls in (SCORES, GROUP):
        for sc, ec in (("pos", "pos"),):
            outs = ctx.explore(lambda: ctx.ev.call(ctx.method(ctx.scores_obj(sc, ec, cls), "swap"), [], {}), chk)
            sites += [("%s.swap" % cls.split(".")[-1], o) for o in outs]
    g = Sym("group", ("param_scalar", "notnone"))
    ctx.ev.assume = [App("in", (g, Sym("groups", ("attr", "array", "notnone"))))]
    try:
        outs = ctx.explore(lambda: ctx.ev.call(ctx.method(ctx.scores_obj("pos", "pos", GROUP), "__getitem__"), [g], {}), chk)
    finally:
        ctx.ev.assume = []
    sites += [("GroupScores.__getitem__", o) for o in outs]
    for label, o in sample_outcomes(ctx, chk):
        sites.append((label, o))
    n = 0
    for label, o in sites:
        if o.kind != "return":
            continue
        for e in o.events:
            if e["kind"] != "new" or e["cls"] not in (SCORES, GROUP, FRAUD):
                continue
            flag = e["kwargs"].get("is_sorted", Const(False))
            if not isinstance(flag, Const) and hasattr(flag, "key"):
                # a computed flag: the path that reaches this construction may already have decided it
                for c_, t_ in o.pc:
                    if c_.key == flag.key:
                        flag = Const(bool(t_))
                        break
                    if c_.key == negate(flag).key:
                        flag = Const(not t_)
                        break
            if flag == Const(False):
                continue
            args = dict(e["kwargs"])
            for i, nm in enumerate(("pos", "neg")):
                if i < len(e["args"]):
                    args[nm] = e["args"][i]
            for nm in ("pos", "neg"):
                v = args.get(nm)
                n += 1
                inst = "%s->%s(is_sorted=%s):%s" % (label, e["cls"].split(".")[-1], show(flag, 40), nm)
                st = sortedness(v) if v is not None else "unsorted"
                if st == "sorted":
                    chk.hold("R01.4", inst, "%s = %s is ascending" % (nm, show(v, 140)))
                elif st == "unknown":
                    chk.unknown("R01.4", "cannot decide order of %s = %s at %s" % (nm, show(v, 200), label))
                elif not isinstance(flag, Const):
                    chk.unknown("R01.4", "is_sorted=%s is not decided on the path that passes the unsorted %s = %s at %s" % (show(flag, 80), nm, show(v, 120), label))
                else:
                    chk.violation("R01.4", label, "%s(is_sorted=%s):%s" % (e["cls"].split(".")[-1], show(flag, 40), nm),
                                  "%s = %s" % (nm, show(v, 300) if v is not None else "missing"),
                                  "ascending array (sorted source indexed by mask or monotone index)",
                                  "line %s" % getattr(e.get("node"), "lineno", "?"))
    return n


def run_sortedness(ctx, chk, tier):
    constructor_sorted(ctx, chk)
    attr_store_scan(ctx, chk)
    n = construction_sites(ctx, chk)
    chk.floor("R01.4", 8 + 6, "4+4 constructor obligations, >=6 construction-site arrays")


RATE_DEFS = {  # rate -> (numerator cells, denominator cells)
    "tpr": (("tp",), ("tp", "fn")), "fnr": (("fn",), ("tp", "fn")), "tnr": (("tn",), ("tn", "fp")), "fpr": (("fp",), ("tn", "fp")),
    "topr": (("tp", "fp"), ("tp", "fn", "fp", "tn")), "tonr": (("fn", "tn"), ("tp", "fn", "fp", "tn")),
}


def rates_from_cm(ctx, chk, metrics=("tpr", "fnr", "tnr", "fpr", "topr", "tonr"), rule="R01.6"):
    """Each rate method of Scores is the rate of the object's own confusion matrix at that threshold: numerator and denominator
    are the documented cell sums of the decision table (easy samples included), NaN iff the denominator is 0."""
    flag_identity(ctx, chk)
    from ..spec import cm_oracle, GAMMAS
    from ..terms import add as _add
    from .thr import rate_term
    from ..simp import mk_app
    for sc, ec in GAMMAS:
        orc = cm_oracle(sc, ec)
        for m in metrics:
            got = rate_term(ctx, chk, m, sc, ec)
            inst = "%s:%s/%s" % (m, sc, ec)
            q = SCORES + "." + m
            if got is None:
                chk.unknown(rule, "rate term of %s not derivable" % inst)
                continue
            num = Const(0)
            for c in RATE_DEFS[m][0]:
                num = _add(num, orc[c])
            den = Const(0)
            for c in RATE_DEFS[m][1]:
                den = _add(den, orc[c])
            ok = False
            if isinstance(got, App) and got.fn == "gdiv" and len(got.args) == 4:
                gn, gd, fill, guard = got.args
                ok = same(gn, num) and same(gd, den) and fill.key == "$nan" and same(guard, compare("!=", den, Const(0)))
                if not ok and same(gd, den) and fill.key == "$nan":
                    # 1 - complementary quotient
                    pass
            if not ok:
                from ..terms import sub as _sub
                # complement form 1 - (den - num)/den
                if isinstance(got, Num) or isinstance(got, App):
                    comp = None
                    for a in atoms_of(got):
                        if isinstance(a, App) and a.fn == "gdiv" and len(a.args) == 4 and same(a.args[1], den):
                            comp = a
                    if comp is not None and same(got, _sub(Const(1), comp)) and same(comp.args[0], _sub(den, num)):
                        ok = True
            if ok:
                chk.hold(rule, inst, "%s(t) = (%s) / (%s) of the object's confusion matrix, NaN iff the denominator is 0" % (m, "+".join(RATE_DEFS[m][0]), "+".join(RATE_DEFS[m][1])))
            else:
                chk.violation(rule, q, inst, show(got, 260), "(%s) / (%s), i.e. %s / %s guarded by a non-zero denominator" % ("+".join(RATE_DEFS[m][0]), "+".join(RATE_DEFS[m][1]), show(num, 100), show(den, 100)),
                              ctx.where(q))


def buffer_width(ctx, chk, tab, sc, ec, rule="R01.1"):
    """The buffer that receives the counts: easy counts are declared, not materialised, and may exceed 2**31 (billions of impostor pairs)."""
    buf = tab.get("_matrix")
    for e in tab.get("_narrow_casts", ()):
        chk.violation(rule, CMQ, "%s/%s:narrow-cast" % (sc, ec), "the matrix of counts is cast to %s on the way into the ConfusionMatrix (line %s)" % (e.get("to"), getattr(e.get("node"), "lineno", "?")),
                      "64-bit counts: a cell is a count of scored samples plus a declared easy count (billions of impostor pairs) and wraps around in a narrower integer",
                      ctx.where(CMQ))
        break
    while isinstance(buf, App) and buf.fn in ("store", "fresh"):
        if buf.fn == "fresh" and buf.kwd("dtype") == Const("narrowint"):
            chk.violation(rule, CMQ, "%s/%s:buffer-width" % (sc, ec), "the counts are cast to a narrow integer: %s" % show(buf, 100),
                          "a 64-bit integer (or float) buffer", ctx.where(CMQ))
            return
        buf = buf.args[0]
    if isinstance(buf, App) and buf.fn in ("empty", "zeros", "ones", "full") and buf.kwd("dtype") == Const("narrowint"):
        chk.violation(rule, CMQ, "%s/%s:buffer-width" % (sc, ec), "the counts are stored into %s" % show(buf, 100),
                      "a 64-bit integer (or float) buffer: a cell is a count of scored samples plus a declared easy count and wraps around in a narrower integer",
                      ctx.where(CMQ))


def cm_cells_rule(ctx, chk, rule="R01.1"):
    """Prerequisite form of R01.1 for properties that rest on cm(): the four cells are the decision-rule counts in every configuration."""
    flag_identity(ctx, chk)
    from ..spec import cm_oracle, GAMMAS
    for sc, ec in GAMMAS:
        tab = derive_cm_table(ctx, chk, sc, ec, rule=rule)
        if tab is None:
            continue
        orc = cm_oracle(sc, ec)
        buffer_width(ctx, chk, tab, sc, ec, rule)
        for name in ("tp", "fn", "fp", "tn"):
            inst = "%s/%s:%s" % (sc, ec, name)
            if same(tab[name], orc[name]):
                chk.hold(rule, inst, "cm cell = decision rule", nontrivial=False)
            elif understood(tab[name]):
                chk.violation(rule, CMQ, inst, show(tab[name], 200), show(orc[name], 200), ctx.where(CMQ))
            else:
                casts = [a for a in atoms_of(tab[name]) if isinstance(a, App) and a.fn == "fresh" and a.kwd("dtype") in (Const("other"), Const("int")) and value_root(a.args[0]) == T]
                if casts:
                    chk.violation(rule, CMQ, inst + ":threshold-cast", "threshold cast before counting: %s" % show(casts[0], 120),
                                  "the threshold is compared as given", ctx.where(CMQ))
                else:
                    chk.unknown(rule, "cm cell %s outside the counting model" % inst)
