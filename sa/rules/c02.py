"""C02 — threshold setting round-trips within one sample; methods coherent (DESIGN §4 C02)."""
from __future__ import annotations

from fractions import Fraction

from ..numeval import CannotEvaluate, Eps, ekey
from ..spec import GAMMAS, SCORES, POS, NEG, EP, EN, returns, raises, unmodelled_text, pc_text
from ..terms import App, Const, Sym, Tup, same, show, sub, add, mul, div, subst, atoms_of, to_poly, mk_num, negate
from ..simp import mk_app
from .thr import (ALIASES, METRICS, METHODS, SCORE_REPS, EASY_REPS, TARGET_REPS, R, TAR, INV, env_for, explore_threshold,
                  pick_value, rate_at, rate_range, rate_term)

LEVEL = "other"


def relevant(metric, pos, neg, ep, en):
    if metric in ("tpr", "fnr"):
        return list(pos), len(pos) + ep
    if metric in ("tnr", "fpr"):
        return list(neg), len(neg) + en
    return list(pos) + list(neg), len(pos) + len(neg) + ep + en


def bounded_roundtrip(ctx, chk, tier):
    """R02.5: the derived closed forms evaluated on order-type representatives (sizes 1..4; bounded)."""
    from .thr import reps_for, easy_for
    reps = reps_for(tier)
    easy = easy_for(tier)
    for metric in METRICS:
        q = SCORES + ".threshold_at_" + metric
        for sc, ec in GAMMAS:
            rate = rate_term(ctx, chk, metric, sc, ec)
            if rate is None:
                chk.unknown("R02.5", "cannot derive the rate term of %s for %s/%s" % (metric, sc, ec))
                continue
            outs = {m: explore_threshold(ctx, chk, metric, sc, ec, m) for m in METHODS}
            if any(o.unmodelled for m in METHODS for o in outs[m]):
                chk.unknown("R02.5", "%s %s/%s: unmodelled construct in threshold setting" % (metric, sc, ec))
                continue
            bad = {}
            n = 0
            try:
                for rname, (pos, neg) in reps:
                    tied = len(set(pos)) < len(pos) or len(set(neg)) < len(neg) or bool(set(pos) & set(neg))
                    for ep, en in easy:
                        lo, hi = rate_range(rate, pos, neg, ep, en)
                        rel, nrel = relevant(metric, pos, neg, ep, en)
                        tol = Fraction(1, nrel)
                        allowed = {ekey(Fraction(x)) for x in rel} | {ekey(Eps(min(rel), -1)), ekey(Eps(max(rel), 1))}
                        seq = []
                        for r in TARGET_REPS:
                            env = env_for(pos, neg, ep, en, r=r)
                            t = {m: pick_value(outs[m], env) for m in METHODS}
                            n += 1
                            rc = min(max(r, lo), hi)
                            ctxs = "rep %s=%s easy=(%d,%d) r=%s" % (rname, (pos, neg), ep, en, r)
                            if any(isinstance(v, tuple) for v in t.values()):
                                bad.setdefault("raises", "%s: raises" % ctxs)
                                continue
                            tl = t["linear"]
                            got = rate_at(rate, pos, neg, ep, en, tl)
                            if not tied:
                                if abs(got - rc) > tol:
                                    bad.setdefault("roundtrip", "%s: linear threshold %r gives %s=%s, target clipped to achievable range %s, tolerance 1/%d" % (ctxs, tl, metric, got, rc, nrel))
                            else:
                                below = rate_at(rate, pos, neg, ep, en, Eps(tl, -1) if not isinstance(tl, Eps) else tl)
                                above = rate_at(rate, pos, neg, ep, en, Eps(tl, 1) if not isinstance(tl, Eps) else tl)
                                if not (min(below, above, got) - tol <= rc <= max(below, above, got) + tol):
                                    bad.setdefault("bracket", "%s: %s just below/at/above threshold %r = %s/%s/%s does not bracket %s within 1/%d" % (ctxs, metric, tl, below, got, above, rc, nrel))
                            for m in ("lower", "higher"):
                                if ekey(t[m]) not in allowed:
                                    bad.setdefault("sample-" + m, "%s: method %s returns %r, not a sample score or sentinel" % (ctxs, m, t[m]))
                            gl, gh = rate_at(rate, pos, neg, ep, en, t["lower"]), rate_at(rate, pos, neg, ep, en, t["higher"])
                            if gl > gh:
                                bad.setdefault("order", "%s: %s(lower)=%s > %s(higher)=%s" % (ctxs, metric, gl, metric, gh))
                            a, b = sorted((ekey(t["lower"]), ekey(t["higher"])))
                            if not (a[0] <= ekey(tl)[0] <= b[0]):
                                bad.setdefault("between", "%s: linear %r not between lower %r and higher %r" % (ctxs, tl, t["lower"], t["higher"]))
                            seq.append(ekey(tl))
                        inc = all(x <= y for x, y in zip(seq, seq[1:]))
                        dec = all(x >= y for x, y in zip(seq, seq[1:]))
                        if not (inc or dec):
                            bad.setdefault("monotone", "rep %s easy=(%d,%d): threshold is not a monotone function of the target: %s" % (rname, ep, en, seq))
            except CannotEvaluate as e:
                chk.unknown("R02.5", "%s %s/%s: derived term outside the evaluable vocabulary (%s)" % (metric, sc, ec, e))
                continue
            chk.paths(n)
            inst = "%s:%s/%s" % (metric, sc, ec)
            if not bad:
                chk.hold("R02.5", inst, "%d (order type, easy, target) cells: round trip within 1/N, lower/higher are samples with ordered rates, linear between, monotone" % n)
            for clause, msg in bad.items():
                chk.violation("R02.5", q, inst + ":" + clause, msg, "clause '%s' of C02 on every representative" % clause, ctx.where(q))
    chk.floor("R02.5", 24, "6 metrics x 4 configurations")


def run(ctx, chk, tier):
    chk.rule_text = ("R02.1/2/3: structural obligations per front-end, alias and (metric, configuration, method); R02.5: closed forms evaluated on "
                     "order-type representatives (sizes 1..4, ties, easy counts, 11 targets incl. out of range); non-trivial = threshold term evaluated")
    chk.explanation = ("Structural clauses (population handed to the helper, alias forwarding incl. method, flip parity of target and method against the "
                       "direction derived from cm(), interpolation weights summing to one) are decided on value numbers for all inputs. The magnitude clauses "
                       "(within one sample, ordering of lower/higher, monotonicity) are decided only on a bounded family of order-type representatives by exact "
                       "evaluation of the derived closed forms; that part is bounded enumeration, not a proof for every N.")
    chk.trusted |= {"floor/ceil/minimum/maximum", "nextafter strictly beyond", "sorted concatenation is the multiset union"}
    chk.assumptions = ["exact real arithmetic (the property tolerates a few ulp)", "C01 holds"]
    from . import c02s
    c02s.structural(ctx, chk, tier)
    bounded_roundtrip(ctx, chk, tier)
    # effect prerequisite: the setters neither write to caller/receiver arrays nor keep an unsound memo
    from . import c10
    c10.purity(ctx, chk, only=("Scores.threshold_at_",), strict=False)
    # the setters search the object's score arrays (and any per-object copy of them): ascending after every constructor, subclasses included (R01.4)
    from . import c01
    c01.constructor_sorted(ctx, chk)
    c01.construction_sites(ctx, chk)     # objects the library derives (samples, per-group objects, swaps) claim is_sorted only for ascending arrays
    # lower / higher return a sample score or the one-ulp sentinel: the array that receives the sentinels is floating point (R03.2)
    from . import c03
    c03.sentinel_dtype(ctx, chk)
