"""C14 — bootstrapped metrics/intervals are what the sampler and the CI formula produce (DESIGN §4 C14)."""
from __future__ import annotations

from ..evalr import Obj, Dct, FuncV
from ..spec import GROUP, SCORES, returns, raises, unmodelled_text, pc_text
from ..terms import App, Const, Num, Sym, Tup, Star, same, show, atoms_of
from . import c11

LEVEL = "other"
BM, BC, BS = ".bootstrap_metric", ".bootstrap_ci", ".bootstrap_sample"
UBCI = "score_analysis.utils.bootstrap_ci"
KW = Sym("kwarg_value", ("param", "notnone"))
AL = Sym("alpha", ("float", "notnone"))


def run(ctx, chk, tier):
    from . import c10 as _c10
    _c10.copy_derivations(ctx, chk, rule="R14.6")   # objects derived by a shallow copy must not keep the parent's caches
    # functools caches on the sampled classes must be coherent with every writer (a cached ratio that survives a setter feeds stale draw parameters)
    _c10.global_state_rule(ctx, chk, rule="R14.6", modules=("scores", "group_scores"), strict=False)
    from . import c01 as _c01
    _c01.flag_identity(ctx, chk)   # direction flags: identity comparisons need BinaryLabel members on every construction path
    own = chk.pid == "C14"    # as a prerequisite of C16 the host's own rule text and explanation stay
    saved = (getattr(chk, "rule_text", ""), getattr(chk, "explanation", ""))
    chk.rule_text = ("obligations per receiver class (Scores, GroupScores) x metric kind (callable, name): replicate loop, name resolution, CI assembly; custom sampler dispatch; "
                     "entropy sources over all built-in sampling paths; non-trivial = obligation mentions derived call terms")
    chk.explanation = ("bootstrap_metric is evaluated with an opaque metric: row j of the buffer is metric(sample_j, **kwargs) where sample_j is the result of this iteration's "
                       "self.bootstrap_sample(config=config) (virtual call, the caller's config object); names resolve through type(self); bootstrap_ci hands utils.bootstrap_ci the "
                       "replicates, metric(self, **kwargs), alpha and config.bootstrap_method; a callable sampler's result is returned unchanged; every random draw reachable from "
                       "bootstrap_sample comes from the global numpy.random state (so a fixed seed reproduces all results).")
    if not own:
        chk.rule_text, chk.explanation = saved
    chk.trusted |= {"numpy.random global state is the only entropy source of np.random.*", "getattr(type(self), name) resolves through the MRO"}
    ev = ctx.ev
    for cls in (SCORES, GROUP):
        short = cls.split(".")[-1]
        for kind in ("callable", "name"):
            samples = []
            metric_calls = []

            def st_sample(ev_, fi, bound, cls=cls):
                s = Sym("SAMPLE%d" % len(samples), ("object", "notnone"))
                samples.append({"sym": s, "bound": dict(bound), "loops": len(getattr(ev_, "loop_stack", [])), "callee": fi.qualname})
                return s

            def st_named(ev_, fi, bound):
                metric_calls.append(dict(bound))
                return App("NAMED_METRIC", (bound["self"] if isinstance(bound["self"], V_) else Sym("SELF"), bound.get("threshold", Const(None))))

            named = "group_fnr" if cls == GROUP else "fnr"
            for c in (SCORES, GROUP):
                ev.stubs[c + BS] = st_sample
            if kind == "name":
                ev.stubs[cls + "." + named] = st_named
            cfg_holder = {}
            try:
                def thunk():
                    obj = ctx.scores_obj("pos", "pos", cls)
                    cfg = c11.make_config(ctx)
                    cfg_holder["cfg"] = cfg
                    cfg_holder["obj"] = obj
                    metric = Sym("metric", ("callable", "param", "notnone")) if kind == "callable" else Const(named)
                    return ev.call(ctx.method(obj, "bootstrap_metric"), [metric], {"config": cfg, "threshold": KW})
                outs = ctx.explore(thunk, chk)
            finally:
                for c in (SCORES, GROUP):
                    ev.stubs.pop(c + BS, None)
                ev.stubs.pop(cls + "." + named, None)
            rets = returns(outs)
            q = SCORES + BM
            inst = "%s:%s" % (short, kind)
            from . import c10
            c10.memo_rule(ctx, chk, outs, q, "bootstrap_metric(%s)" % inst, rule="R14.6")
            if len(rets) != 1 or rets[0].unmodelled:
                chk.unknown("R14.1", "bootstrap_metric %s: %d return paths %s" % (inst, len(rets), rets and unmodelled_text(rets[0])))
                continue
            o = rets[0]
            v = o.value
            while isinstance(v, App) and v.fn == "after_loop":
                v = v.args[0]
            fors = [e for e in o.events if e["kind"] == "for"]
            inloop = [s for s in samples if s["loops"] >= 1]
            if not (isinstance(v, App) and v.fn == "store" and fors and inloop):
                chk.violation("R14.1", q, inst + ":replicate-loop", "%s ; %d sampler calls inside the loop" % (show(v, 160), len(inloop)),
                              "res[j] = metric(self.bootstrap_sample(config=config), **kwargs) for j in range(config.nb_samples)", ctx.where(q))
                continue
            s = inloop[-1]
            j, val = v.args[1], v.args[2]
            it = fors[-1]["iter"]
            nb = cfg_holder["cfg"].attrs["nb_samples"]
            ok_iter = isinstance(it, App) and it.fn == "range" and len(it.args) == 1 and it.args[0] == nb and j == fors[-1]["elem"]
            if kind == "callable":
                want = App("call", (Sym("metric", ("callable", "param", "notnone")), Tup([s["sym"]])), [("threshold", KW)])
            else:
                want = App("NAMED_METRIC", (s["sym"], KW))
            ok_val = same(val, want)
            passed = s["bound"].get("config")
            ok_cfg = passed is cfg_holder["cfg"] or (isinstance(passed, Obj) and passed.cls is cfg_holder["cfg"].cls and
                                                      all(k in passed.attrs and isinstance(passed.attrs[k], V_) and passed.attrs[k] == v for k, v in cfg_holder["cfg"].attrs.items()))
            ok_virtual = s["callee"] == cls + BS
            buf = v.args[0]
            while isinstance(buf, App) and buf.fn in ("carried", "store"):
                buf = buf.args[0]
            from .. import libmodel as _lm
            bsh = _lm.shape_of(buf)
            ok_buf = bsh is not None and len(bsh.items) >= 1 and bsh.items[0] == nb and all(isinstance(i, Star) for i in bsh.items[1:]) and len(bsh.items) == 2
            if not ok_buf:
                chk.violation("R14.1", q, inst + ":buffer-shape", show(bsh, 120) if bsh is not None else show(buf, 120), "(config.nb_samples, *metric_shape)", ctx.where(q))
            if ok_iter and ok_val and ok_cfg and ok_virtual:
                chk.hold("R14.1", inst, "row j = metric(sample_j, **kwargs), sample_j = %s(config=config) drawn in iteration j of range(nb_samples)" % s["callee"].split(".")[-2])
            else:
                chk.violation("R14.1", q, inst, "iter=%s index=%s value=%s sampler=%s config-forwarded=%s" % (show(it, 60), show(j, 30), show(val, 160), s["callee"], ok_cfg),
                              "range(config.nb_samples), res[j] = %s, sampler %s called with the caller's config" % (show(want, 120), cls + BS), ctx.where(q))
            if kind == "name":
                if metric_calls:
                    chk.hold("R14.2", inst, "metric name resolved on type(self): %s.%s" % (short, named))
                else:
                    chk.violation("R14.2", q, inst + ":resolution", "named metric %s of %s was not called" % (named, short), "getattr(type(self), name)", ctx.where(q))
        # ---------------- R14.3 CI assembly
        cap = {}

        def st_bm(ev_, fi, bound):
            cap["bm"] = dict(bound)
            return Sym("REPLICATES", ("array", "notnone"))

        def st_ubci(ev_, fi, bound):
            cap["ci"] = dict(bound)
            return Sym("CI", ("array", "notnone"))

        ev.stubs[SCORES + BM] = st_bm
        ev.stubs[UBCI] = st_ubci
        M = Sym("metric", ("callable", "param", "notnone"))
        hold = {}
        try:
            def thunk():
                obj = ctx.scores_obj("pos", "pos", cls)
                cfg = c11.make_config(ctx, bootstrap_method=Sym("bootstrap_method", ("str", "notnone")))
                hold["cfg"], hold["obj"] = cfg, obj
                return ev.call(ctx.method(obj, "bootstrap_ci"), [M], {"alpha": AL, "config": cfg, "threshold": KW})
            outs = ctx.explore(thunk, chk)
        finally:
            ev.stubs.pop(SCORES + BM, None)
            ev.stubs.pop(UBCI, None)
        rets = returns(outs)
        q = SCORES + BC
        from . import c10
        c10.memo_rule(ctx, chk, outs, q, "bootstrap_ci(%s)" % short, rule="R14.6")
        if len(rets) != 1 or "ci" not in cap or "bm" not in cap:
            chk.unknown("R14.3", "bootstrap_ci (%s): %d return paths, helper calls %s" % (short, len(rets), sorted(cap)))
        else:
            c, b = cap["ci"], cap["bm"]
            selfsym = c.get("theta_hat")
            want_hat_ok = isinstance(selfsym, App) and selfsym.fn == "call" and selfsym.args[0] == M and selfsym.kwd("threshold") == KW and \
                isinstance(selfsym.args[1], Tup) and len(selfsym.args[1].items) == 1 and selfsym.args[1].items[0].key == "$" + hold["obj"].key
            kwd = b.get("kwargs")
            ok_bm = b.get("metric") == M and b.get("config") is hold["cfg"] and isinstance(kwd, Dct) and kwd.items.get(Const("threshold")) == KW
            ok = (c.get("theta") == Sym("REPLICATES", ("array", "notnone")) and want_hat_ok and c.get("alpha") == AL and c.get("method") == hold["cfg"].attrs["bootstrap_method"]
                  and ok_bm and rets[0].value == Sym("CI", ("array", "notnone")))
            if ok:
                chk.hold("R14.3", short, "utils.bootstrap_ci(theta=bootstrap_metric(metric, config, **kwargs), theta_hat=metric(self, **kwargs), alpha, method=config.bootstrap_method)")
            else:
                chk.violation("R14.3", q, short + ":assembly", "theta=%s theta_hat=%s alpha=%s method=%s replicates(config forwarded=%s, kwargs forwarded=%s)" % (
                    show(c.get("theta"), 60) if c.get("theta") is not None else "?", show(selfsym, 120) if selfsym is not None else "?",
                    show(c.get("alpha"), 30) if c.get("alpha") is not None else "?", show(c.get("method"), 40) if c.get("method") is not None else "?",
                    b.get("config") is hold["cfg"], isinstance(kwd, Dct) and kwd.items.get(Const("threshold")) == KW),
                    "replicates of this object, point estimate metric(self, **kwargs), caller's alpha, config.bootstrap_method", ctx.where(q))
        # ---------------- R14.4 custom sampler
        for strat_ in (None, "by_label", "by_group"):
            stag_ = "" if strat_ is None else ":" + strat_
            smp = Sym("sampler", ("callable", "param", "notnone"))
            hold2 = {}

            def thunk2():
                obj = ctx.scores_obj("pos", "pos", cls)
                hold2["obj"] = obj
                return ev.call(ctx.method(obj, "bootstrap_sample"), [], {"config": c11.make_config(ctx, sampling_method=smp, stratified=strat_)})
            outs = ctx.explore(thunk2, chk)
            rets = returns(outs)
            q = cls + BS
            want_key = "call($sampler,($%s,))" % hold2["obj"].key if hold2 else ""
            if len(rets) == 1 and isinstance(rets[0].value, App) and rets[0].value.fn == "call" and rets[0].value.args[0] == smp and not rets[0].value.kw \
                    and len(rets[0].value.args[1].items) == 1:
                touched = [e for e in rets[0].events if e["kind"] == "foreign_attr_store"]
                ncalls = [e for e in rets[0].events if e["kind"] == "opaque_call" and e.get("callee") == smp]
                if len(ncalls) != 1:
                    # a stateful (counting) deterministic sampler is inside the quantifier: an extra call whose result is thrown away advances it, and
                    # row j of bootstrap_metric is then no longer the metric of the j-th sample the sampler produced
                    chk.violation("R14.4", q, short + stag_ + ":custom-sampler-calls", "the sampler is called %d times for one sample (lines %s)" % (
                        len(ncalls), [getattr(e.get("node"), "lineno", "?") for e in ncalls]),
                        "exactly one call of sampler(self) per bootstrap sample (row j = metric of the j-th sample produced by the sampler)", ctx.where(q))
                elif touched:
                    chk.violation("R14.4", q, short + stag_ + ":custom-sampler-modified", "the sampler's result is modified before it is returned: .%s re-bound" % touched[0]["attr"],
                                  "sampler(self) used exactly as the sampler produced it (rows of bootstrap_metric are the metric of THAT sample)",
                                  "%s line %s" % (ctx.where(q), getattr(touched[0].get("node"), "lineno", "?")))
                else:
                    chk.hold("R14.4", short + stag_, "custom sampler: result of sampler(self) returned unchanged")
            else:
                chk.violation("R14.4", q, short + stag_ + ":custom-sampler", [show(o.value, 100) for o in rets] or [show(o.value, 100) for o in outs], "sampler(self) returned unchanged", ctx.where(q))
    # ---------------- R14.5 entropy sources
    n = 0
    bad = {}
    for label, o in c11.sample_outcomes(ctx, chk):
        for e in o.events:
            if e["kind"] == "rng":
                n += 1
                if e["source"] != "numpy.random(global)" or e["fn"] in ("default_rng", "RandomState", "Generator", "seed"):
                    bad.setdefault((label, e["fn"]), e)
    for (label, fn), e in bad.items():
        chk.violation("R14.5", label.split("[")[0], "entropy:%s:%s" % (label, fn), "draw `%s` from %s" % (fn, show(e["source"], 60) if not isinstance(e["source"], str) else e["source"]),
                      "every draw uses the global numpy.random state (reproducible under np.random.seed)", "line %s" % getattr(e.get("node"), "lineno", "?"))
    if not bad:
        chk.hold("R14.5", "entropy", "%d random draws on all built-in sampling paths come from the global numpy.random state" % n)
    if n < 50:
        chk.unknown("R14.5", "only %d random draws observed" % n)
    set_iteration_order(ctx, chk)
    chk.floor("R14.1", 4, "2 classes x 2 metric kinds")
    # the CI formula itself (C13) is part of "bootstrap_ci equals the documented formula applied to those replicates"
    from . import c13, c01
    c13.run(ctx, chk, tier)
    # "the j-th sample produced by the configured sampler": the configuration reaches the index sampler (R11.7) and
    # every sample is built in the ordered typestate its metrics rely on (R01.4)
    c11.dispatch(ctx, chk)
    c01.construction_sites(ctx, chk)


from ..terms import V as V_  # noqa: E402


def set_iteration_order(ctx, chk, rule="R14.5"):
    """The iteration order of a set of strings differs from one interpreter run to the next (hash randomisation): a loop over a set on a
    sampling path decides which group receives which draws, so a fixed numpy seed no longer reproduces the replicates across processes.
    Syntax-directed: in the functions of the sampling modules that (transitively, within the class) make random draws, the iterable of every
    `for` / comprehension must not be a set expression (set(...), a set literal / comprehension, a union / intersection / difference of sets,
    or a name bound to one) unless it is passed through sorted()."""
    import ast

    def is_set_expr(e, names):
        if isinstance(e, (ast.Set, ast.SetComp)):
            return True
        if isinstance(e, ast.Call):
            f = e.func
            if isinstance(f, ast.Name) and f.id in ("set", "frozenset"):
                return True
            if isinstance(f, ast.Attribute) and f.attr in ("union", "intersection", "difference", "symmetric_difference") and is_set_expr(f.value, names):
                return True
            return False
        if isinstance(e, ast.BinOp) and isinstance(e.op, (ast.BitOr, ast.BitAnd, ast.Sub, ast.BitXor)):
            return is_set_expr(e.left, names) or is_set_expr(e.right, names)
        if isinstance(e, ast.Name):
            return e.id in names
        return False

    # per-object caches filled lazily by item stores (`self._cache[key] = value` outside __init__): their iteration order is the order in
    # which the entries happened to be requested - a property of the object's HISTORY, not of its content
    lazy_dicts = set()
    for mod_ in (ctx.db.module(q_) for q_ in ("score_analysis.scores", "score_analysis.group_scores")):
        for c_ in mod_.classes.values():
            for nm_, f_ in c_.methods.items():
                if nm_ == "__init__":
                    continue
                for x in ast.walk(f_.node):
                    if isinstance(x, ast.Subscript) and isinstance(x.ctx, ast.Store) and isinstance(x.value, ast.Attribute) and isinstance(x.value.value, ast.Name) \
                            and x.value.value.id == "self":
                        lazy_dicts.add(x.value.attr)

    def is_history_iter(e, cls_methods, depth=0):
        """self.<lazy dict> / .items() / .keys() / .values() of it, directly or through a same-class helper that returns it."""
        if isinstance(e, ast.Call) and isinstance(e.func, ast.Attribute) and e.func.attr in ("items", "keys", "values") and not e.args:
            return is_history_iter(e.func.value, cls_methods, depth)
        if isinstance(e, ast.Attribute) and isinstance(e.value, ast.Name) and e.value.id == "self" and e.attr in lazy_dicts:
            return True
        if isinstance(e, ast.Call) and isinstance(e.func, ast.Attribute) and isinstance(e.func.value, ast.Name) and e.func.value.id == "self" and depth < 2:
            h = cls_methods.get(e.func.attr)
            if h is not None:
                return any(isinstance(r, ast.Return) and r.value is not None and is_history_iter(r.value, cls_methods, depth + 1) for r in ast.walk(h.node))
        if isinstance(e, ast.Call) and isinstance(e.func, ast.Name) and e.func.id in ("list", "tuple", "iter", "enumerate", "reversed") and e.args:
            return is_history_iter(e.args[0], cls_methods, depth)
        return False

    def draws(fn_node):
        for n in ast.walk(fn_node):
            if isinstance(n, ast.Call):
                src = ast.unparse(n.func)
                if src.startswith(("np.random.", "numpy.random.", "rng.", "self._rng.", "random.")):
                    return True
        return False

    n_fn = 0
    mods = []
    for mq in ("score_analysis.scores", "score_analysis.group_scores"):
        try:
            mods.append(ctx.db.module(mq))
        except Exception:  # noqa: BLE001
            continue
    allm = [(c, nm, f) for mod_ in mods for c in mod_.classes.values() for nm, f in c.methods.items()]
    drawing = {nm for _c, nm, f in allm if draws(f.node)}
    # methods that call a drawing method (of their own or a base / derived class: resolved by name) are on a sampling path as well
    for _ in range(3):
        for _c, nm, f in allm:
            if nm in drawing:
                continue
            called = {x.func.attr for x in ast.walk(f.node) if isinstance(x, ast.Call) and isinstance(x.func, ast.Attribute)}
            if called & drawing:
                drawing.add(nm)
    for mod in mods:
        for c in mod.classes.values():
            for nm in sorted(n_ for n_ in c.methods if n_ in drawing):
                f = c.methods[nm]
                n_fn += 1
                names = set()
                for x in ast.walk(f.node):
                    if isinstance(x, ast.Assign) and len(x.targets) == 1 and isinstance(x.targets[0], ast.Name) and is_set_expr(x.value, names):
                        names.add(x.targets[0].id)
                bad = []
                hist = []
                for x in ast.walk(f.node):
                    its = [x.iter] if isinstance(x, (ast.For, ast.comprehension)) else []
                    for it in its:
                        if is_set_expr(it, names):
                            bad.append((getattr(it, "lineno", f.node.lineno), ast.unparse(it)[:70]))
                        elif is_history_iter(it, c.methods):
                            hist.append((getattr(it, "lineno", f.node.lineno), ast.unparse(it)[:70]))
                q = c.qualname + "." + nm
                for line, src in bad:
                    chk.violation(rule, q, "%s:set-iteration:%s" % (nm, src[:40]), "iterates over the set expression `%s` on a sampling path" % src,
                                  "a deterministic order (self.groups, sorted(...)): the iteration order of a set of strings changes with the interpreter's hash seed, "
                                  "so a fixed numpy seed would not reproduce the draws", "%s:%d" % (mod.relpath, line))
                for line, src in hist:
                    chk.violation(rule, q, "%s:cache-iteration:%s" % (nm, src[:40]), "iterates over the lazily filled per-object cache `%s` on a sampling path" % src,
                                  "a deterministic order given the object's CONTENT (self.groups): the order of a lazily filled dict is the order in which its entries were first requested, "
                                  "so two equal objects with different query histories hand the random stream to the groups in different orders", "%s:%d" % (mod.relpath, line))
                if not bad and not hist:
                    chk.hold(rule, "iteration-order:%s.%s" % (c.name, nm), "no loop over a set expression or a lazily filled cache", nontrivial=False)
    if n_fn < 2:
        chk.unknown(rule, "only %d drawing methods found in scores / group_scores" % n_fn)
