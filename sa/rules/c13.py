"""C13 — bootstrap confidence limits follow the documented quantile/BC/BCa formulas (DESIGN §4 C13)."""
from __future__ import annotations

from ..spec import returns, raises, unmodelled_text, pc_text
from ..terms import (App, Const, Num, Sym, Tup, NAN, same, show, sub, add, mul, div, neg, subst, atoms_of, to_poly, cmp0, mk_num, powv)
from ..simp import mk_app, norm_fn

LEVEL = "other"
Q = "score_analysis.utils.bootstrap_ci"
TH = Sym("theta", ("param", "array", "notnone"))
HAT = Sym("theta_hat", ("param", "array", "notnone"))
AL = Sym("alpha", ("param", "array", "notnone"))
AX0 = [("axis", Const(0))]


def strip_shape(v):
    """Drop value-preserving shape bookkeeping (reshape / newaxis / fresh); axis roles are checked separately (R13.7)."""
    for _ in range(8):
        mp = {}
        for a in atoms_of(v):
            if isinstance(a, App) and a.fn in ("reshape", "fresh") and a.args:
                if a.fn == "fresh" and a.kwd("dtype") not in (None, Const("float")):
                    continue        # a cast to another (integer / narrower / data-dependent) dtype changes values: kept visible
                mp[a] = a.args[0]
            elif isinstance(a, App) and a.fn == "getitem" and a.args[1] == Const(None):
                mp[a] = a.args[0]
        if not mp:
            return v
        v = subst(v, mp)
    return v


def lift_masks(v):
    """store(B, M, f(X[M], ...)) -> where(M, f(X, ...), B): masked gather/scatter as an elementwise select."""
    for _ in range(6):
        mp = {}
        for a in atoms_of(v):
            if isinstance(a, App) and a.fn == "store":
                base, mask, val = a.args
                inner = {g: g.args[0] for g in atoms_of(val) if isinstance(g, App) and g.fn == "getitem" and g.args[1] == mask}
                if inner:
                    mp[a] = mk_app("where", [mask, subst(val, inner), base])
        if not mp:
            return v
        v = subst(v, mp)
    return v


def reference(method):
    d = sub(TH, HAT)
    p0 = mul(App("sum", (cmp0("le", to_poly(d)),), AX0), div(Const(1), sub(App("len", (TH,)), App("sum", (App("isnan", (TH,)),), AX0))))   # #{not NaN} in its normal form N - #{NaN}
    z0 = mk_app("ppf", [p0])
    zl, zu = mk_app("ppf", [div(AL, Const(2))]), mk_app("ppf", [sub(Const(1), div(AL, Const(2)))])
    if method == "bc":
        lo, hi = add(mul(Const(2), z0), zl), add(mul(Const(2), z0), zu)
    else:
        num = App("nansum", (powv(d, 3),), AX0)
        den = mul(Const(6), powv(App("nansum", (powv(d, 2),), AX0), Const(1.5)))
        a = mk_app("gdiv", [num, den, Const(0), cmp0("ne", to_poly(den))])
        fin = App("isfinite", (z0,))

        def adj(zq):
            s = add(z0, zq)
            return mk_app("where", [fin, add(z0, div(s, sub(Const(1), mul(a, s)))), z0])
        lo, hi = adj(zl), adj(zu)
    return mk_app("cdf", [lo]), mk_app("cdf", [hi])


def roles_of(v, env):
    """Named-axis role sequence of an expression of the quantile branch (E4, restricted to the operators used there)."""
    if v in env:
        return list(env[v])
    if isinstance(v, Num):
        rs = [roles_of(a, env) for a in v.poly.atoms()]
        rs = [r for r in rs if r is not None]
        return max(rs, key=len) if rs else []
    if isinstance(v, App):
        if v.fn == "reshape" and v.args and len(v.args) == 2 and v.args[1] == Const(-1):
            r = roles_of(v.args[0], env)
            return None if r is None else (["flat(" + "*".join(r) + ")"] if r else ["flat()"])
        if v.fn == "stack":
            parts = v.args[0].items if isinstance(v.args[0], Tup) else []
            ax = v.kwd("axis")
            r = roles_of(parts[0], env) if parts else None
            if r is None or ax is None:
                return None
            k = ax.value if ax.value >= 0 else len(r) + 1 + ax.value
            return r[:k] + ["LH"] + r[k:]
        if v.fn in ("nanquantile", "quantile"):
            th = roles_of(v.args[0], env)
            q = roles_of(v.kwd("q") if v.kwd("q") is not None else v.args[1], env)
            ax = v.kwd("axis")
            if th is None or q is None or ax is None:
                return None
            rest = [r for i, r in enumerate(th) if i != ax.value]
            return q + rest
        if v.fn == "moveaxis":
            r = roles_of(v.args[0], env)
            src, dst = v.kwd("source"), v.kwd("destination")
            if src is None and len(v.args) == 3:
                src, dst = v.args[1], v.args[2]
            if r is None or src is None:
                return None
            src = [x.value for x in (src.items if isinstance(src, Tup) else [src])]
            dst = [x.value for x in (dst.items if isinstance(dst, Tup) else [dst])]
            n = len(r)
            src = [s % n for s in src]
            dst = [d % n for d in dst]
            out = [None] * n
            for s_, d_ in zip(src, dst):
                out[d_] = r[s_]
            rest = [r[i] for i in range(n) if i not in src]
            it = iter(rest)
            return [x if x is not None else next(it) for x in out]
    return None


def float_out_buffers(ctx, chk, q=None, rule="R13.9"):
    """A true division that writes into an `out=` buffer needs a FLOAT buffer whatever the dtype of the replicates: `np.zeros_like(x)` /
    `np.full_like(x, fill)` take x's dtype, and for integer-valued replicates (counts, discrete metrics - inside the quantifier) numpy refuses
    to cast the float quotient into them (UFuncTypeError).  Accepted: np.zeros / ones / empty / full (float by default) without an integer
    dtype, and any *_like(..., dtype=<float type>); a name is followed to its binding in the same function."""
    import ast
    q = q or Q
    fi = ctx.db.function(q)
    # the quotient may live in a private helper of the same module: every function of the module is scanned
    fns = [fi] + [f for f in fi.module.functions.values() if f is not fi]
    FLOATS = {"float", "np.float64", "numpy.float64", "np.double", "np.float_", "np.longdouble", "'float64'", "'float'", '"float64"', '"float"', "'f8'", "'d'"}

    def float_buffer(e, depth=0, fi=fi, extra_kw=()):
        """True: a float buffer; False: a buffer that takes an integer dtype from its template / its dtype argument; None: not resolved."""
        if isinstance(e, ast.Name) and depth < 4:
            # the binding that reaches this use: the last assignment of the name above it (`p = np.full_like(...); p = np.divide(..., out=p)`)
            binds = [n for n in ast.walk(fi.node) if isinstance(n, ast.Assign) and len(n.targets) == 1 and isinstance(n.targets[0], ast.Name) and n.targets[0].id == e.id
                     and n.lineno < getattr(e, "lineno", 10 ** 9)]
            if not binds:
                return None
            last = max(binds, key=lambda n: n.lineno)
            return float_buffer(last.value, depth + 1, fi)
        if isinstance(e, ast.Call) and isinstance(e.func, ast.Attribute) and isinstance(e.func.value, ast.Name) and e.func.value.id in ("np", "numpy"):
            kws = {k.arg: k.value for k in list(extra_kw) + list(e.keywords) if k.arg}
            dt = ast.unparse(kws["dtype"]) if "dtype" in kws else None
            if e.func.attr in ("zeros", "ones", "empty", "full"):
                return dt is None or dt in FLOATS
            if e.func.attr in ("zeros_like", "ones_like", "empty_like", "full_like"):
                return dt in FLOATS
            return None
        if isinstance(e, ast.Call) and isinstance(e.func, ast.Name) and depth < 4:
            if e.func.id in fi.module.functions:
                # a buffer made by a helper of the same module: every value the helper returns must be a float buffer
                hf = fi.module.functions[e.func.id]
                rets = [r.value for r in ast.walk(hf.node) if isinstance(r, ast.Return) and r.value is not None]
                rs = [float_buffer(r, depth + 1, hf) for r in rets]
                if not rs or any(r is None for r in rs):
                    return False if any(r is False for r in rs) else None
                return all(rs)
            tgt = fi.module.assigns.get(e.func.id)
            if isinstance(tgt, ast.Call) and ast.unparse(tgt.func) in ("partial", "functools.partial") and tgt.args and not tgt.args[1:]:
                # NAME = partial(np.full_like, fill_value=..., dtype=float): the call with the bound keywords
                call = ast.Call(func=tgt.args[0], args=list(e.args), keywords=list(e.keywords))
                return float_buffer(ast.copy_location(call, e), depth + 1, fi, extra_kw=list(tgt.keywords))
        return None
    n = 0
    for fj, c in [(fj, x) for fj in fns for x in ast.walk(fj.node) if isinstance(x, ast.Call)]:
        src = ast.unparse(c.func)
        if src not in ("np.divide", "np.true_divide", "numpy.divide", "numpy.true_divide"):
            continue
        out = next((k.value for k in c.keywords if k.arg == "out"), None)
        if out is None:
            continue
        n += 1
        inst = "%s:divide@%s" % (fj.name, ast.unparse(out)[:40])
        fb = float_buffer(out, 0, fj)
        if fb:
            chk.hold(rule, inst, "the quotient is written into a float buffer", nontrivial=False)
        elif fb is None:
            chk.unknown(rule, "%s: where the buffer out=%s comes from is not resolved (%s:%d)" % (inst, ast.unparse(out)[:60], fj.module.relpath, c.lineno))
        else:
            chk.violation(rule, fj.qualname, inst, "np.divide(..., out=%s): the buffer takes the dtype of its template" % ast.unparse(out)[:80],
                          "a float buffer (dtype=float): integer-valued replicates are inside the quantifier and numpy refuses to cast the float quotient into an integer buffer",
                          "%s:%d" % (fj.module.relpath, c.lineno))
    return n


def inputs_untouched(ctx, chk, f):
    """R13.8 the caller's replicate array, estimate and alpha are read-only in every branch (limits of a second call on the same replicates are the documented ones too)."""
    from ..evalr import storage_root
    n = 0
    for method in ("quantile", "bc", "bca"):
        for o in ctx.explore(lambda: ctx.ev.call(f, [TH, HAT, AL], {"method": Const(method)}), chk):
            if o.kind != "return":
                continue
            n += 1
            bad = [e for e in o.events if e["kind"] in ("inplace", "augstore", "store") and e.get("root") in (TH, HAT, AL)]
            if bad:
                e = bad[0]
                chk.violation("R13.8", Q, "%s:input-mutated" % method, "%s of %s (storage of %s)" % (e.get("how", e["kind"]), e.get("target", "?"), show(e["root"], 40)),
                              "theta, theta_hat and alpha are only read", "%s:%s" % (f.fi.module.relpath, getattr(e.get("node"), "lineno", "?")))
            else:
                chk.hold("R13.8", "%s:path[%s]" % (method, "".join("T" if t else "F" for _c, t in o.pc)), "no in-place write reaches the storage of theta, theta_hat or alpha")
    if n < 3:
        chk.unknown("R13.8", "only %d return paths analysed" % n)


def run(ctx, chk, tier):
    own = chk.pid == "C13"   # as a prerequisite of C14 / C18 the host's own rule text and explanation stay
    saved = (getattr(chk, "rule_text", ""), getattr(chk, "explanation", ""))
    chk.rule_text = ("one obligation per formula component (levels, bias correction, acceleration, per-component quantile, axis roles) for methods quantile/bc/bca; "
                     "non-trivial = term mentions theta/theta_hat/alpha")
    chk.explanation = ("utils.bootstrap_ci is specialised for the three methods; the derived terms (value-preserving reshapes dropped, masked gather/scatter lifted to an "
                       "elementwise select) are compared in normal form with the documented Efron-Hastie formulas: quantile levels alpha/2 and 1-alpha/2 over the replicate "
                       "axis; z0 = ppf(#{theta <= theta_hat}/#{not NaN}); bc: cdf(2 z0 + z_alpha); bca: a = nansum(d^3)/(6 nansum(d^2)^1.5) (0 where undefined), "
                       "cdf(z0 + s/(1 - a s)) where z0 finite; per-component nanquantile over axis 0. Axis roles of the quantile branch are inferred (replicate N, "
                       "component Y*, alpha Z, limit LH) and must arrive as Y*+Z+(LH) before the final reshape.")
    if not own:
        chk.rule_text, chk.explanation = saved
    chk.trusted |= {"scipy.stats.norm ppf/cdf identities (ppf(1-x) = -ppf(x))", "numpy.nanquantile(a, q, axis) result axes = q axes + remaining axes",
                    "numpy.moveaxis(source, destination)", "reshape preserves C order"}
    chk.assumptions = ["ordering / nesting / range corollaries are mathematics over the verified formula and are not separately decided"]
    f = ctx.fn(Q)
    inputs_untouched(ctx, chk, f)
    if float_out_buffers(ctx, chk) < 1:
        chk.unknown("R13.9", "no guarded division with an out= buffer found in the utils module")
    # ---------------- quantile
    outs = ctx.explore(lambda: ctx.ev.call(f, [TH, HAT, AL], {"method": Const("quantile")}), chk)
    rets = returns(outs)
    if len(rets) != 1 or rets[0].unmodelled:
        chk.unknown("R13.1", "quantile branch: %d return paths %s" % (len(rets), rets and unmodelled_text(rets[0])))
    else:
        v = rets[0].value
        nq = [a for a in atoms_of(v) if isinstance(a, App) and a.fn in ("nanquantile", "quantile")]
        if len(nq) != 1:
            chk.unknown("R13.1", "quantile branch does not use exactly one quantile call")
        else:
            n = nq[0]
            qarg = strip_shape(n.kwd("q") if n.kwd("q") is not None else n.args[1])
            want_q = App("stack", (Tup([div(AL, Const(2)), sub(Const(1), div(AL, Const(2)))]),), AX0)
            data_ok = n.args[0] == TH and n.kwd("axis") == Const(0) and n.fn == "nanquantile"
            if same(qarg, want_q) and data_ok:
                chk.hold("R13.1", "quantile-levels", "nanquantile(theta, q=[alpha/2, 1-alpha/2], axis=0)")
            else:
                chk.violation("R13.1", Q, "quantile-levels", "%s(%s, q=%s, axis=%s)" % (n.fn, show(n.args[0], 60), show(qarg, 200), show(n.kwd("axis")) if n.kwd("axis") is not None else "?"),
                              "nanquantile(theta, q=stack([alpha/2, 1 - alpha/2], axis=0), axis=0)", ctx.where(Q))
            # R13.7 axis roles
            env = {TH: ["N", "Y*"], AL: ["Z"], App("reshape", (AL, Const(-1))): ["Z"]}
            inner = v
            if isinstance(inner, App) and inner.fn == "reshape":
                target = inner.args[1]
                inner = inner.args[0]
                r = roles_of(inner, env)
                from ..terms import Star
                sh_tail = App("getitem", (App("shape", (TH,)), App("slice", (Const(1), Const(None), Const(None)))))
                want_shape = Tup([Star(sh_tail), Star(App("shape", (AL,))), Const(2)])
                tgt_ok = target.key == want_shape.key
                if r is None:
                    chk.unknown("R13.7", "axis roles of %s not inferable" % show(inner, 160))
                elif r == ["Y*", "Z", "LH"] and tgt_ok:
                    chk.hold("R13.7", "quantile-axes", "axes before the final reshape are %s; reshape target metric_shape + alpha_shape + (2,)" % r)
                else:
                    chk.violation("R13.7", Q, "quantile-axes", "axes %s reshaped to %s" % (r, show(target, 120)), "['Y*', 'Z', 'LH'] reshaped to theta.shape[1:] + alpha.shape + (2,)", ctx.where(Q))
            else:
                chk.unknown("R13.7", "quantile branch does not end in a reshape")
    # ---------------- bc / bca
    for method in ("bc", "bca"):
        outs = ctx.explore(lambda: ctx.ev.call(f, [TH, HAT, AL], {"method": Const(method)}), chk)
        rets = returns(outs)
        if len(rets) != 1 or rets[0].unmodelled:
            chk.unknown("R13.3", "%s branch: %d return paths %s" % (method, len(rets), rets and unmodelled_text(rets[0])))
            continue
        o = rets[0]
        v = o.value
        while isinstance(v, App) and v.fn in ("reshape", "after_loop"):
            v = v.args[0]
        fors = [e for e in o.events if e["kind"] == "for"]
        if not (isinstance(v, App) and v.fn == "store" and fors):
            chk.unknown("R13.5", "%s: per-component loop not recognised: %s" % (method, show(v, 160)))
            continue
        j = v.args[1]
        call = v.args[2]
        # R13.9 the buffer that receives the (interpolated) quantiles is floating point
        buf = v
        while isinstance(buf, App) and buf.fn in ("store", "after_loop", "carried", "reshape") and buf.args:
            buf = buf.args[0]
        flt = isinstance(buf, App) and ((buf.fn in ("empty", "zeros", "ones", "full") and buf.kwd("dtype") is None)
                                        or (buf.fn.endswith("_like") and buf.kwd("dtype") == Const("float")))
        if flt:
            chk.hold("R13.9", method + ":limit-buffer", "limits are stored into a float64 buffer: %s" % show(buf, 80))
        elif isinstance(buf, App) and (buf.fn in ("empty", "zeros", "ones", "full") or buf.fn.endswith("_like")):
            chk.violation("R13.9", Q, method + ":limit-buffer", "limits stored into %s (dtype of the replicates / a non-float dtype: interpolated quantiles are truncated for integer metrics)" % show(buf, 120),
                          "a floating-point buffer, e.g. np.empty((metric_size, 2))", ctx.where(Q))
        else:
            chk.unknown("R13.9", "%s: buffer receiving the limits not recognised: %s" % (method, show(buf, 100)))
        if not (isinstance(call, App) and call.fn in ("nanquantile", "quantile")):
            chk.unknown("R13.5", "%s: component value is not a quantile call" % method)
            continue
        data = strip_shape(call.args[0])
        full = App("slice", (Const(None), Const(None), Const(None)))
        qv = call.kwd("q") if call.kwd("q") is not None else (call.args[1] if len(call.args) > 1 else None)
        comp_ok = (call.fn == "nanquantile" and data == App("getitem", (TH, Tup([full, j]))) and call.kwd("axis") == Const(0))
        if comp_ok:
            chk.hold("R13.5", method + ":per-component", "ci[j] = nanquantile(theta[:, j], [lo_j, hi_j], axis=0)  (NaN-aware, replicate axis)")
        else:
            chk.violation("R13.5", Q, method + ":per-component", "%s(%s, axis=%s)" % (call.fn, show(data, 120), show(call.kwd("axis")) if call.kwd("axis") is not None else "?"),
                          "nanquantile(theta[:, j], q=[lo_j, hi_j], axis=0)", ctx.where(Q))
        if isinstance(qv, App) and qv.fn == "stack" and len(qv.args) == 1 and isinstance(qv.args[0], Tup) and qv.kwd("axis") in (Const(-1), Const(0)) \
                and all(isinstance(x, App) and x.fn == "getitem" and x.args[1] == j for x in qv.args[0].items):
            qv = qv.args[0]   # a stacked pair of per-component scalars is the pair itself
        if not (isinstance(qv, Tup) and len(qv.items) == 2 and all(isinstance(x, App) and x.fn == "getitem" and x.args[1] == j for x in qv.items)):
            chk.unknown("R13.5", "%s: quantile levels are not (lo[j], hi[j])" % method)
            continue
        got_lo, got_hi = (lift_masks(strip_shape(x.args[0])) for x in qv.items)
        want_lo, want_hi = reference(method)
        rule = "R13.3" if method == "bc" else "R13.4"
        for nm, got, want in (("lower", got_lo, want_lo), ("upper", got_hi, want_hi)):
            if same(got, want):
                chk.hold(rule, "%s:%s-level" % (method, nm), "level = %s" % show(got, 300))
            else:
                if any(isinstance(a, App) and a.fn.startswith("ext:") for a in atoms_of(got)):
                    chk.unknown(rule, "%s %s level uses constructs outside the model" % (method, nm))
                    continue
                d = first_diff(got, want)
                chk.violation(rule, Q, "%s:%s-level" % (method, nm), "differs at %s: %s" % (d[0], show(d[1], 300)), show(d[2], 300), ctx.where(Q))
        # raise when theta_hat is missing
    outs = ctx.explore(lambda: ctx.ev.call(f, [TH, Const(None), AL], {"method": Const("bca")}), chk)
    if raises(outs) and not returns(outs):
        chk.hold("R13.2", "theta_hat-required", "bc/bca without theta_hat raises ValueError", nontrivial=False)
    else:
        chk.violation("R13.2", Q, "theta_hat-required", "returns", "ValueError when theta_hat is None for bc/bca", ctx.where(Q))
    chk.floor("R13.3", 2, "bc levels")
    chk.floor("R13.4", 2, "bca levels")


def add_shapes():
    sh = App("getitem", (App("shape", (TH,)), App("slice", (Const(1), Const(None), Const(None)))))
    return mk_num(to_poly(sh) + to_poly(App("shape", (AL,))))


def first_diff(a, b, path="level"):
    from .c07 import first_difference
    d = first_difference(a, b, path)
    return d or (path, a, b)
