"""C16 — ROC confidence bands are well-formed envelopes of pointwise rectangles (DESIGN §4 C16)."""
from __future__ import annotations

from fractions import Fraction

from ..conform import sweep
from ..evalr import Obj, FuncV, PartialV, LambdaV
from ..mirror import lint
from ..numeval import CannotEvaluate, evaluate
from ..spec import SCORES, POS, NEG, EP, EN, returns, raises, unmodelled_text, pc_text
from ..terms import (App, Const, Num, Sym, Tup, Vec, same, show, sub, add, mul, div, neg, atoms_of, to_poly, cmp0, conj, subst, mk_num, V)
from ..simp import mk_app
from .c11 import make_config

LEVEL = "other"
RC = "score_analysis.roc_curve."
XC = "score_analysis.experimental.roc_ci."
BANDS = [RC + "roc_with_ci", XC + "pointwise_band_ci", XC + "simultaneous_joint_region_ci", XC + "fixed_width_band_ci"]
HP, HN = App("len", (POS,)), App("len", (NEG,))


def rule_of_three(ctx, chk):
    q = RC + "_apply_rule_of_three"
    Pv, CI = Sym("p", ("param", "array", "notnone")), Sym("ci", ("param", "array", "notnone"))
    AL, N = Sym("alpha", ("float", "notnone")), Sym("n", ("int", "notnone", "positive"))
    outs = ctx.explore(lambda: ctx.ev.call(ctx.fn(q), [], {"p": Pv, "ci": CI, "alpha": AL, "n": N}), chk)
    rets = returns(outs)
    if len(rets) != 1 or rets[0].unmodelled:
        chk.unknown("R16.4", "_apply_rule_of_three: %d return paths %s" % (len(rets), rets and unmodelled_text(rets[0])))
        return
    v = rets[0].value
    layers = []
    while isinstance(v, App) and v.fn == "where":
        layers.append((v.args[0], v.args[1]))
        v = v.args[2]
    if v != CI or len(layers) != 2:
        chk.unknown("R16.4", "rule-of-three result is not two nested selects over ci: %s" % show(rets[0].value, 200))
        return
    root = mk_app("pow", [AL, div(Const(1), N)])
    lower_iv, upper_iv = [Const(0), sub(Const(1), root)], [root, Const(1)]
    if not any(Pv in atoms_of(c) for c, _ in layers):
        chk.unknown("R16.4", "trigger conditions do not mention p")
        return
    pa = Pv
    kinds = {}
    for cond, val in layers:
        items = None
        vv = val
        while isinstance(vv, Tup) and len(vv.items) == 1:
            vv = vv.items[0]
        if isinstance(vv, Tup) and len(vv.items) == 2:
            items = list(vv.items)
        if items is None:
            chk.unknown("R16.5", "correction value not understood: %s" % show(val, 120))
            continue
        which = "lower" if same(items[0], Const(0)) else "upper" if same(items[1], Const(1)) else None
        if which is None:
            chk.violation("R16.5", q, "interval", show(val, 120), "[0, 1 - alpha^(1/n)] or [alpha^(1/n), 1]", ctx.where(q))
            continue
        want = lower_iv if which == "lower" else upper_iv
        if same(items[0], want[0]) and same(items[1], want[1]):
            chk.hold("R16.5", which + "-interval", "%s correction = [%s, %s]" % (which, show(items[0], 60), show(items[1], 60)))
        else:
            chk.violation("R16.5", q, which + "-interval", "[%s, %s]" % (show(items[0], 80), show(items[1], 80)), "[%s, %s]" % (show(want[0], 60), show(want[1], 60)), ctx.where(q))
        kinds[which] = cond
    # R16.4 trigger strictness on the integer grid p = k/n
    for which, cond in kinds.items():
        bad = None
        try:
            for n in (1, 2, 3, 7, 10 ** 6):
                ks = range(n + 1) if n <= 7 else (0, 1, 2, 5, n - 5, n - 2, n - 1, n)
                for k in ks:
                    env = {pa: Fraction(k, n), N: Fraction(n), AL: Fraction(1, 20)}
                    got = bool(evaluate(cond, env))
                    want = (k == 0) if which == "lower" else (k == n)
                    if got != want and bad is None:
                        bad = "n=%d, observed count k=%d (rate %s): %s trigger is %s" % (n, k, Fraction(k, n), which, got)
        except CannotEvaluate as e:
            chk.unknown("R16.4", "%s trigger %s: %s" % (which, show(cond, 100), e))
            continue
        if bad is None:
            chk.hold("R16.4", which + "-trigger", "%s correction applies iff the observed count is exactly %s: %s" % (which, "0" if which == "lower" else "n", show(cond, 100)))
        else:
            chk.violation("R16.4", q, which + "-trigger", "%s   [%s]" % (show(cond, 140), bad), "true exactly when the observed rate is %s" % ("0" if which == "lower" else "1"), ctx.where(q))
    # R16.4 (IEEE): the same triggers evaluated in double arithmetic, with the rate computed as the double quotient k/n
    ieee_triggers(ctx, chk, q, Pv, CI, AL, N)
    # ... which presupposes that the observed FNR / FPR ARE single double quotients count / total: a rate formed as the complement of its
    # sibling (1 - TPR) is up to one ulp below k/n, and `p < 1/n` then fires for k = 1 (n = 5, 6, 10, 13, ...)
    Mx = Sym("m", ("param", "array", "notnone"))
    for rate in ("fnr", "fpr"):
        fq = "score_analysis.metrics." + rate
        ctx.ev.complement_keys = set()
        try:
            outs_ = ctx.explore(lambda: ctx.ev.call(ctx.fn(fq), [Mx], {}), chk)
        except Exception as e:  # noqa: BLE001
            chk.unknown("R16.4", "metrics.%s: %s" % (rate, str(e)[:100]))
            continue
        rets_ = returns(outs_)
        if len(rets_) != 1 or not hasattr(rets_[0].value, "key"):
            chk.unknown("R16.4", "metrics.%s: %d return paths" % (rate, len(rets_)))
        elif rets_[0].value.key in ctx.ev.complement_keys:
            chk.violation("R16.4", fq, "rate-by-complement:" + rate, "metrics.%s returns 1 - <sibling rate>: %s" % (rate, show(rets_[0].value, 120)),
                          "the quotient count / total itself (the triggers `p < 1/n` and `p > (n-1)/n` compare it with another double quotient; a complement is up to one ulp off and "
                          "lets a rate of exactly 1/n count as 0)", ctx.where(fq))
        else:
            chk.hold("R16.4", "rate-quotient:" + rate, "metrics.%s is not formed as a floating-point complement" % rate, nontrivial=False)
    # override order: upper applied last (n = 1: rate 1 must win)
    if len(layers) == 2 and set(kinds) == {"lower", "upper"}:
        chk.hold("R16.4", "both-corrections", "lower and upper corrections both present", nontrivial=False)
    else:
        chk.violation("R16.4", q, "both-corrections", sorted(kinds), "a lower and an upper correction", ctx.where(q))


def ieee_triggers(ctx, chk, q, Pv, CI, AL, N, nmax=1500):
    from .c03 import fcond
    ev = ctx.ev
    ev.raw_float = True
    try:
        outs = ctx.explore(lambda: ev.call(ctx.fn(q), [], {"p": Pv, "ci": CI, "alpha": AL, "n": N}), chk)
    finally:
        ev.raw_float = False
    rets = returns(outs)
    if len(rets) != 1:
        chk.unknown("R16.4", "IEEE evaluation: %d return paths" % len(rets))
        return
    v = rets[0].value
    conds = []
    while isinstance(v, App) and v.fn == "where":
        conds.append(v.args[0])
        v = v.args[2]
    if len(conds) != 2:
        chk.unknown("R16.4", "IEEE evaluation: trigger conditions not recognised")
        return
    bad = {}
    try:
        for cond in conds:
            which = "lower" if fcond(cond, {Pv: 0.0, N: 3, AL: 0.05}) else "upper"
            for n in range(1, nmax + 1):
                for k in {0, 1, n - 1, n}:
                    if k < 0:
                        continue
                    got = fcond(cond, {Pv: k / n, N: n, AL: 0.05})
                    want = (k == 0) if which == "lower" else (k == n)
                    if got != want and which not in bad:
                        bad[which] = "n=%d, observed count k=%d (rate %r as a double): %s trigger is %s in double arithmetic" % (n, k, k / n, which, got)
            if which not in bad:
                chk.hold("R16.4", which + "-trigger-ieee", "in double arithmetic the %s trigger fires iff the count is exactly %s for all n <= %d" % (which, "0" if which == "lower" else "n", nmax))
    except CannotEvaluate as e:
        chk.unknown("R16.4", "IEEE evaluation of the triggers: %s" % e)
        return
    for which, msg in bad.items():
        chk.violation("R16.4", q, which + "-trigger-ieee", msg, "true exactly when the observed rate is %s (a rate of 1/n or (n-1)/n keeps its bootstrap interval)" % ("0" if which == "lower" else "1"), ctx.where(q))


def aggregate(ctx, chk):
    q = RC + "_aggregate_rectangles"
    X, DX, DY = (Sym(n, ("param", "array", "notnone")) for n in ("x", "dxp", "dyp"))
    # arguments by ROLE (parameter name), not by position: the private helper's parameter order is not part of the property
    fi_ = ctx.db.function(q)
    pnames = [a.arg for a in fi_.node.args.posonlyargs + fi_.node.args.args]
    if set(pnames) == {"x", "dxp", "dyp"} and not fi_.node.args.posonlyargs:
        outs = ctx.explore(lambda: ctx.ev.call(ctx.fn(q), [], {"x": X, "dxp": DX, "dyp": DY}), chk)
    else:
        outs = ctx.explore(lambda: ctx.ev.call(ctx.fn(q), [X, DX, DY], {}), chk)
    rets = returns(outs)
    if len(rets) != 1 or rets[0].unmodelled:
        chk.unknown("R16.6", "_aggregate_rectangles: %d return paths %s" % (len(rets), rets and unmodelled_text(rets[0])))
        return
    o = rets[0]
    muts = [e for e in o.events if e["kind"] == "inplace"]
    if muts:
        for e in muts:
            chk.violation("R16.6", q, "mutates:" + show(e["root"]), "%s on %s" % (e["how"], e["target"]), "inputs are copied before the in-place envelope update", "%s line %s" % (ctx.where(q), getattr(e["node"], "lineno", "?")))
    else:
        chk.hold("R16.6", "no-input-mutation", "in-place updates only touch fresh copies of dyp[..., 0/1]")
    v = o.value
    cols = _band_columns(v, DY)
    if cols is None:
        chk.unknown("R16.7", "_aggregate_rectangles result is neither stack([lower, upper], axis=-1) nor an (n, 2) buffer filled column by column: %s" % show(v, 200))
        return
    if isinstance(cols, str):
        chk.violation("R16.7", q, "result-shape", cols + ": " + show(v, 160), "stack([lower, upper], axis=-1)  (shape (n, 2))", ctx.where(q))
        return
    chk.hold("R16.7", "aggregate-shape", "ci[..., 0] = lower, ci[..., 1] = upper (shape (n, 2))")
    full = App("slice", (Const(None), Const(None), Const(None)))
    for (init_ok, upd), col, red, comb, nm in ((cols[0], 0, "amin", "min", "lower"), (cols[1], 1, "amax", "max", "upper")):
        if upd is None:
            chk.unknown("R16.6", "%s envelope not a per-point update" % nm)
            continue
        j, val = upd
        if not (isinstance(j, Sym) and "loopvar" in j.tags):
            chk.unknown("R16.6", "%s envelope is not written point by point (index %s): the vectorised form is outside the rule's vocabulary" % (nm, show(j, 60)))
            continue
        init = App("getitem", (DY, Tup([Const(Ellipsis), Const(col)])))
        own = App("getitem", (App("fresh", (init,)), j))
        # the point's own limit may be read through any wrapper of the initial column (a fresh copy, the loop-carried value, the buffer column)
        owns = {}

        def note(t, init=init, j=j, owns=owns):
            if isinstance(t, App) and t.fn == "getitem" and len(t.args) == 2 and t.args[1] == j and _unwrap(t.args[0]) == init:
                owns[t] = own
        from ..terms import walk
        walk(val, note)
        val = subst(val, owns) if owns else val
        # the column taken once and masked afterwards (`col = dyp[..., c]; col[mask]`) is `dyp[mask, c]` for the (n, 2) array of the contract
        colsel = {}

        def note2(t, init=init, colsel=colsel):
            if isinstance(t, App) and t.fn == "getitem" and len(t.args) == 2 and t.args[0] == init and not isinstance(t.args[1], (Tup, Sym)) \
                    and isinstance(t.args[1], App) and t.args[1].fn in ("and", "or", "le0", "lt0", "not"):
                colsel[t] = App("getitem", (DY, Tup([t.args[1], Const(col)])))
        walk(val, note2)
        val = subst(val, colsel) if colsel else val
        xj = App("getitem", (X, j))
        inside = conj([cmp0("le", to_poly(sub(App("getitem", (DX, Tup([full, Const(0)]))), xj))), cmp0("le", to_poly(sub(xj, App("getitem", (DX, Tup([full, Const(1)]))))))])
        rect = App(red, (App("getitem", (DY, Tup([inside, Const(col)]))),), [("initial", own)])
        want = mk_app(comb, [own, rect])
        if same(val, want) and init_ok:
            chk.hold("R16.6", nm + "-envelope", "%s[j] = %s(own, %s over rectangles with dxp[:,0] <= x[j] <= dxp[:,1])" % (nm, comb, comb))
        else:
            # localise
            why = []
            if not init_ok:
                why.append("the column does not start as a copy of dyp[..., %d]" % col)
            conds = [a for a in atoms_of(val) if isinstance(a, App) and a.fn == "getitem" and isinstance(a.args[1], Tup) and a.args[0] == DY]
            if conds and conds[0].args[1].items[0] != inside:
                why.append("inside-test %s is not the closed interval test %s" % (show(conds[0].args[1].items[0], 160), show(inside, 160)))
            chk.violation("R16.6", q, nm + "-envelope", "%s   %s" % (show(val, 300), "; ".join(why)), show(want, 300), ctx.where(q))


def _unwrap(t):
    while isinstance(t, App) and t.fn in ("fresh", "carried", "after_loop") and t.args:
        t = t.args[0]
    return t


def _band_columns(v, DY):
    """The two columns of the returned band as ((initial column is a copy of dyp[..., c], (loop index, written value) | None), ...);
    a string when the result has another layout; None when the form is not understood.
    Understood: stack([lower, upper], axis=-1) of two per-point updated copies, and an (n, 2) buffer written column by column
    (whole columns through `[..., c]`, single points through a view of the column)."""
    def init_of(c):
        return App("getitem", (DY, Tup([Const(Ellipsis), Const(c)])))
    if isinstance(v, App) and v.fn == "stack":
        if not (v.kwd("axis") == Const(-1) and isinstance(v.args[0], Tup) and len(v.args[0].items) == 2):
            return "stacked along another axis / other than two columns"
        out = []
        for c, part in enumerate(v.args[0].items):
            t = part
            while isinstance(t, App) and t.fn == "after_loop":
                t = t.args[0]
            if not (isinstance(t, App) and t.fn == "store"):
                out.append((False, None))
                continue
            base, j, val = t.args
            ok = isinstance(base, App) and base.fn == "carried" and base.args[0] == App("fresh", (init_of(c),))
            out.append((ok, (j, val)))
        return tuple(out)
    # buffer form
    chain = []
    t = v
    while isinstance(t, App) and t.fn in ("store", "after_loop", "carried"):
        if t.fn == "store":
            chain.append((t.args[1], t.args[2]))
        t = t.args[0]
    if not (isinstance(t, App) and t.fn in ("empty", "zeros") and chain):
        return None
    sh = t.args[0]
    if not (isinstance(sh, Tup) and sh.items and sh.items[-1] == Const(2)):
        return "buffer whose last axis is not 2"
    chain.reverse()
    init_ok = {0: False, 1: False}
    upd = {0: None, 1: None}
    for idx, val in chain:
        if isinstance(idx, Tup) and len(idx.items) == 2 and idx.items[0] == Const(Ellipsis) and idx.items[1] in (Const(0), Const(1)):
            c = idx.items[1].value
            init_ok[c] = _unwrap(val) == init_of(c) and upd[c] is None
            continue
        if isinstance(idx, App) and idx.fn == "view_index" and len(idx.args) == 2 and isinstance(idx.args[0], Tup) and len(idx.args[0].items) == 2 \
                and idx.args[0].items[0] == Const(Ellipsis) and idx.args[0].items[1] in (Const(0), Const(1)):
            c = idx.args[0].items[1].value
            if upd[c] is not None:
                return None
            upd[c] = (idx.args[1], val)
            continue
        return None
    return ((init_ok[0], upd[0]), (init_ok[1], upd[1]))


class FakeScores:
    pass


def support_result(ev_, fi, bound):
    """What the stubbed support-point helper hands back: the threshold array THR - in whatever FORM the helper returns it.  A helper that
    returns the bare array gets THR; one that returns a record built in its return statement (`_SupportPoints(thresholds=thresholds,
    fnr=scores.fnr(thresholds), ...)`) gets that expression evaluated with the local threshold array bound to THR (the rates then go through
    the same stubs the callers' own evaluations used to)."""
    import ast
    from ..evalr import Frame
    THR = Sym("THR", ("array", "notnone"))
    rets = [n for n in ast.walk(fi.node) if isinstance(n, ast.Return) and n.value is not None]
    if not rets or all(isinstance(r.value, ast.Name) for r in rets):
        return THR
    def builds_record(v):
        # a tuple literal, or a call of a CLASS of the module (a NamedTuple / dataclass record) - not a call of a helper function
        if isinstance(v, ast.Tuple):
            return True
        if isinstance(v, ast.Call) and isinstance(v.func, ast.Name):
            return v.func.id in fi.module.classes
        return False
    if len(rets) == 1 and not builds_record(rets[0].value):
        return THR          # `return _orient(scores, thresholds, x_axis)`: still the bare threshold array
    if len(rets) == 1 and isinstance(rets[0].value, (ast.Call, ast.Tuple)):
        frame = Frame(fi.module, fi, None, None)
        frame.vars.update(bound)
        assigned = {t.id for n in ast.walk(fi.node) if isinstance(n, (ast.Assign, ast.AugAssign, ast.AnnAssign))
                    for t in ast.walk(n.targets[0] if isinstance(n, ast.Assign) else n.target) if isinstance(t, ast.Name)}
        locals_used = sorted({n.id for n in ast.walk(rets[0].value) if isinstance(n, ast.Name) and isinstance(n.ctx, ast.Load) and n.id in assigned})
        if len(locals_used) != 1:
            return NotImplemented          # more than the threshold array is computed locally: run the helper itself
        frame.vars[locals_used[0]] = THR   # the local that holds the support thresholds (possibly re-binding a parameter of that name)
        try:
            return ev_.eval(rets[0].value, frame)
        except Exception:  # noqa: BLE001
            return NotImplemented
    return NotImplemented


def band_functions(ctx, chk):
    """roc_with_ci / pointwise_band_ci / simultaneous_joint_region_ci with the Scores API stubbed."""
    ev = ctx.ev
    names = ("fnr", "fpr", "threshold_at_fnr", "threshold_at_fpr")
    for q in BANDS[:3]:
        calls = {"r3": [], "agg": [], "bci": [], "metric": None}

        def mk_rate(nm):
            def h(ev_, fi, bound):
                arg = [v for k, v in bound.items() if k not in ("self", "method")][0]
                who = bound["self"].label if isinstance(bound["self"], Obj) else "?"
                return App(nm.upper() + "@" + who, (arg,))
            return h

        def st_support(ev_, fi, bound):
            return support_result(ev_, fi, bound)

        def st_r3(ev_, fi, bound):
            calls["r3"].append(dict(bound))
            return App("R3", (bound["p"], bound["ci"], bound["n"]))

        def st_agg(ev_, fi, bound):
            calls["agg"].append(dict(bound))
            return App("AGG", (bound["x"], bound["dxp"], bound["dyp"]))

        def st_bci(ev_, fi, bound):
            calls["bci"].append(dict(bound))
            m = bound.get("metric")
            if isinstance(m, (FuncV, PartialV, LambdaV)):
                smp = ctx.scores_obj("pos", "pos")
                smp.label = "sample"
                calls["metric"] = ev_.call(m, [smp], {})
            return Sym("JOINT", ("array", "notnone"))

        for nm in names:
            ev.stubs[SCORES + "." + nm] = mk_rate(nm)
        ev.stubs[RC + "_find_support_thresholds"] = st_support
        ev.stubs[RC + "_apply_rule_of_three"] = st_r3
        ev.stubs[RC + "_aggregate_rectangles"] = st_agg
        ev.stubs[SCORES + ".bootstrap_ci"] = st_bci
        AL = Sym("alpha", ("float", "notnone"))
        cfg = Sym("config", ("object", "notnone"))
        try:
            def thunk():
                s = ctx.scores_obj("pos", "pos")
                s.label = "source"
                return ev.call(ctx.fn(q), [s], {"alpha": AL, "config": cfg})
            outs = ctx.explore(thunk, chk)
        finally:
            for k in [SCORES + "." + nm for nm in names] + [RC + "_find_support_thresholds", RC + "_apply_rule_of_three", RC + "_aggregate_rectangles", SCORES + ".bootstrap_ci"]:
                ev.stubs.pop(k, None)
        rets = returns(outs)
        short = q.split(".")[-1]
        if len(rets) != 1 or not isinstance(rets[0].value, Obj):
            chk.unknown("R16.2", "%s: %d return paths" % (short, len(rets)))
            continue
        r = rets[0].value
        THR = Sym("THR", ("array", "notnone"))
        fnr, fpr = App("FNR@source", (THR,)), App("FPR@source", (THR,))
        ok = r.attrs.get("thresholds") == THR and r.attrs.get("fnr") == fnr and r.attrs.get("fpr") == fpr
        if ok:
            chk.hold("R16.2", short + ":curve", "fnr/fpr are the object's rates at the returned thresholds")
        else:
            chk.violation("R16.2", q, "curve", "thresholds=%s fnr=%s fpr=%s" % tuple(show(r.attrs.get(k), 60) for k in ("thresholds", "fnr", "fpr")),
                          "thresholds, scores.fnr(thresholds), scores.fpr(thresholds)", ctx.where(q))
        if "simultaneous" not in q:
            # joint bootstrap metric and unpacking
            m = calls["metric"]
            want_m = App("stack", (Tup([App("FNR@sample", (App("THRESHOLD_AT_FPR@sample", (fpr,)),)), App("FPR@sample", (App("THRESHOLD_AT_FNR@sample", (fnr,)),))]),), [("axis", Const(0))])
            if m is not None and same(m, want_m):
                chk.hold("R16.2", short + ":joint-metric", "metric(sample) = stack([FNR at the FPR-matched threshold, FPR at the FNR-matched threshold], axis=0)")
            elif m is None and calls["bci"] and calls["bci"][-1].get("metric") is not None and not isinstance(calls["bci"][-1].get("metric"), V):
                chk.unknown("R16.2", "%s: the metric passed to bootstrap_ci is a callable the evaluator does not apply (%r)" % (short, calls["bci"][-1].get("metric")))
            else:
                chk.violation("R16.2", q, "joint-metric", show(m, 260) if m is not None else "no metric closure passed to bootstrap_ci", show(want_m, 260), ctx.where(q))
            b = calls["bci"][0] if calls["bci"] else {}
            if b.get("alpha") == AL and b.get("config") == cfg:
                chk.hold("R16.2", short + ":alpha-config", "bootstrap_ci receives the caller's alpha and config")
            else:
                chk.violation("R16.2", q, "alpha-config", "alpha=%s config=%s" % (show(b.get("alpha"), 40) if b.get("alpha") is not None else "default", show(b.get("config"), 40) if b.get("config") is not None else "default"),
                              "alpha=alpha, config=config", ctx.where(q))
            J = Sym("JOINT", ("array", "notnone"))
            want_r3 = {"fnr": (fnr, App("getitem", (J, Const(0))), add(HP, EP)), "fpr": (fpr, App("getitem", (J, Const(1))), add(HN, EN))}
            seen = {}
            for c in calls["r3"]:
                for nm, (p_, ci_, n_) in want_r3.items():
                    if c.get("p") == p_:
                        seen[nm] = c
            for nm, (p_, ci_, n_) in want_r3.items():
                c = seen.get(nm)
                if c is None:
                    chk.violation("R16.3", q, "rule-of-three:" + nm, "no rule-of-three call for %s" % nm, "a correction of the %s interval" % nm, ctx.where(q))
                    continue
                if not same(c.get("ci"), ci_):
                    chk.violation("R16.2", q, "unpack:" + nm, show(c.get("ci"), 100), show(ci_, 100) + " (component order of the joint metric)", ctx.where(q))
                else:
                    chk.hold("R16.2", "%s:unpack:%s" % (short, nm), "%s interval = joint_ci[%d]" % (nm, 0 if nm == "fnr" else 1))
                if same(c.get("n"), n_) and c.get("alpha") == AL:
                    chk.hold("R16.3", "%s:n:%s" % (short, nm), "rule-of-three sample size = denominator of %s = %s" % (nm, show(n_, 60)))
                else:
                    chk.violation("R16.3", q, "rule-of-three-n:" + nm, "n=%s alpha=%s" % (show(c.get("n"), 100) if c.get("n") is not None else "?", show(c.get("alpha"), 40) if c.get("alpha") is not None else "?"),
                                  "n=%s (denominator of the rate, easy samples included), alpha=alpha" % show(n_, 60), ctx.where(q))
            fnr_ci = App("R3", (fnr, App("getitem", (J, Const(0))), add(HP, EP)))
            fpr_ci = App("R3", (fpr, App("getitem", (J, Const(1))), add(HN, EN)))
        else:
            fnr_ci = fpr_ci = None
        if "pointwise_band" in q:
            want = {"fnr_ci": fnr_ci, "fpr_ci": fpr_ci}
        elif fnr_ci is not None:
            want = {"fpr_ci": App("AGG", (fnr, fnr_ci, fpr_ci)), "fnr_ci": App("AGG", (fpr, fpr_ci, fnr_ci))}
        else:
            want = None
            a, b = r.attrs.get("fnr_ci"), r.attrs.get("fpr_ci")
            ok = (isinstance(a, App) and a.fn == "AGG" and isinstance(b, App) and b.fn == "AGG" and a.args[0] == fpr and b.args[0] == fnr
                  and a.args[1] == b.args[2] and a.args[2] == b.args[1])
            if ok:
                chk.hold("R16.2", short + ":bands", "fnr band = envelope over x=fpr of (fpr_ci, fnr_ci); fpr band = envelope over x=fnr of (fnr_ci, fpr_ci)")
            else:
                chk.violation("R16.2", q, "bands", "fnr_ci=%s fpr_ci=%s" % (show(a, 140), show(b, 140)), "mirrored envelope calls", ctx.where(q))
        if want:
            for k, w in want.items():
                g = r.attrs.get(k)
                if g is not None and same(g, w):
                    chk.hold("R16.2", "%s:%s" % (short, k), "%s = %s" % (k, show(w, 120)))
                else:
                    chk.violation("R16.2", q, "band:" + k, show(g, 200) if g is not None else "unset", show(w, 200), ctx.where(q))


def extra_point_counts(ctx, chk):
    """R16.9 every count handed to np.linspace for the extra support points is non-negative for each documented nb_points >= 0
    (whatever value roc_with_ci derives nb_extra_points from)."""
    from . import c15
    ev = ctx.ev
    NBP = Sym("nb_points", ("int", "param", "notnone"))
    caps = []

    def st_support(ev_, fi, bound):
        caps.append(bound.get("nb_extra_points"))
        return support_result(ev_, fi, bound)

    def st_bci(ev_, fi, bound):
        return Sym("JOINT", ("array", "notnone"))
    q = RC + "roc_with_ci"
    ev.stubs[RC + "_find_support_thresholds"] = st_support
    ev.stubs[SCORES + ".bootstrap_ci"] = st_bci
    try:
        for kw in ({"fnr": c15.F}, {"thresholds": c15.TH}, {}):
            c15.with_stubs(ctx, lambda: ctx.explore(lambda: ev.call(ctx.fn(q), [ctx.scores_obj("pos", "pos")], dict(kw, nb_points=NBP)), chk))
    except Exception as e:  # noqa: BLE001
        chk.unknown("R16.9", "roc_with_ci not explorable with symbolic nb_points: %s" % str(e)[:120])
        return
    finally:
        ev.stubs.pop(RC + "_find_support_thresholds", None)
        ev.stubs.pop(SCORES + ".bootstrap_ci", None)
    extras = {}
    for e in caps:
        if hasattr(e, "key"):
            extras[e.key] = e
    if not extras:
        chk.unknown("R16.9", "nb_extra_points handed to the support-point helper not observed")
        return
    f = ctx.fn(RC + "_find_support_thresholds")
    n_lin = 0
    for E in extras.values():
        args = {"fnr": c15.F, "fpr": Const(None), "thresholds": Const(None), "nb_points": NBP, "nb_extra_points": E, "x_axis": Const("fnr")}
        outs = c15.with_stubs(ctx, lambda: ctx.explore(lambda: ev.call(f, [ctx.scores_obj("pos", "pos")], dict(args)), chk))
        nums = {}
        for o in outs:
            terms = [o.value] if hasattr(o.value, "key") and not isinstance(o.value, Obj) else []
            if isinstance(o.value, Obj):        # a record (thresholds, fnr, fpr): every field
                terms += [v_ for v_ in o.value.attrs.values() if hasattr(v_, "key") and not isinstance(v_, Obj)]
            terms += [c for c, _t in o.pc]
            for t_ in terms:
                for a in atoms_of(t_):
                    if isinstance(a, App) and a.fn == "linspace":
                        num = a.kwd("num") if a.kwd("num") is not None else (a.args[2] if len(a.args) > 2 else None)
                        if num is not None:
                            nums[num.key] = num
        for num in nums.values():
            n_lin += 1
            syms = [a for a in atoms_of(num) if isinstance(a, Sym)]
            lens = {a: Fraction(3) for a in atoms_of(num) if isinstance(a, App) and a.fn == "len" and a.args[0] in (c15.F, c15.P, c15.TH)}
            if any(a != NBP and a not in (c15.F, c15.P, c15.TH) for a in syms):
                continue
            bad = None
            try:
                for k in (0, 1, 2, 3, 4, 5, 6, 7, 10, 100):
                    env_ = dict(lens)
                    env_[NBP] = Fraction(k)
                    v = evaluate(num, env_)
                    if v < 0 and bad is None:
                        bad = (k, v)
            except CannotEvaluate:
                continue
            inst = "linspace-count:%s" % show(num, 60)
            if bad:
                chk.violation("R16.9", q, inst, "np.linspace(num=%s) is %s for nb_points=%d (numpy raises ValueError for a negative count)" % (show(num, 80), bad[1], bad[0]),
                              "a non-negative number of extra points for every nb_points >= 0 the caller may pass with supplied support points", ctx.where(q))
            else:
                chk.hold("R16.9", inst, "count %s is non-negative for nb_points in {0..7, 10, 100}" % show(num, 60), nontrivial=bool(syms))
    if n_lin == 0:
        chk.unknown("R16.9", "no linspace count observed in the support-point helper")


def callee_preconditions(ctx, chk):
    """R16.8 argument checks of utils.bootstrap_ci accept what its callers pass: every raise path of the callee whose condition
    only constrains `alpha` is evaluated at each call site's alpha expression (in terms of the caller's own alpha in (0,1))."""
    from fractions import Fraction
    from ..evalr import Frame
    from ..numeval import evaluate, CannotEvaluate
    from ..terms import subst
    import ast as _ast
    ev = ctx.ev
    UB = "score_analysis.utils.bootstrap_ci"
    AL = Sym("alpha", ("float", "notnone"))
    TH_ = Sym("theta", ("param", "array", "notnone"))
    HAT_ = Sym("theta_hat", ("param", "array", "notnone"))
    guards = []
    for m in ("quantile", "bc", "bca"):
        for o in ctx.explore(lambda: ev.call(ctx.fn(UB), [TH_, HAT_, AL], {"method": Const(m)}), chk):
            if o.kind != "raise":
                continue
            conds = [(c, t) for c, t in o.pc]
            if conds and all(all((not isinstance(a, Sym)) or a == AL for a in atoms_of(c)) and any(a == AL for a in atoms_of(c)) for c, _t in conds):
                guards.append((m, conds, o))
    reps = [Fraction(1, 100), Fraction(1, 4), Fraction(1, 2), Fraction(3, 4), Fraction(99, 100)]
    # the callee itself must accept every alpha in (0, 1)
    def fires(conds, val):
        try:
            return all(bool(evaluate(c, {AL: val})) == t for c, t in conds)
        except CannotEvaluate:
            return None
    bad = [(m, v) for m, conds, _o in guards for v in reps if fires(conds, v)]
    if bad:
        chk.violation("R16.8", UB, "alpha-domain", "raises for alpha = %s (method %s)" % (bad[0][1], bad[0][0]), "accepts every alpha in (0, 1)", ctx.where(UB))
    n = 0
    for r in sweep(ctx.db):
        if r["callee"] != UB or r["verdict"] != "ok":
            continue
        call = r["node"]
        expr = None
        for k in call.keywords:
            if k.arg == "alpha":
                expr = k.value
        if expr is None and len(call.args) >= 3:
            expr = call.args[2]
        if expr is None:
            continue
        names = {x.id for x in _ast.walk(expr) if isinstance(x, _ast.Name)}
        fr = Frame(r["caller_fi"].module)
        for nm in names:
            fr.vars[nm] = AL if nm == "alpha" else Sym(nm, ("param", "notnone"))
        try:
            val = ev.eval(expr, fr)
        except Exception:  # noqa: BLE001
            continue
        if not hasattr(val, "key") or not all((not isinstance(a, Sym)) or a == AL for a in atoms_of(val)):
            continue
        n += 1
        site = "%s@%s:%d" % (r["caller"].split(".")[-1], r["relpath"], r["line"])
        hit = None
        for m, conds, _o in guards:
            for v in reps:
                try:
                    inner = evaluate(val, {AL: v})
                except CannotEvaluate:
                    continue
                if fires(conds, inner):
                    hit = (m, v, inner)
                    break
            if hit:
                break
        if hit:
            chk.violation("R16.8", r["caller"], "alpha-precondition:" + r["caller"].split(".")[-1],
                          "passes alpha=%s; for the documented alpha=%s this is %s and utils.bootstrap_ci raises (%s)" % (_ast.unparse(expr), hit[1], hit[2], pc_text(_o)[:100]),
                          "every alpha in (0, 1) of the caller is accepted by the callee", "%s:%d" % (r["relpath"], r["line"]))
        else:
            chk.hold("R16.8", site, "alpha=%s passes the callee's %d argument check(s) for alpha in {%s}" % (_ast.unparse(expr), len(guards), ", ".join(str(v) for v in reps)),
                     nontrivial=bool(guards))
    if n < 1:
        chk.unknown("R16.8", "no call site of utils.bootstrap_ci with an alpha expression found")


def run(ctx, chk, tier):
    from . import c01 as _c01
    _c01.flag_identity(ctx, chk)   # direction flags: identity comparisons need BinaryLabel members on every construction path
    chk.rule_text = ("call conformance of every resolvable internal call site; per band function: curve consistency, joint metric, unpack order, rule-of-three arguments, band roles; "
                     "rule-of-three trigger on the integer grid; envelope formula and purity; non-trivial = obligation mentions derived terms")
    chk.explanation = ("E5 binds every statically resolvable internal call against its callee's signature (the three experimental band functions are call sites of "
                       "_find_support_thresholds). The band functions are explored with the Scores API stubbed: rates are evaluated at the returned thresholds; the bootstrap metric is "
                       "stack([FNR at the FPR-matched threshold, FPR at the FNR-matched threshold]) and is unpacked in that order; the rule of three gets the denominator of the rate it "
                       "corrects; bands are the mirrored envelope calls. The trigger conditions are evaluated exactly on the integer grid p = k/n (they must select k = 0, k = n only); "
                       "the envelope is min/max over rectangles whose closed x-interval contains the point, on copies of the inputs. NaN-freeness/orderedness under random samplers are not decided.")
    chk.trusted |= {"Python call binding rules", "numpy.where select", "numpy.min/max with initial=", "closed interval test via two <= comparisons"}
    # ---- R16.1 conformance
    n = 0
    support_sites = 0
    for r in sweep(ctx.db):
        n += 1
        if r["callee"].endswith("_find_support_thresholds"):
            support_sites += 1
        if r["verdict"] == "ok":
            chk.hold("R16.1", "%s@%s:%d" % (r["callee"].split(".")[-1], r["relpath"], r["line"]), "call binds: " + r["src"][:80], nontrivial=False)
        elif r["verdict"] == "skip":
            continue
        else:
            chk.violation("R16.1", r["caller"], "call:%s" % r["callee"].split(".")[-1], "%s  ->  TypeError: %s" % (r["src"], r["verdict"]),
                          "a call that binds against %s" % r["callee"], "%s:%d" % (r["relpath"], r["line"]))
    if n < 120 or support_sites < 1:
        chk.unknown("R16.1", "only %d resolvable call sites (%d of the support-point helper); floors 120 / 1" % (n, support_sites))
    # positive control for the zero-finding rule
    import ast as _ast
    from ..conform import bind, signature
    f = ctx.db.function(RC + "_find_support_thresholds")
    sig_ = signature(f, False)
    # positive control: a call that leaves the helper's last REQUIRED parameter out must be rejected
    a_ = f.node.args
    nreq = len(a_.posonlyargs + a_.args) - len(a_.defaults)
    req_kwonly = [k.arg for k, d in zip(a_.kwonlyargs, a_.kw_defaults) if d is None]
    if nreq + len(req_kwonly) >= 1:
        names_ = [p.arg for p in (a_.posonlyargs + a_.args)[:nreq]] + req_kwonly
        ctrl = _ast.parse("f(%s)" % ", ".join("%s=x" % n_ for n_ in names_[:-1])).body[0].value
        if bind(sig_, ctrl) in (None, "skip"):
            chk.unknown("R16.1", "positive control failed: a call of the support-point helper without its required parameter %r was accepted" % names_[-1])
    rule_of_three(ctx, chk)
    aggregate(ctx, chk)
    band_functions(ctx, chk)
    callee_preconditions(ctx, chk)
    extra_point_counts(ctx, chk)
    from . import c15, c11
    # every built-in sampler delivers at least one scored positive and negative (the band functions set thresholds at FNR/FPR on each replicate)
    c11.sample_wellformed(ctx, chk)
    c15.support_args_untouched(ctx, chk, "R16.7", with_extra=True)
    c15.curve_owns_arrays(ctx, chk, "R16.10", tuple(BANDS))
    # prerequisite: the bootstrapped statistic calls threshold_at_fpr(fpr) / threshold_at_fnr(fnr) on the very arrays that are returned in the curve;
    # a setter that rescales its target array in place makes the returned rates disagree with the thresholds
    from . import c10
    c10.purity(ctx, chk, only=("Scores.threshold_at_fnr", "Scores.threshold_at_fpr", "Scores.fnr", "Scores.fpr"))
    # the curve's rates are read off cm(): decision-rule counts at the thresholds AS GIVEN (a cast of the threshold to the scores' dtype moves
    # the one-ulp end points back onto the extreme scores)
    from . import c01 as _c01b
    _c01b.cm_cells_rule(ctx, chk)
    # the bands are Scores.bootstrap_ci of the joint statistic AT THE CALLER'S alpha: replicate loop and CI assembly (replicates, point estimate,
    # alpha, configured method) of bootstrap_metric / bootstrap_ci are the obligations of C14
    from . import c14 as _c14
    _c14.run(ctx, chk, tier)
    for q in BANDS:
        fn = ctx.db.function(q)
        k, finds = lint(fn.node)
        for fd in finds:
            chk.violation("R16.2", q, "partial-mirror:%s" % fd["statement"][:80], "%s   (partner line %d: %s)" % (fd["statement"], fd["partner_line"], fd["partner"]),
                          fd["detail"], "%s:%d" % (fn.module.relpath, fd["line"]))
        if not finds:
            chk.hold("R16.2", "mirror:" + q.split(".")[-1], "%d fnr/fpr statement pairs are exact mirror images" % k, nontrivial=k > 0)
    chk.floor("R16.3", 4, "2 band functions x 2 rates")
    chk.floor("R16.6", 3, "purity + lower + upper envelope")
