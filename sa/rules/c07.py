"""C07 — AUC: evaluation points, window, flat extension, trapezoid (DESIGN §4 C07)."""
from __future__ import annotations

from fractions import Fraction

from ..numeval import Arr, CannotEvaluate, Eps, ekey, evaluate
from ..spec import GAMMAS, SCORES, POS, NEG, EP, EN, returns, raises, unmodelled_text, pc_text
from ..terms import (App, Const, Num, Sym, Tup, INF, same, show, sub, add, mul, div, neg, subst, atoms_of, to_poly, cmp0, ite)
from ..simp import mk_app
from .thr import SCORE_REPS, EASY_REPS, env_for

LEVEL = "other"
AUCQ = SCORES + ".auc"
LO = Sym("lower", ("float", "param_scalar", "notnone"))
UP = Sym("upper", ("float", "param_scalar", "notnone"))
RATES = ("tpr", "fnr", "tnr", "fpr", "topr", "tonr", "tar", "frr", "trr", "far")


def explore_auc(ctx, chk, x_axis, y_axis, stub=True, sc="pos", ec="pos"):
    caps = []
    if stub:
        for m in RATES:
            def h(ev, fi, bound, m=m):
                caps.append((m, bound["threshold"]))
                return App("RATE_" + m, (bound["threshold"],))
            ctx.ev.stubs[SCORES + "." + m] = h
    try:
        outs = ctx.explore(lambda: ctx.ev.call(ctx.method(ctx.scores_obj(sc, ec), "auc"), [LO, UP], {"x_axis": Const(x_axis), "y_axis": Const(y_axis)}), chk)
    finally:
        if stub:
            for m in RATES:
                ctx.ev.stubs.pop(SCORES + "." + m, None)
    return outs, caps


def default_limits(ctx, chk, rule="R07.7"):
    """auc() called without limits integrates over the whole x-range [0, 1] - the full AUC of the property (with declared easy samples the
    evaluated curve stops short of x = 1 and the flat extension up to 1 is part of the area): the defaulted call equals auc(0.0, 1.0)."""
    def run_with(args):
        caps = []
        for m in RATES:
            def h(ev, fi, bound, m=m):
                return App("RATE_" + m, (bound["threshold"],))
            ctx.ev.stubs[SCORES + "." + m] = h
        try:
            return ctx.explore(lambda: ctx.ev.call(ctx.method(ctx.scores_obj("pos", "pos"), "auc"), list(args), {}), chk)
        finally:
            for m in RATES:
                ctx.ev.stubs.pop(SCORES + "." + m, None)
    try:
        a = [o for o in run_with([]) if o.kind == "return"]
        b = [o for o in run_with([Const(0), Const(1)]) if o.kind == "return"]
    except Exception as e:  # noqa: BLE001
        chk.unknown(rule, "auc() defaults: %s" % str(e)[:120])
        return
    if len(a) != 1 or len(b) != 1 or a[0].unmodelled or b[0].unmodelled:
        chk.unknown(rule, "auc() defaults: %d / %d return paths" % (len(a), len(b)))
    elif same(a[0].value, b[0].value):
        chk.hold(rule, "defaults", "auc() = auc(lower=0.0, upper=1.0)")
    else:
        chk.violation(rule, AUCQ, "defaults", "auc() = %s" % show(a[0].value, 200), "auc(0.0, 1.0) = %s" % show(b[0].value, 200), ctx.where(AUCQ))


def points_verdict(pts):
    """(True, msg) if pts = sort of the lower and upper floating-point neighbours of every pos and neg score;
    (False, msg) if understood and different; (None, msg) otherwise."""
    t = pts
    if not (isinstance(t, App) and t.fn == "sort"):
        return (None, "evaluation points are not sorted by np.sort: %s" % show(t, 120))
    t = t.args[0]
    while isinstance(t, App) and t.fn in ("flatten", "reshape", "ravel", "m:ravel", "fresh"):
        t = t.args[0]
    dirs, srcs = set(), set()

    def sources(x):
        x_ = x
        while isinstance(x_, App) and x_.fn in ("fresh", "asarray"):
            x_ = x_.args[0]
        if isinstance(x_, App) and x_.fn == "concat":
            return {y.key for y in x_.args}
        return {x_.key}

    parts = list(t.args) if isinstance(t, App) and t.fn == "concat" else [t]
    for prt in parts:
        if isinstance(prt, App) and prt.fn == "nextafter":
            srcs |= sources(prt.args[0])
            d = prt.args[1]
            for a in atoms_of(d):
                pass
            flat = []

            def walk(x):
                if isinstance(x, Tup):
                    for i in x.items:
                        walk(i)
                else:
                    flat.append(x)
            walk(d)
            for x in flat:
                if x == INF:
                    dirs.add("up")
                elif same(x, neg(INF)):
                    dirs.add("down")
                else:
                    return (None, "nextafter direction %s not understood" % show(x, 60))
        elif isinstance(prt, App) and prt.fn in ("nextafter_up", "nextafter_down"):
            srcs |= sources(prt.args[0])
            dirs.add("up" if prt.fn.endswith("up") else "down")
        elif isinstance(prt, (Num, Sym)) or (isinstance(prt, App) and (prt.fn in ("concat",) or prt.fn.startswith("binop:"))):
            return (False, "evaluation points %s are not floating-point neighbours (nextafter) of the scores" % show(prt, 160))
        else:
            return (None, "evaluation points built from %s" % show(prt, 120))
    if srcs == {POS.key, NEG.key} and dirs == {"up", "down"}:
        return (True, "points = sort(nextafter(all scores, -inf) ++ nextafter(all scores, +inf))")
    return (False, "neighbours of %s in directions %s" % (sorted(srcs), sorted(dirs)))


def reference(pts, xm, ym):
    x0, y0 = App("RATE_" + xm, (pts,)), App("RATE_" + ym, (pts,))
    rev = App("slice", (Const(None), Const(None), Const(-1)))
    c = cmp0("lt", to_poly(sub(mk_app("getitem", [x0, Const(-1)]), mk_app("getitem", [x0, Const(0)]))))
    x = ite(c, mk_app("getitem", [x0, rev]), x0)
    y = ite(c, mk_app("getitem", [y0, rev]), y0)
    n = App("len", (pts,))
    L = mk_app("min", [mk_app("count_lt", [x, LO]), sub(n, Const(1))])
    Rr = mk_app("max", [mk_app("count_le", [x, UP]), Const(1)])
    sl = App("slice", (L, Rr, Const(None)))
    X = App("concat", (Tup([LO]), mk_app("getitem", [x, sl]), Tup([UP])))
    Y = App("concat", (Tup([mk_app("getitem", [y, L])]), mk_app("getitem", [y, sl]), Tup([mk_app("getitem", [y, sub(Rr, Const(1))])])))
    return mk_app("abs", [App("trapezoid", (Y, X))]), {"x": x, "y": y, "left": L, "right": Rr}


def first_difference(a, b, path="result"):
    if a == b:
        return None
    if isinstance(a, App) and isinstance(b, App) and a.fn == b.fn and len(a.args) == len(b.args):
        for i, (x, y) in enumerate(zip(a.args, b.args)):
            d = first_difference(x, y, "%s.%s[%d]" % (path, a.fn, i))
            if d:
                return d
    if isinstance(a, Tup) and isinstance(b, Tup) and len(a.items) == len(b.items):
        for i, (x, y) in enumerate(zip(a.items, b.items)):
            d = first_difference(x, y, "%s[%d]" % (path, i))
            if d:
                return d
    return (path, a, b)


def norm_len(v):
    mp = {}
    for a in atoms_of(v):
        if isinstance(a, App) and a.fn == "len" and isinstance(a.args[0], App) and a.args[0].fn.startswith("RATE_"):
            mp[a] = App("len", (a.args[0].args[0],))
    return subst(v, mp) if mp else v


def structural(ctx, chk):
    for xm, ym in (("fpr", "tpr"), ("tnr", "tpr"), ("fpr", "fnr"), ("tpr", "fpr")):
        outs, caps = explore_auc(ctx, chk, xm, ym)
        rets = returns(outs)
        inst = "x=%s,y=%s" % (xm, ym)
        if len(rets) != 1 or rets[0].unmodelled or raises(outs):
            chk.unknown("R07", "auc(%s): %d return paths %s" % (inst, len(rets), rets and unmodelled_text(rets[0])))
            continue
        names = [m for m, _ in caps]
        ptss = {p.key: p for _, p in caps}
        if sorted(names) != sorted([xm, ym]) or len(ptss) != 1:
            chk.violation("R07.2", AUCQ, inst + ":axes", "rate calls %s on %d distinct point sets" % (names, len(ptss)),
                          "x = self.%s(points), y = self.%s(points) on the same points" % (xm, ym), ctx.where(AUCQ))
            continue
        chk.hold("R07.2", inst, "both axes are the object's own rates %s/%s at the same evaluation points" % (xm, ym))
        pts = list(ptss.values())[0]
        ok, msg = points_verdict(pts)
        if ok:
            chk.hold("R07.1", inst, msg)
        elif ok is False:
            chk.violation("R07.1", AUCQ, inst + ":points", msg, "sorted lower and upper floating-point neighbours of every positive and negative score", ctx.where(AUCQ))
            continue
        else:
            chk.unknown("R07.1", msg)
            continue
        want, parts = reference(pts, xm, ym)
        got = norm_len(rets[0].value)
        if same(got, want):
            chk.hold("R07.4", inst, "window {i: lower <= x_i <= upper} = x[min(#{x<lower}, n-1) : max(#{x<=upper}, 1)], flat extension y[left], y[right-1]; |trapezoid(y, x)|")
            chk.hold("R07.3", inst, "x and y reversed together iff x[-1] < x[0]")
        else:
            if any(isinstance(a, App) and a.fn.startswith("ext:") for a in atoms_of(got)):
                chk.unknown("R07.4", "auc(%s) uses constructs outside the model" % inst)
                continue
            d = first_difference(got, want)
            chk.violation("R07.4", AUCQ, inst + ":formula", "at %s: %s" % (d[0], show(d[1], 260)), "%s" % show(d[2], 260), ctx.where(AUCQ))
    chk.floor("R07.4", 4, "4 axis pairs")


# ------------------------------------------------------------------ bounded numeric reference

def mann_whitney(pos, neg, ep, en, sc):
    """P(pos ranked on the positive side of neg) + 1/2 P(tie), easy samples beyond every scored sample."""
    tot = Fraction(0)
    for p in pos:
        for n in neg:
            if p == n:
                tot += Fraction(1, 2)
            elif (p > n) == (sc == "pos"):
                tot += 1
    tot += ep * (len(neg) + en) + en * len(pos)
    return tot / ((len(pos) + ep) * (len(neg) + en))


def step_area(xs, ys, lower, upper):
    """Area under the polyline through (xs, ys) (ascending x, flat extension outside) restricted to [lower, upper]."""
    pts = sorted(zip(xs, ys), key=lambda p: p[0])
    area = Fraction(0)
    for (x0, y0), (x1, y1) in zip(pts, pts[1:]):
        a, b = max(x0, lower), min(x1, upper)
        if b <= a or x1 == x0:
            continue
        ya = y0 + (y1 - y0) * (a - x0) / (x1 - x0)
        yb = y0 + (y1 - y0) * (b - x0) / (x1 - x0)
        area += (ya + yb) / 2 * (b - a)
    if lower < pts[0][0]:
        area += pts[0][1] * (min(upper, pts[0][0]) - lower)
    if upper > pts[-1][0]:
        area += pts[-1][1] * (upper - max(lower, pts[-1][0]))
    return area


def numeric(ctx, chk, tier):
    default_limits(ctx, chk)
    from .thr import reps_for, easy_for
    reps = [(k, v) for k, v in reps_for(tier) if tier == "thorough" or k in ("1v1", "2v2", "3v2", "2v3sep", "ties", "alltied")]
    easy = easy_for(tier)
    windows = ((Fraction(0), Fraction(1)), (Fraction(0), Fraction(1, 3)), (Fraction(1, 3), Fraction(1)), (Fraction(1, 4), Fraction(3, 4)), (Fraction(1, 2), Fraction(1, 2)))
    for sc, ec in GAMMAS:
        outs, _ = explore_auc(ctx, chk, "fpr", "tpr", stub=False, sc=sc, ec=ec)
        rets = returns(outs)
        inst = "%s/%s" % (sc, ec)
        raw = [e for o in rets for e in o.events if e["kind"] == "raw_store"]
        if raw:
            e = raw[0]
            chk.violation("R07.6", AUCQ, inst + ":points-in-score-dtype", "%s = <float> stores float-valued evaluation points into an array that still has the scores' dtype" % e.get("text", "?")[:60],
                          "evaluation points one ulp either side of every score (for integer or float32 scores the store truncates / rounds them back onto the scores)",
                          "%s line %s" % (ctx.where(AUCQ), getattr(e.get("node"), "lineno", "?")))
            continue
        if not rets or len(rets) > 8 or any(o.unmodelled for o in rets):
            chk.unknown("R07.6", "auc() %s not reducible to closed forms (%d return paths)" % (inst, len(rets)))
            continue

        def term_for(env):
            # several return paths (a fast path for the full range, special cases): the one whose path condition holds in this cell
            if len(rets) == 1:
                return rets[0].value
            for o in rets:
                if all(bool(evaluate(c, env)) == t for c, t in o.pc):
                    return o.value
            raise CannotEvaluate("no return path of auc() is enabled in the cell")
        bad = None
        n = 0
        try:
            for rname, (pos, neg) in reps:
                tied_cross = bool(set(pos) & set(neg))
                for ep, en in easy:
                    for lo, up in windows:
                        env = env_for(pos, neg, ep, en)
                        env[LO], env[UP] = lo, up
                        got = evaluate(term_for(env), env)
                        n += 1
                        if (lo, up) == (0, 1):
                            want = mann_whitney(pos, neg, ep, en, sc)
                        elif tied_cross:
                            continue
                        else:
                            # exact area under the empirical step ROC on [lo, up] (reference computed from counts)
                            want = roc_area(pos, neg, ep, en, sc, lo, up)
                        if got != want and bad is None:
                            bad = "rep %s=%s easy=(%d,%d) window [%s, %s]: auc = %s, reference %s" % (rname, (pos, neg), ep, en, lo, up, got, want)
        except CannotEvaluate as e:
            chk.unknown("R07.6", "auc() %s: derived term outside the evaluable vocabulary (%s)" % (inst, e))
            continue
        chk.paths(n)
        if bad is None:
            chk.hold("R07.6", inst, "%d (order type, easy, window) cells: full AUC = Mann-Whitney, partial AUC = exact step area" % n)
        else:
            chk.violation("R07.6", AUCQ, inst + ":value", bad, "Mann-Whitney statistic (full) / exact step-ROC area (partial, no cross-class ties)", ctx.where(AUCQ))
    chk.floor("R07.6", 4, "4 configurations")


def roc_area(pos, neg, ep, en, sc, lo, up):
    """Exact area under the step ROC (FPR on x, TPR on y) over [lo, up] for tie-free classes."""
    allv = sorted(set(pos) | set(neg))
    thr = [allv[0] - 1] + [Fraction(a + b) / 2 for a, b in zip(allv, allv[1:])] + [allv[-1] + 1]
    pts = set()
    for t in thr:
        if sc == "pos":
            tp = sum(1 for p in pos if p > t) + ep
            fp = sum(1 for q in neg if q > t)
        else:
            tp = sum(1 for p in pos if p < t) + ep
            fp = sum(1 for q in neg if q < t)
        pts.add((Fraction(fp, len(neg) + en), Fraction(tp, len(pos) + ep)))
    # step function: TPR as a function of FPR is the upper envelope of vertical/horizontal moves; with no cross-class ties
    # consecutive points differ in exactly one coordinate, so the polyline through the sorted points is the step curve.
    pts = sorted(pts)
    xs, ys = [p[0] for p in pts], [p[1] for p in pts]
    area = Fraction(0)
    for (x0, y0), (x1, y1) in zip(pts, pts[1:]):
        a, b = max(x0, lo), min(x1, up)
        if b > a:
            area += y0 * (b - a) if y0 == y1 else Fraction(0)
    if lo < xs[0]:
        area += ys[0] * (min(up, xs[0]) - lo)
    if up > xs[-1]:
        area += ys[-1] * (up - max(lo, xs[-1]))
    return area


def run(ctx, chk, tier):
    chk.rule_text = ("structural conformance of auc() for 4 axis pairs (points, axes, orientation, closed window, flat extension, trapezoid roles) + derived closed form "
                     "evaluated on order-type representatives against Mann-Whitney / exact step area; non-trivial = term mentions scores")
    chk.explanation = ("auc() is reduced to one closed term with the rate methods stubbed; it must equal the reference term built from: sorted lower/upper float neighbours of all "
                       "scores, both axes from the object's own rates at those points, joint reversal, closed window via searchsorted sides left/right with index clamps, flat "
                       "extension and |trapezoid(y, x)|. The full pipeline (rates inlined) is additionally evaluated exactly on representatives (ties, easy samples, 4 "
                       "configurations, 5 windows) and compared with the Mann-Whitney statistic and the exact step area (bounded enumeration).")
    chk.trusted |= {"numpy.trapezoid(y, x)", "numpy.nextafter", "numpy.searchsorted sides", "C01 for the rates"}
    chk.assumptions = ["axis-complement identities are decided only through the representatives of the default axes"]
    structural(ctx, chk)
    numeric(ctx, chk, tier)
    from . import c10
    c10.purity(ctx, chk, only=("Scores.auc",), strict=False)
    # the four axis rates are the rates of the object's own confusion matrix (an fnr computed some other way is no longer 1 - tpr)
    from . import c01
    c01.rates_from_cm(ctx, chk, metrics=("tpr", "fnr", "tnr", "fpr"))
    c01.cm_cells_rule(ctx, chk)      # the curve is read off cm(): decision-rule counts in a buffer wide enough for declared easy counts
