"""Structural rules of the threshold-setting cluster: R02.1 (front-ends, aliases), R02.2 (flip parity), R02.3 (core)."""
from __future__ import annotations

from fractions import Fraction

from ..numeval import CannotEvaluate, Eps
from ..spec import GAMMAS, SCORES, POS, NEG, EP, EN, returns, raises, unmodelled_text, pc_text
from ..terms import App, Const, Num, Sym, Tup, same, show, sub, add, mul, subst, atoms_of, to_poly, mk_num, Poly
from ..simp import mk_app
from ..libmodel import strip_fresh
from .thr import (ALIASES, METRICS, METHODS, SCORE_REPS, R, TAR, INV, env_for, explore_threshold, rate_at, rate_term)

REV = {"lower": "higher", "higher": "lower", "linear": "linear"}
POPULATION = {"tpr": "pos", "fnr": "pos", "tnr": "neg", "fpr": "neg", "topr": "all", "tonr": "all"}


def direction(rate):
    """+1 if the derived metric term increases with the threshold on a generic representative, -1 if it decreases."""
    pos, neg = SCORE_REPS["3v2"]
    a = rate_at(rate, pos, neg, 0, 0, Eps(0, 0))
    b = rate_at(rate, pos, neg, 0, 0, Eps(100, 0))
    return 1 if b > a else -1


def _lossy_cast(x):
    """A cast to a dtype other than float64 somewhere in the fresh/asarray wrappers of a pooled part."""
    while isinstance(x, App) and x.fn in ("fresh", "asarray") and x.args:
        if x.fn == "fresh" and x.kwd("dtype") in (Const("other"), Const("int")):
            return True
        x = x.args[0]
    return False


def _pooled_parts(t):
    """Parts of sort(concat(...)) with selections `ite(c, x, y)` / `ite(c, y, x)` (the larger / smaller class) resolved to {x, y}."""
    if not (isinstance(t, App) and t.fn == "sort" and isinstance(t.args[0], App) and t.args[0].fn == "concat"):
        return None
    raw = list(t.args[0].args)
    parts = [strip_fresh(x) for x in raw]
    if len(parts) == 2 and all(isinstance(p, App) and p.fn == "ite" and len(p.args) == 3 for p in parts) \
            and parts[0].args[0] == parts[1].args[0] and parts[0].args[1] == parts[1].args[2] and parts[0].args[2] == parts[1].args[1]:
        parts = [strip_fresh(parts[0].args[1]), strip_fresh(parts[0].args[2])]
    return parts, any(_lossy_cast(x) for x in raw)


def population_verdict(term, which):
    """True / False (understood and wrong) / None (not understood)."""
    pp = _pooled_parts(strip_fresh(term)) if which not in ("pos", "neg") else None
    if pp is not None and sorted(p.key for p in pp[0]) == sorted([POS.key, NEG.key]):
        # both classes pooled; a class cast to the other's dtype on the way (np.insert keeps the dtype of its first argument) is not the pooled scores
        return not pp[1]
    if is_population(term, which):
        return True
    t = strip_fresh(term)
    names = {a.fn for a in atoms_of(t) if isinstance(a, App)} | ({t.fn} if isinstance(t, App) else set())
    if names & {"union1d", "unique"}:
        return False
    if t in (POS, NEG):
        return False
    if names <= {"sort", "concat", "fresh", "asarray"}:
        return False
    return None


def is_population(term, which):
    t = strip_fresh(term)
    if which == "pos":
        return t == POS
    if which == "neg":
        return t == NEG
    if isinstance(t, App) and t.fn == "sort" and isinstance(t.args[0], App) and t.args[0].fn == "concat":
        parts = sorted(strip_fresh(x).key for x in t.args[0].args)
        return parts == sorted([POS.key, NEG.key])
    return False


def pckey(o):
    """Path key up to the helper call: decisions taken AFTER the helper returned (scalar / array post-processing of its result) do not
    distinguish paths for the purposes of what was handed to the helper."""
    n = getattr(o, "captured_pclen", None)
    pc = o.pc if n is None else o.pc[:n]
    return tuple((c.key, t) for c, t in pc)


def refusals(ctx, chk, metrics=METRICS, rule="R02.6"):
    """A threshold setter refuses (raises) only when the population it inverts over is empty: a refusal whose condition mentions the target
    or a declared easy count rejects requests inside the property's quantifier (every target in [0, 1], every easy count >= 0)."""
    from ..spec import raises, EP, EN
    for metric in metrics:
        q = SCORES + ".threshold_at_" + metric
        for sc, ec in GAMMAS:
            outs = explore_threshold(ctx, chk, metric, sc, ec, "linear", stub=INV)
            inst = "%s:%s/%s" % (metric, sc, ec)
            bad = None
            for o in raises(outs):
                syms = {a for c, _t in o.pc for a in atoms_of(c) if isinstance(a, Sym)}
                if R in syms or EP in syms or EN in syms:
                    bad = o
                    break
            if bad is not None:
                chk.violation(rule, q, inst + ":refusal", "%s when %s" % (show(bad.value, 80), " & ".join(("" if t else "not ") + show(c, 80) for c, t in bad.pc)[:200]),
                              "a threshold for every target and every declared easy count whenever the relevant population is non-empty", ctx.where(q))
            else:
                chk.hold(rule, inst, "refuses only on an empty population (%d raise path(s))" % len(raises(outs)), nontrivial=False)


def structural(ctx, chk, tier):
    alias_forwarding(ctx, chk)
    refusals(ctx, chk)
    flip_parity(ctx, chk)
    chk.floor("R02.2", 72, "6 metrics x 4 configurations x 3 methods")
    # ---------------- R02.3 interpolation core
    core(ctx, chk)


def alias_forwarding(ctx, chk):
    ev = ctx.ev
    # ---------------- R02.1a aliases forward target and method
    for alias, tgt in ALIASES.items():
        q = SCORES + ".threshold_at_" + alias
        for method in METHODS:
            outs = explore_threshold(ctx, chk, alias, "pos", "pos", method, stub=SCORES + ".threshold_at_" + tgt)
            rets = returns(outs)
            inst = "%s->%s:%s" % (alias, tgt, method)
            if len(rets) != 1 or rets[0].captured is None:
                chk.violation("R02.1", q, inst + ":delegation", "%d return paths, result %s" % (len(rets), [show(o.value, 80) for o in rets]),
                              "return self.threshold_at_%s(<target>, method=<method>)" % tgt, ctx.where(q))
                continue
            b = rets[0].captured
            argname = [k for k in b if k not in ("self", "method")][0]
            if b.get(argname) == R and b.get("method") == Const(method):
                chk.hold("R02.1", inst, "alias forwards target and method=%s" % method)
            else:
                chk.violation("R02.1", q, inst, "target=%s method=%s" % (show(b.get(argname), 60), show(b.get("method"), 40)), "target=r method=%r" % method, ctx.where(q))
    # default method of aliases and front-ends is 'linear' (omitting the argument)
    for name in list(ALIASES) + list(METRICS):
        tgt = ALIASES.get(name)
        q = SCORES + ".threshold_at_" + name
        outs = explore_threshold(ctx, chk, name, "pos", "pos", None, stub=(SCORES + ".threshold_at_" + tgt) if tgt else TAR)
        rets = [o for o in returns(outs) if o.captured is not None]
        ms = {show(o.captured.get("method")) for o in rets}
        if rets and ms == {"'linear'"}:
            chk.hold("R02.1", "default-method:" + name, "default interpolation is linear", nontrivial=False)
        else:
            chk.violation("R02.1", q, "default-method", sorted(ms), "'linear'", ctx.where(q))


def flip_parity(ctx, chk, metrics=METRICS):
    """R02.1b population + R02.2 flip parity."""
    for metric in metrics:
        q = SCORES + ".threshold_at_" + metric
        for sc, ec in GAMMAS:
            rate = rate_term(ctx, chk, metric, sc, ec)
            if rate is None:
                chk.unknown("R02.2", "no rate term for %s %s/%s" % (metric, sc, ec))
                continue
            try:
                d = direction(rate)
            except CannotEvaluate as e:
                chk.unknown("R02.2", "direction of %s %s/%s: %s" % (metric, sc, ec, e))
                continue
            for method in METHODS:
                pre = {pckey(o): o for o in returns(explore_threshold(ctx, chk, metric, sc, ec, method, stub=TAR)) if o.captured}
                post = {pckey(o): o for o in returns(explore_threshold(ctx, chk, metric, sc, ec, method, stub=INV)) if o.captured}
                inst = "%s:%s/%s:%s" % (metric, sc, ec, method)
                if not pre or set(pre) != set(post):
                    chk.unknown("R02.2", "%s: helper call structure not recognised (%d/%d paths reach the helpers)" % (inst, len(pre), len(post)))
                    continue
                ok = True
                for k, o in pre.items():
                    a, b = o.captured, post[k].captured
                    pv = population_verdict(a["scores"], POPULATION[metric])
                    if pv is False:
                        chk.violation("R02.1", q, inst + ":population", show(a["scores"], 120), "the sorted scores (with multiplicity) of the %s population" % POPULATION[metric], ctx.where(q))
                        ok = False
                    elif pv is None:
                        chk.unknown("R02.1", "%s: population term not understood: %s" % (inst, show(a["scores"], 120)))
                        ok = False
                    rho, rho2 = a["target_ratio"], b["target_ratio"]
                    want = rho if d > 0 else sub(Const(1), rho)
                    if not same(rho2, want):
                        other = sub(Const(1), rho) if d > 0 else rho
                        if same(rho2, other):
                            chk.violation("R02.2", TAR, inst + ":target-flip", "inversion target %s" % show(rho2, 200),
                                          "%s  (metric %s with the threshold under %s/%s)" % (show(want, 200), "increases" if d > 0 else "decreases", sc, ec), ctx.where(TAR))
                        else:
                            chk.unknown("R02.2", "%s: inversion target %s is neither rho nor 1-rho" % (inst, show(rho2, 160)))
                        ok = False
                    wantm = method if d > 0 else REV[method]
                    if b["method"] != Const(wantm):
                        chk.violation("R02.2", TAR, inst + ":method-flip", "inversion method %s" % show(b["method"]),
                                      "%r (metric %s with the threshold)" % (wantm, "increases" if d > 0 else "decreases"), ctx.where(TAR))
                        ok = False
                    if not is_population(b["scores"], POPULATION[metric]):
                        ok = False
                if ok:
                    chk.hold("R02.2", inst, "%s %s with threshold: target %s, method %s" % (metric, "increases" if d > 0 else "decreases",
                                                                                             "kept" if d > 0 else "flipped", "kept" if d > 0 else "reversed"))


def core(ctx, chk):
    S = Sym("S", ("param", "array", "sorted", "notnone"))
    RHO = Sym("rho", ("param", "array", "notnone"))
    fn = ctx.fn(INV)
    N = App("len", (S,))
    for lc in (True, False):
        tau = mul(N, RHO) if lc else sub(mul(N, RHO), Const(1))
        lo = mk_app("max", [Const(0), mk_app("min", [sub(N, Const(1)), mk_app("floor", [tau])])])
        hi = mk_app("max", [Const(0), mk_app("min", [sub(N, Const(1)), mk_app("ceil", [tau])])])
        for method in METHODS:
            outs = ctx.explore(lambda: ctx.call_named(fn, [("scores", S), ("target_ratio", RHO), ("left_continuous", Const(lc)), ("method", Const(method))]), chk)
            rets = returns(outs)
            inst = "%s:%s" % ("left-continuous" if lc else "right-continuous", method)
            if len(rets) != 1 or rets[0].unmodelled:
                chk.unknown("R02.3", "%s: %d return paths %s" % (inst, len(rets), rets and unmodelled_text(rets[0])))
                continue
            v = rets[0].value
            stores = []
            while isinstance(v, App) and v.fn in ("store", "where"):
                if v.fn == "store":
                    stores.append((v.args[1], v.args[2]))
                    v = v.args[0]
                else:
                    stores.append((v.args[0], v.args[1]))
                    v = v.args[2]
            strip = {a: a.args[0] for a in atoms_of(v) if isinstance(a, App) and a.fn == "fresh"}
            v = subst(v, strip)
            A_lo, A_hi = App("getitem", (S, lo)), App("getitem", (S, hi))
            if method == "lower":
                ok, exp = same(v, A_lo), A_lo
            elif method == "higher":
                ok, exp = same(v, A_hi), A_hi
            else:
                p = to_poly(v)
                wl, wh, rest = Poly(), Poly(), Poly()
                for m, c in p.t.items():
                    hasl = any(a == A_lo for a, e in m)
                    hash_ = any(a == A_hi for a, e in m)
                    mm = tuple((a, e) for a, e in m if a not in (A_lo, A_hi))
                    if hasl and not hash_:
                        wl = wl + Poly({mm: c})
                    elif hash_ and not hasl:
                        wh = wh + Poly({mm: c})
                    else:
                        rest = rest + Poly({m: c})
                score_free = not any(storage_is_scores(a, S) for a in (wl.atoms() | wh.atoms()))
                ok = not rest.t and same(mk_num(wl + wh), Const(1)) and score_free and bool(wl.t) and bool(wh.t)
                exp = "w_l*S[clip(floor tau)] + w_h*S[clip(ceil tau)], w_l + w_h = 1, weights free of scores"
                if ok:
                    exp_wl = sub(mk_app("ceil", [tau]), tau)
                    if not same(mk_num(wl), exp_wl):
                        chk.violation("R02.3", INV, inst + ":weights", "w_l = %s" % show(mk_num(wl), 200), "w_l = ceil(tau) - tau = %s" % show(exp_wl, 200), ctx.where(INV))
                        continue
            if ok:
                chk.hold("R02.3", inst, "tau = %s; value %s" % (show(tau, 80), show(v, 200) if method != "linear" else "convex combination of S[floor] and S[ceil], weights sum to 1"))
            else:
                chk.violation("R02.3", INV, inst, show(v, 400), show(exp, 300) if not isinstance(exp, str) else exp, ctx.where(INV))
    chk.floor("R02.3", 6, "2 continuity cases x 3 methods")


def storage_is_scores(a, S):
    return S in atoms_of(a) and isinstance(a, App) and a.fn == "getitem"
