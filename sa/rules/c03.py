"""C03 — extreme operating points are honoured exactly (DESIGN §4 C03)."""
from __future__ import annotations

from ..numeval import CannotEvaluate, Eps
from ..spec import GAMMAS, SCORES, returns, raises, unmodelled_text
from ..terms import show
from .thr import (METRICS, METHODS, SCORE_REPS, EASY_REPS, EXTREME_TARGETS, R, env_for, explore_threshold, pick_value,
                  rate_at, rate_range, rate_term)

LEVEL = "other"


def run(ctx, chk, tier):
    chk.rule_text = ("instances = metric x configuration x method x order-type representative (class sizes 1..4, interleaved/separated/tied) x "
                     "easy counts x target region {<0, 0, 1, 1+, >1}; non-trivial = the derived threshold term was evaluated through a sentinel or clipped index")
    chk.explanation = ("threshold_at_<metric> and the metric itself are reduced to closed terms per configuration (inlining the rescale, the flips and the "
                       "inversion core). The outcome at an extreme target depends only on the side of the mask breakpoints the target lies on, on N = 1 vs N >= 2 "
                       "and on the order type of the scores, so the derived terms are evaluated in exact rational arithmetic (nextafter = infinitesimal shift) on "
                       "one representative per cell and the achieved rate is compared with the lowest/highest achievable rate of the same derived metric term. "
                       "Repository code is never executed.")
    chk.trusted |= {"numpy.nextafter(x, +-inf) is strictly beyond x", "masked stores apply in program order", "floor/ceil/minimum/maximum"}
    chk.assumptions = ["exact real arithmetic: floating-point rounding of the easy-sample rescale is not modelled (the repaired D11 defect was of that kind)",
                       "C01 holds (the metric term is the object's own rate)"]
    from .thr import reps_for, easy_for
    reps = reps_for(tier)
    easy = easy_for(tier)
    for metric in METRICS:
        q = SCORES + ".threshold_at_" + metric
        for sc, ec in GAMMAS:
            rate = rate_term(ctx, chk, metric, sc, ec)
            if rate is None:
                chk.unknown("R03", "cannot derive the rate term of %s for %s/%s" % (metric, sc, ec))
                continue
            for method in METHODS:
                outs = explore_threshold(ctx, chk, metric, sc, ec, method)
                if any(o.unmodelled for o in outs):
                    chk.unknown("R03", "%s %s/%s %s: unmodelled construct %s" % (metric, sc, ec, method, [unmodelled_text(o) for o in outs if o.unmodelled][0]))
                    continue
                bad = None
                n = 0
                try:
                    for rname, (pos, neg) in reps:
                        for ep, en in easy:
                            lo, hi = rate_range(rate, pos, neg, ep, en)
                            for r in EXTREME_TARGETS:
                                want = lo if r <= 0 else hi
                                thr = pick_value(outs, env_for(pos, neg, ep, en, r=r))
                                n += 1
                                if isinstance(thr, tuple) and thr[0] == "raise":
                                    bad = bad or (rname, ep, en, r, "raises %s" % show(thr[1], 80), want)
                                    continue
                                got = rate_at(rate, pos, neg, ep, en, thr)
                                if got != want and bad is None:
                                    bad = (rname, ep, en, r, "threshold %r gives %s = %s" % (thr, metric, got), want)
                except CannotEvaluate as e:
                    chk.unknown("R03", "%s %s/%s %s: derived term outside the evaluable vocabulary (%s)" % (metric, sc, ec, method, e))
                    continue
                chk.paths(n)
                inst = "%s:%s/%s:%s" % (metric, sc, ec, method)
                if bad is None:
                    chk.hold("R03", inst, "%d (order type, easy, target) cells: rate at threshold_at_%s(r<=0 | r>=1) = lowest | highest achievable" % (n, metric))
                else:
                    rname, ep, en, r, got, want = bad
                    chk.violation("R03", q, inst, "scores rep %s=%s easy=(%d,%d) target r=%s: %s" % (rname, SCORE_REPS[rname], ep, en, r, got),
                                  "%s = %s (the %s achievable value)" % (metric, want, "lowest" if r <= 0 else "highest"), ctx.where(q))
    chk.floor("R03", 72, "6 metrics x 4 configurations x 3 methods")
    sentinel_dtype(ctx, chk)


def is_float_typed(v):
    """Provably a floating-point array/scalar (the scores' own dtype is unknown: it may be an integer type)."""
    from ..terms import App, Num, Sym, Const
    if isinstance(v, App):
        if v.fn == "fresh":
            return v.kwd("dtype") == Const("float") or is_float_typed(v.args[0])
        if v.fn in ("getitem", "asarray", "reshape", "store"):
            return is_float_typed(v.args[0])
        if v.fn in ("nextafter_up", "nextafter_down", "nextafter", "inv", "sqrt"):
            return True
        if v.fn in ("floor", "ceil", "min", "max"):
            return any(is_float_typed(a) for a in v.args)
        if v.fn in ("ite", "where"):
            return is_float_typed(v.args[1]) and is_float_typed(v.args[2])
        return False
    if isinstance(v, Num):
        return any(is_float_typed(a) for a in v.poly.atoms())
    if isinstance(v, Sym):
        return "floattyped" in v.tags
    return False


def sentinel_dtype(ctx, chk):
    """R03.2: the array that receives the one-ulp sentinels must be floating point (an integer array would truncate them back onto the score)."""
    from ..terms import App, Const, Sym
    from ..spec import returns
    from .thr import INV, METHODS
    S = Sym("S", ("param", "array", "sorted", "notnone"))
    RHO = Sym("rho", ("param", "array", "notnone", "floattyped"))
    fn = ctx.fn(INV)
    for method in METHODS:
        outs = ctx.explore(lambda: ctx.ev.call(fn, [S, RHO, Const(True), Const(method)], {}), chk)
        rets = returns(outs)
        if len(rets) != 1:
            chk.unknown("R03.2", "inversion core (%s): %d return paths" % (method, len(rets)))
            continue
        v = rets[0].value
        sent = []
        while isinstance(v, App) and v.fn == "store":
            sent.append(v.args[2])
            v = v.args[0]
        if not sent or not all(isinstance(x, App) and x.fn.startswith("nextafter") for x in sent):
            chk.unknown("R03.2", "inversion core (%s): sentinel stores not recognised" % method)
            continue
        if is_float_typed(v):
            chk.hold("R03.2", "sentinel-dtype:" + method, "sentinels are stored into a float array: %s" % show(v, 120))
        else:
            chk.violation("R03.2", INV, "sentinel-dtype:" + method, "sentinel stored into %s, whose dtype is the scores' own (possibly integer) dtype" % show(v, 160),
                          "a floating-point array (scores.astype(float)) so that nextafter(score, +-inf) is representable", ctx.where(INV))
