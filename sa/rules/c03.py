"""C03 — extreme operating points are honoured exactly (DESIGN §4 C03)."""
from __future__ import annotations

from ..numeval import CannotEvaluate, Eps
from ..spec import GAMMAS, SCORES, returns, raises, unmodelled_text
from ..terms import show
from .thr import (METRICS, METHODS, SCORE_REPS, EASY_REPS, EXTREME_TARGETS, R, env_for, explore_threshold, pick_value,
                  rate_at, rate_range, rate_term)

LEVEL = "other"


def run(ctx, chk, tier):
    chk.rule_text = ("instances = metric x configuration x method x order-type representative (class sizes 1..4, interleaved/separated/tied) x "
                     "easy counts x target region {<0, 0, 1, 1+, >1}; non-trivial = the derived threshold term was evaluated through a sentinel or clipped index")
    chk.explanation = ("threshold_at_<metric> and the metric itself are reduced to closed terms per configuration (inlining the rescale, the flips and the "
                       "inversion core). The outcome at an extreme target depends only on the side of the mask breakpoints the target lies on, on N = 1 vs N >= 2 "
                       "and on the order type of the scores, so the derived terms are evaluated in exact rational arithmetic (nextafter = infinitesimal shift) on "
                       "one representative per cell and the achieved rate is compared with the lowest/highest achievable rate of the same derived metric term. "
                       "Repository code is never executed.")
    chk.trusted |= {"numpy.nextafter(x, +-inf) is strictly beyond x", "masked stores apply in program order", "floor/ceil/minimum/maximum"}
    chk.assumptions = ["exact real arithmetic: floating-point rounding of the easy-sample rescale is not modelled (the repaired D11 defect was of that kind)",
                       "C01 holds (the metric term is the object's own rate)"]
    from .thr import reps_for, easy_for
    reps = reps_for(tier)
    easy = easy_for(tier)
    for metric in METRICS:
        q = SCORES + ".threshold_at_" + metric
        for sc, ec in GAMMAS:
            rate = rate_term(ctx, chk, metric, sc, ec)
            if rate is None:
                chk.unknown("R03", "cannot derive the rate term of %s for %s/%s" % (metric, sc, ec))
                continue
            for method in METHODS:
                outs = explore_threshold(ctx, chk, metric, sc, ec, method)
                if any(o.unmodelled for o in outs):
                    chk.unknown("R03", "%s %s/%s %s: unmodelled construct %s" % (metric, sc, ec, method, [unmodelled_text(o) for o in outs if o.unmodelled][0]))
                    continue
                bad = None
                n = 0
                try:
                    for rname, (pos, neg) in reps:
                        for ep, en in easy:
                            lo, hi = rate_range(rate, pos, neg, ep, en)
                            for r in EXTREME_TARGETS:
                                want = lo if r <= 0 else hi
                                thr = pick_value(outs, env_for(pos, neg, ep, en, r=r))
                                n += 1
                                if isinstance(thr, tuple) and thr[0] == "raise":
                                    bad = bad or (rname, ep, en, r, "raises %s" % show(thr[1], 80), want)
                                    continue
                                got = rate_at(rate, pos, neg, ep, en, thr)
                                if got != want and bad is None:
                                    bad = (rname, ep, en, r, "threshold %r gives %s = %s" % (thr, metric, got), want)
                except CannotEvaluate as e:
                    chk.unknown("R03", "%s %s/%s %s: derived term outside the evaluable vocabulary (%s)" % (metric, sc, ec, method, e))
                    continue
                chk.paths(n)
                inst = "%s:%s/%s:%s" % (metric, sc, ec, method)
                if bad is None:
                    chk.hold("R03", inst, "%d (order type, easy, target) cells: rate at threshold_at_%s(r<=0 | r>=1) = lowest | highest achievable" % (n, metric))
                else:
                    rname, ep, en, r, got, want = bad
                    chk.violation("R03", q, inst, "scores rep %s=%s easy=(%d,%d) target r=%s: %s" % (rname, SCORE_REPS[rname], ep, en, r, got),
                                  "%s = %s (the %s achievable value)" % (metric, want, "lowest" if r <= 0 else "highest"), ctx.where(q))
    chk.floor("R03", 72, "6 metrics x 4 configurations x 3 methods")
    sentinel_dtype(ctx, chk)
    float_extremes(ctx, chk, tier)
    from . import c10, c01
    c10.purity(ctx, chk, only=("Scores.threshold_at_",), strict=False)
    # the achieved rate is read from cm(): its cells are the decision-rule counts (a threshold cast to the scores' dtype loses the one-ulp sentinel)
    c01.cm_cells_rule(ctx, chk)
    # TOPR / TONR invert over the POOLED scores: both classes, sorted, neither cast to the other's dtype (R02.1)
    from . import c02s
    c02s.flip_parity(ctx, chk, metrics=("topr", "tonr"))


def feval(v, env):
    """IEEE-double evaluation of an un-normalised term (Python int/float semantics = numpy float64 scalars)."""
    from fractions import Fraction
    from ..terms import App, Const, Num, Sym
    if v in env:
        return env[v]
    if isinstance(v, Const):
        x = v.value
        if isinstance(x, bool) or isinstance(x, int):
            return x
        if isinstance(x, Fraction):
            return x.numerator / x.denominator
        raise CannotEvaluate("constant %r" % (x,))
    if isinstance(v, App):
        if v.fn in ("fAdd", "fSub", "fMult", "fDiv"):
            a, b = feval(v.args[0], env), feval(v.args[1], env)
            if v.fn == "fAdd":
                return a + b
            if v.fn == "fSub":
                return a - b
            if v.fn == "fMult":
                return a * b
            if b == 0:
                raise CannotEvaluate("division by zero")
            return a / b
        if v.fn == "fneg":
            return -feval(v.args[0], env)
        if v.fn == "len":
            if v not in env and isinstance(v.args[0], App) and v.args[0].fn == "ite":
                sel = v.args[0]      # the length of a selected array is the selected length
                return feval(App("len", (sel.args[1],)), env) if fcond(sel.args[0], env) else feval(App("len", (sel.args[2],)), env)
            if v not in env:
                raise CannotEvaluate("length of %s" % v.key[:60])
            return env[v]
        if v.fn in ("min", "max"):
            vals = [feval(a, env) for a in v.args]
            return min(vals) if v.fn == "min" else max(vals)
        if v.fn == "ite":
            return feval(v.args[1], env) if fcond(v.args[0], env) else feval(v.args[2], env)
        if v.fn in ("fresh", "asarray"):
            return feval(v.args[0], env)
        if v.fn == "getitem" and len(v.args) == 2 and all(i == Const(None) or (isinstance(i, App) and i.fn == "slice") for i in (v.args[1].items if hasattr(v.args[1], "items") else [v.args[1]])):
            return feval(v.args[0], env)  # axis bookkeeping on a scalar representative
    if isinstance(v, Num):
        # a normalised polynomial: exact (hence rounding-free) when every coefficient is an integer and every atom evaluates to an int
        tot = 0
        for mono, co in v.poly.t.items():
            if Fraction(co).denominator != 1:
                raise CannotEvaluate("normalised polynomial with a fractional coefficient")
            term = int(co)
            for atom, ex in mono:
                a = feval(atom, env)
                if isinstance(a, bool) or not isinstance(a, int) or not isinstance(ex, int) or ex < 1:
                    raise CannotEvaluate("normalised polynomial over a non-integer quantity")
                term *= a ** ex
            tot += term
        return tot
    raise CannotEvaluate("float evaluation of %s" % (v.fn if isinstance(v, App) else type(v).__name__))


def fcond(c, env):
    from fractions import Fraction
    from ..terms import App, Const, to_poly
    if isinstance(c, Const):
        return bool(c.value)
    if isinstance(c, App) and c.fn in ("lt0", "le0", "eq0", "ne0"):
        p = to_poly(c.args[0])
        tot = Fraction(0)
        for m, co in p.t.items():
            term = Fraction(co)
            for a, e in m:
                x = feval(a, env)
                term *= Fraction(x) ** e
            tot += term
        return {"lt0": tot < 0, "le0": tot <= 0, "eq0": tot == 0, "ne0": tot != 0}[c.fn]
    if isinstance(c, App) and c.fn == "and":
        return all(fcond(a, env) for a in c.args)
    if isinstance(c, App) and c.fn == "or":
        return any(fcond(a, env) for a in c.args)
    if isinstance(c, App) and c.fn == "not":
        return not fcond(c.args[0], env)
    raise CannotEvaluate("condition %s" % c.key[:60])


def float_extremes(ctx, chk, tier):
    """R03.3: in IEEE double arithmetic the rescaled target at r = 0 / r = 1 lies exactly at or beyond the end of the scale
    for every combination of small hard/easy counts (bounded grid); otherwise the extreme special cases do not trigger."""
    from ..terms import App
    from ..spec import POS, NEG, EP, EN, returns
    from .thr import TAR, R, explore_threshold
    HPa, HNa = App("len", (POS,)), App("len", (NEG,))
    hs = (1, 2, 3, 5, 12) if tier != "thorough" else (1, 2, 3, 4, 5, 7, 12, 33)
    es = (0, 1, 2, 3, 5, 7, 22, 40) if tier != "thorough" else tuple(range(0, 24)) + (40, 41)
    ctx.ev.raw_float = True
    try:
        for metric in METRICS:
            q = SCORES + ".threshold_at_" + metric
            outs = [o for o in returns(explore_threshold(ctx, chk, metric, "pos", "pos", "linear", stub=TAR)) if o.captured]
            if not outs:
                chk.unknown("R03.3", "%s: helper call not found" % metric)
                continue
            bad = None
            n = 0
            try:
                for hp in hs:
                    for hn in hs:
                        for ep in es:
                            for en in es:
                                for r, side in ((1.0, "hi"), (0.0, "lo")):
                                    env = {HPa: hp, HNa: hn, EP: ep, EN: en, R: r}
                                    hit = [o for o in outs if all(fcond(c, env) == t for c, t in o.pc)]
                                    if len(hit) != 1:
                                        raise CannotEvaluate("%d feasible paths" % len(hit))
                                    rho = feval(hit[0].captured["target_ratio"], env)
                                    n += 1
                                    ok = rho >= 1.0 if side == "hi" else rho <= 0.0
                                    if not ok and bad is None:
                                        bad = "len(pos)=%d len(neg)=%d easy=(%d,%d): target %s rescales to %r in double arithmetic" % (hp, hn, ep, en, r, rho)
            except CannotEvaluate as e:
                chk.unknown("R03.3", "%s: rescale not evaluable in float arithmetic (%s)" % (metric, e))
                continue
            chk.paths(n)
            if bad is None:
                chk.hold("R03.3", "float-extremes:" + metric, "%d (counts, target) cells: r=1 -> >= 1.0 and r=0 -> <= 0.0 exactly in IEEE double" % n)
            else:
                chk.violation("R03.3", q, "float-extremes:" + metric, bad, "exactly >= 1.0 for target 1 and <= 0.0 for target 0 (else the extreme special cases do not trigger)", ctx.where(q))
    finally:
        ctx.ev.raw_float = False


def is_float_typed(v):
    """Provably a floating-point array/scalar (the scores' own dtype is unknown: it may be an integer type)."""
    from ..terms import App, Num, Sym, Const
    if isinstance(v, App):
        if v.fn == "fresh":
            return v.kwd("dtype") == Const("float") or is_float_typed(v.args[0])
        if v.fn in ("getitem", "asarray", "reshape", "store"):
            return is_float_typed(v.args[0])
        if v.fn in ("nextafter_up", "nextafter_down", "nextafter", "inv", "sqrt"):
            return True
        if v.fn in ("floor", "ceil", "min", "max"):
            return any(is_float_typed(a) for a in v.args)
        if v.fn in ("ite", "where"):
            return is_float_typed(v.args[1]) and is_float_typed(v.args[2])
        return False
    if isinstance(v, Num):
        return any(is_float_typed(a) for a in v.poly.atoms())
    if isinstance(v, Sym):
        return "floattyped" in v.tags
    return False


def sentinel_dtype(ctx, chk):
    """R03.2: the array that receives the one-ulp sentinels must be floating point (an integer array would truncate them back onto the score)."""
    from ..terms import App, Const, Sym, to_poly
    from ..spec import returns
    from .thr import INV, METHODS
    S = Sym("S", ("param", "array", "sorted", "notnone"))
    RHO = Sym("rho", ("param", "array", "notnone", "floattyped"))
    fn = ctx.fn(INV)
    for method in METHODS:
        outs = ctx.explore(lambda: ctx.call_named(fn, [("scores", S), ("target_ratio", RHO), ("left_continuous", Const(True)), ("method", Const(method))]), chk)
        rets = returns(outs)
        if len(rets) != 1:
            chk.unknown("R03.2", "inversion core (%s): %d return paths" % (method, len(rets)))
            continue
        v = rets[0].value
        if isinstance(v, App) and v.fn == "fresh" and v.kwd("dtype") not in (None, Const("float")):
            chk.violation("R03.2", INV, "result-cast:" + method, "the thresholds are cast after the sentinels were written: %s" % show(v, 140),
                          "float64 thresholds: nextafter(score, +-inf) is a float64 neighbour of the score and does not survive a cast to the scores' own (float32 / integer) dtype",
                          ctx.where(INV))
            continue
        sent = []
        selected = 0
        while isinstance(v, App) and (v.fn == "store" or (v.fn in ("ite", "where") and len(v.args) == 3 and isinstance(v.args[1], App) and v.args[1].fn.startswith("nextafter"))):
            if v.fn in ("ite", "where"):
                # np.where(mask, sentinel, thresholds): the result is promoted to the common dtype of a float64 sentinel and the
                # thresholds, so the sentinel survives whatever the dtype of the interpolated values
                selected += 1
                v = v.args[2]
                continue
            sent.append(v.args[2])
            v = v.args[0]
        if selected and not sent:
            chk.hold("R03.2", "sentinel-dtype:" + method, "%d sentinel(s) selected with np.where (result promoted to float64)" % selected)
            continue
        margins = []
        for x in sent:
            px = to_poly(x) if not (isinstance(x, App) and x.fn.startswith("nextafter")) else None
            if px is not None and not px.is_const() and px.t.get((), 0) != 0 and all(
                    m == () or (len(m) == 1 and m[0][1] == 1 and isinstance(m[0][0], App) and m[0][0].fn == "getitem") for m in px.t):
                margins.append(x)
        if margins:
            chk.violation("R03.2", INV, "sentinel-margin:" + method, "the out-of-range threshold is an extreme score plus a FIXED margin: %s" % show(margins[0], 100),
                          "the neighbouring float nextafter(score, +-inf): a fixed margin is absorbed by rounding for scores of large magnitude (the threshold lands ON the score) "
                          "and is not the closest outside value for small ones", ctx.where(INV))
            continue
        if not sent or not all(isinstance(x, App) and x.fn.startswith("nextafter") for x in sent):
            chk.unknown("R03.2", "inversion core (%s): sentinel stores not recognised" % method)
            continue
        if is_float_typed(v):
            chk.hold("R03.2", "sentinel-dtype:" + method, "sentinels are stored into a float array: %s" % show(v, 120))
        else:
            chk.violation("R03.2", INV, "sentinel-dtype:" + method, "sentinel stored into %s, whose dtype is the scores' own (possibly integer) dtype" % show(v, 160),
                          "a floating-point array (scores.astype(float)) so that nextafter(score, +-inf) is representable", ctx.where(INV))
