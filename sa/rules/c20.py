"""C20 — synthetic datasets hit their specified operating points and proportions (DESIGN §4 C20)."""
from __future__ import annotations

import ast

from ..evalr import Obj
from ..spec import SCORES, returns, raises, unmodelled_text, pc_text
from ..terms import (App, Const, Num, Sym, Tup, Vec, same, show, sub, add, mul, div, neg, subst, atoms_of, to_poly, cmp0, disj, negate, is_const, const_of)
from ..simp import mk_app, norm_fn

LEVEL = "other"
DS = "score_analysis.experimental.datasets."
ND, BD, CD = DS + "NormalDataset", DS + "BernoulliDataset", DS + "CorrelatedBernoullilDataset"
ROC = "score_analysis.roc_curve.ROCCurve"
MP, MN, SP, SN = (Sym(n, ("float", "notnone")) for n in ("mu_pos", "mu_neg", "sigma_pos", "sigma_neg"))
X = Sym("x", ("array", "param", "notnone"))
NN = Sym("n", ("int", "notnone", "positive"))
RNG = Sym("rng", ("rng", "notnone"))


def normal_obj(ctx, extra=None):
    o = Obj(ctx.db.cls(ND))
    o.attrs.update(mu_pos=MP, mu_neg=MN, sigma_pos=SP, sigma_neg=SN, p_pos=Sym("p_pos", ("float", "notnone")), n=NN, score_class=Const("pos"))
    if extra:
        o.attrs.update(extra)
    return o


_TAIL = {}


def all_values(ctx, chk, thunk):
    outs = ctx.explore(thunk, chk)
    bucket = _TAIL.setdefault(id(chk), {"n": 0, "events": []})
    bucket["n"] += len(outs)
    bucket["events"] += [e for o in outs for e in o.events if e["kind"] == "tail_cancellation"]
    return returns(outs), raises(outs), outs


def tail_accuracy(ctx, chk):
    """R20.8 the rates of the property range over all of (0, 1), small tail rates included: an upper-tail quantity is computed through
    the survival function (sf / isf), never by forming 1 - q or 1 - cdf(x) in floating point first (a rate below 1.1e-16 vanishes in 1 - q,
    1e-12 keeps four digits, and the inverse pair / the requested operating point are then missed by that much)."""
    bucket = _TAIL.get(id(chk), {"n": 0, "events": []})
    seen = set()
    for e in bucket["events"]:
        node = e.get("node")
        home = next((f for f in ctx.db.all_functions() if node is not None and any(n is node for n in ast.walk(f.node))), None)
        if home is None or not home.qualname.startswith("score_analysis.experimental.datasets."):
            continue
        key = (home.qualname, e["op"], getattr(node, "lineno", 0))
        if key in seen:
            continue
        seen.add(key)
        chk.violation("R20.8", home.qualname, "tail:%s:%s" % (home.qualname.split(".")[-1], e["op"]), "%s forms the complement in floating point (%s)" % (e["text"][:80], e["op"]),
                      "the upper tail through scipy.stats.norm.sf / isf (accurate for every rate in (0, 1))", "%s:%d" % (home.module.relpath, getattr(node, "lineno", 0)))
    if not seen:
        if bucket["n"] < 10:
            chk.unknown("R20.8", "only %d paths of the dataset methods explored" % bucket["n"])
        else:
            chk.hold("R20.8", "tails", "no 1 - q / 1 - cdf(x) feeds a normal quantile or rate on %d explored paths" % bucket["n"], nontrivial=False)


def run(ctx, chk, tier):
    chk.rule_text = ("closed-form obligations: 4 inverse-pair compositions, roc() consistency, from_metrics operating point and sizes, sample() sizes and direction, "
                     "Bernoulli counts, joint table (sum, marginals, documented a, validity check, non-random counts, decoding); non-trivial = term mentions a parameter")
    chk.explanation = ("All methods are closed forms over scipy.stats.norm; with cdf/ppf/sf/isf reduced to the standard normal (loc/scale affine, isf = -ppf, sf = 1 - cdf, "
                       "cdf(ppf(x)) = x) the compositions fnr(threshold_at_fnr(x)), threshold_at_fnr(fnr(t)), ... normalise to the identity, from_metrics gives fnr(0), fpr(0) "
                       "equal to the requested rates, and the joint Bernoulli table is checked by polynomial identities (sum 1, marginals under the % 2 and // 2 decoding). "
                       "Random branches are not decided.")
    chk.trusted |= {"scipy.stats.norm identities", "numpy.repeat(values, counts)", "numpy.floor", "x % 2 and x // 2 decode codes 0..3 as (k & 1, k >> 1)"}
    ev = ctx.ev
    # ---------------- R20.1 inverse pairs
    for rate, thr, sc in [(r_, t_, sc_) for sc_ in ("pos", "neg") for r_, t_ in (("fnr", "threshold_at_fnr"), ("fpr", "threshold_at_fpr"))]:
        for outer, inner in ((rate, thr), (thr, rate)):
            def thunk():
                o = normal_obj(ctx, {"score_class": Const(sc)})
                mid = ev.call(ev.getattr(o, inner), [X], {})
                return ev.call(ev.getattr(o, outer), [mid], {})
            rets, rs, _ = all_values(ctx, chk, thunk)
            # the inverse relation holds for every configuration of the dataset, the other score direction included
            inst = "%s(%s(x))" % (outer, inner) + ("" if sc == "pos" else " [score_class=neg]")
            if not rets or rs:
                chk.unknown("R20.1", "%s: %d return / %d raise paths" % (inst, len(rets), len(rs)))
            elif all(same(o.value, X) for o in rets):
                chk.hold("R20.1", inst, "%s = x on %d path(s)" % (inst, len(rets)))
            else:
                badv = [o.value for o in rets if not same(o.value, X)][0]
                chk.violation("R20.1", ND + "." + outer, inst, show(badv, 300), "x", ctx.where(ND + "." + outer))
    for arg in ("fnr", "fpr"):
        def thunk():
            o = normal_obj(ctx)
            return ev.call(ev.getattr(o, "roc"), [], {arg: X})
        rets, rs, _ = all_values(ctx, chk, thunk)
        inst = "roc(%s=x)" % arg
        if len(rets) != 1:
            chk.unknown("R20.1", "%s: %d return paths" % (inst, len(rets)))
            continue
        r = rets[0].value
        t = r.attrs.get("thresholds") if isinstance(r, Obj) else None
        if t is None:
            chk.unknown("R20.1", "%s does not return a ROCCurve" % inst)
            continue
        wf = norm_fn("cdf", t, MP, SP)
        wp = norm_fn("sf", t, MN, SN)
        ok = same(r.attrs.get("fnr"), wf) and same(r.attrs.get("fpr"), wp) and same(r.attrs.get(arg), X)
        if ok:
            chk.hold("R20.1", inst, "fnr = cdf(thresholds), fpr = sf(thresholds), %s(thresholds) = x" % arg)
        else:
            chk.violation("R20.1", ND + ".roc", inst, "fnr=%s fpr=%s" % (show(r.attrs.get("fnr"), 140), show(r.attrs.get("fpr"), 140)),
                          "rates of the model at the returned thresholds; requested axis reproduced", ctx.where(ND + ".roc"))
    # ---------------- R20.7 the returned curve owns its arrays (may-alias analysis; the value terms cannot tell x from sf(isf(x)))
    from ..alias import construction_aliases
    fi = ctx.db.function(ND + ".roc")
    sites = construction_aliases(fi.node, {"ROCCurve"})
    if not sites:
        chk.unknown("R20.7", "no ROCCurve construction found in NormalDataset.roc")
    for call, slots in sites:
        for k, al in sorted(slots.items()):
            inst = "roc:ROCCurve.%s" % k
            if al:
                chk.violation("R20.7", ND + ".roc", inst + ":aliases-" + "-".join(sorted(al)), "ROCCurve(%s=...) may share storage with the caller's `%s` array (no-copy conversion / view)" % (k, ", ".join(sorted(al))),
                              "arrays computed from the thresholds: a later in-place change of the caller's grid must not change the rates stored next to the thresholds",
                              "%s:%d" % (fi.module.relpath, call.lineno))
            else:
                chk.hold("R20.7", inst, "freshly computed array (aliases no argument)", nontrivial=False)
    # ---------------- R20.2 from_metrics
    A, B, S1, S2 = Sym("fnr0", ("float", "notnone", "positive")), Sym("fpr0", ("float", "notnone", "positive")), Sym("fnr_support", ("int", "notnone")), Sym("fpr_support", ("int", "notnone"))
    fm = ev.getattr(ev.global_value(ctx.db.module("score_analysis.experimental.datasets"), "NormalDataset"), "from_metrics")
    for kw in ({}, {"sigma_pos": SP, "sigma_neg": SN}):
        def thunk():
            o = ev.call(fm, [A, B, S1, S2], dict(kw))
            return Tup([ev.call(ev.getattr(o, "fnr"), [Const(0.0)], {}), ev.call(ev.getattr(o, "fpr"), [Const(0.0)], {}),
                        o.attrs.get("n"), o.attrs.get("p_pos"), o.attrs.get("score_class") if isinstance(o.attrs.get("score_class"), (Const,)) else Const("?")])
        rets, rs, _ = all_values(ctx, chk, thunk)
        inst = "from_metrics(%s)" % ("sigmas" if kw else "default sigmas")
        if not rets or rs:
            chk.unknown("R20.2", "%s: %d return / %d raise paths" % (inst, len(rets), len(rs)))
            continue
        npos, nneg = mk_app("trunc", [div(S1, A)]), mk_app("trunc", [div(S2, B)])
        want = [A, B, add(npos, nneg), div(npos, add(npos, nneg)), Const("pos")]
        names = ["fnr(0)", "fpr(0)", "n", "p_pos", "score_class"]
        bad = None
        for o in rets:
            for nm, g, w in zip(names, o.value.items, want):
                if not same(g, w):
                    bad = bad or (nm, g, w)
        if bad is None:
            chk.hold("R20.2", inst, "fnr(0) = requested fnr, fpr(0) = requested fpr, n = int(s1/fnr) + int(s2/fpr), p_pos = nb_pos/n")
        else:
            chk.violation("R20.2", ND + ".from_metrics", "%s:%s" % (inst, bad[0]), show(bad[1], 240), show(bad[2], 200), ctx.where(ND + ".from_metrics"))
    # ---------------- R20.3 sample
    def thunk():
        return ev.call(ev.getattr(normal_obj(ctx, {"score_class": Const("neg")}), "sample"), [], {"rng": RNG})
    rets, rs, outs = all_values(ctx, chk, thunk)
    news = [e for o in rets for e in o.events if e["kind"] == "new" and e["cls"] == SCORES]
    if len(rets) != 1 or len(news) != 1:
        chk.unknown("R20.3", "sample(): %d return paths, %d Scores constructions" % (len(rets), len(news)))
    else:
        kw = news[0]["kwargs"]
        pos, negv = kw.get("pos"), kw.get("neg")
        sizes = []
        for v in (pos, negv):
            sizes.append(v.kwd("size") if isinstance(v, App) and v.fn == "rng:normal" else None)
        ok = all(s is not None for s in sizes) and same(add(sizes[0], sizes[1]), NN) and kw.get("score_class") == Const("neg")
        locs = [(v.kwd("loc"), v.kwd("scale")) for v in (pos, negv) if isinstance(v, App)]
        ok = ok and locs == [(MP, SP), (MN, SN)]
        if ok:
            chk.hold("R20.3", "sample", "pos ~ N(mu_pos, sigma_pos) size k, neg ~ N(mu_neg, sigma_neg) size n-k, score_class forwarded")
        else:
            chk.violation("R20.3", ND + ".sample", "sizes/direction", "pos=%s neg=%s score_class=%s" % (show(pos, 120), show(negv, 120), show(kw.get("score_class"))),
                          "sizes summing to n, class-specific loc/scale, score_class=self.score_class", ctx.where(ND + ".sample"))
    # ---------------- R20.4 Bernoulli
    Pp = Sym("p", ("float", "notnone"))

    def thunk():
        o = Obj(ctx.db.cls(BD))
        o.attrs.update(p=Pp, n=Const(None))
        return ev.call(ev.getattr(o, "sample"), [NN], {"random": Const(False), "rng": RNG})
    rets, rs, _ = all_values(ctx, chk, thunk)
    k = mk_app("floor", [mul(NN, Pp)])
    if len(rets) != 1:
        chk.unknown("R20.4", "BernoulliDataset.sample(random=False): %d return paths" % len(rets))
    else:
        v = rets[0].value
        ones = ones_count(v, NN)
        q = BD + ".sample"
        if ones is None:
            chk.unknown("R20.4", "non-random Bernoulli sample not understood: %s" % show(v, 200))
        elif isinstance(ones, str):
            chk.violation("R20.4", q, "counts", ones + ": " + show(v, 200), "floor(n*p) ones and n - floor(n*p) zeros", ctx.where(q))
        elif same(ones[0], k) and same(ones[1], NN):
            chk.hold("R20.4", "bernoulli-counts", "floor(n*p) ones among n draws: %s" % show(v, 160))
        else:
            chk.violation("R20.4", q, "counts", "%s ones of %s" % (show(ones[0], 100), show(ones[1], 60)), "%s ones of n" % show(k), ctx.where(q))
    # ---------------- R20.5 correlated pair
    P1, P2, RHO = Sym("p1", ("float", "notnone")), Sym("p2", ("float", "notnone")), Sym("rho", ("float", "notnone"))
    q = CD + ".sample"
    for rnd in (False, True):
        def thunk():
            o = Obj(ctx.db.cls(CD))
            o.attrs.update(p1=P1, p2=P2, rho=RHO, n=Const(None))
            return ev.call(ev.getattr(o, "sample"), [NN], {"random": Const(rnd), "rng": RNG})
        rets, rs, _ = all_values(ctx, chk, thunk)
        tag = "random" if rnd else "non-random"
        if len(rets) != 1 or len(rs) != 1:
            chk.unknown("R20.5", "correlated sample (%s): %d return / %d raise paths" % (tag, len(rets), len(rs)))
            continue
        v = rets[0].value
        rows = {}
        b = v
        while isinstance(b, App) and b.fn == "store":
            if is_const(b.args[1]):
                rows.setdefault(const_of(b.args[1]), b.args[2])
            b = b.args[0]
        shape_ok = isinstance(b, App) and b.fn in ("empty", "zeros") and same(b.args[0], Tup([Const(2), NN]))
        r0, r1 = rows.get(0), rows.get(1)
        # the same two rows stacked along a new FIRST axis: np.stack([joint % 2, joint // 2]) (an integer cast of 0/1 values changes nothing)
        sv = v
        while isinstance(sv, App) and sv.fn == "fresh" and sv.kwd("dtype") in (Const("int"), None) and sv.args:
            sv = sv.args[0]
        if isinstance(sv, App) and sv.fn in ("stack", "vstack") and sv.args and isinstance(sv.args[0], Tup) and len(sv.args[0].items) == 2 \
                and (sv.fn == "vstack" or sv.kwd("axis") in (None, Const(0))):
            r0, r1 = sv.args[0].items
            shape_ok = True     # two length-n rows stacked on axis 0: shape (2, n)
        dec_ok = (isinstance(r0, App) and r0.fn == "mod" and r0.args[1] == Const(2) and isinstance(r1, App) and r1.fn == "floordiv" and r1.args[1] == Const(2)
                  and r0.args[0] == r1.args[0])
        if not (shape_ok and dec_ok) and any(isinstance(a_, App) and a_.fn.startswith("ext:") for a_ in atoms_of(v)):
            chk.unknown("R20.5", "decoding (%s) goes through an unmodelled library call: %s" % (tag, show(v, 160)))
            continue
        if not (shape_ok and dec_ok):
            chk.violation("R20.5", q, tag + ":decoding", show(v, 200), "data[0] = joint % 2, data[1] = joint // 2 in a (2, n) buffer", ctx.where(q))
            continue
        joint = r0.args[0]
        c = mul(sub(Const(1), P1), sub(Const(1), P2))
        a = add(c, mul(RHO, mk_app("sqrt", [mul(mul(P1, P2), c)])))
        want = [a, sub(sub(Const(1), P2), a), sub(sub(Const(1), P1), a), sub(add(add(P1, P2), a), Const(1))]
        # validity check: raise exactly when some probability is negative
        tk = [cnd for cnd, t in rs[0].pc if t]
        wantc = disj([cmp0("lt", to_poly(w)) for w in want])
        if tk and tk[-1] == wantc and isinstance(rs[0].value, App) and rs[0].value.fn == "ValueError":
            chk.hold("R20.5", tag + ":validity", "ValueError iff some joint probability is negative")
        else:
            chk.violation("R20.5", q, tag + ":validity", show(tk[-1], 300) if tk else "unconditional", "any(P < 0) over all four joint probabilities", ctx.where(q))
        if rnd:
            pv = joint.kwd("p") if isinstance(joint, App) else None
        else:
            pv = None
            if isinstance(joint, App) and joint.fn == "repeat" and isinstance(joint.args[0], App) and joint.args[0].fn == "arange" and joint.args[0].args[0] == Const(4):
                cnt = joint.args[1]
                if isinstance(cnt, Tup) and len(cnt.items) == 4:
                    # counts: floors of n*p_k with the remainder in the last cell
                    fl = [c.args[0] if isinstance(c, App) and c.fn == "floor" else None for c in cnt.items[:3]]
                    if all(f is not None for f in fl):
                        pv = [div(f, NN) for f in fl] + [None]
                        last_ok = same(cnt.items[3], sub(NN, add(add(cnt.items[0], cnt.items[1]), cnt.items[2])))
                        if last_ok:
                            chk.hold("R20.5", "non-random:counts", "counts floor(n p_k) for k < 3, remainder in the last cell (sum n)")
                        else:
                            chk.violation("R20.5", q, "non-random:remainder", show(cnt.items[3], 200), "n - sum of the first three counts", ctx.where(q))
        if isinstance(pv, Tup):
            pv = list(pv.items)
        if not isinstance(pv, list) or len(pv) != 4:
            chk.unknown("R20.5", "joint probabilities not recognised (%s)" % tag)
            continue
        items = list(pv)
        if items[3] is None:
            items[3] = want[3]
        if all(same(g, w) for g, w in zip(items, want)):
            chk.hold("R20.5", tag + ":joint-table", "P = [a, 1-p2-a, 1-p1-a, p1+p2+a-1], a = (1-p1)(1-p2) + rho sqrt(p1 p2 (1-p1)(1-p2))")
            tot = add(add(want[0], want[1]), add(want[2], want[3]))
            m1, m2 = add(want[1], want[3]), add(want[2], want[3])
            if same(tot, Const(1)) and same(m1, P1) and same(m2, P2):
                chk.hold("R20.5", tag + ":marginals", "sum = 1, P(X=1) = P[1]+P[3] = p1, P(Y=1) = P[2]+P[3] = p2 under (k % 2, k // 2)")
            else:
                chk.violation("R20.5", q, tag + ":marginals", "sum %s, marginals %s, %s" % (show(tot), show(m1), show(m2)), "1, p1, p2", ctx.where(q))
        else:
            bad = [(i, g, w) for i, (g, w) in enumerate(zip(items, want)) if not same(g, w)][0]
            chk.violation("R20.5", q, "%s:joint-table[%d]" % (tag, bad[0]), show(bad[1], 200), show(bad[2], 200), ctx.where(q))
    chk.floor("R20.1", 6, "4 compositions + 2 roc forms")
    chk.floor("R20.5", 7, "joint table, marginals, validity x 2 + counts")

    size_precedence(ctx, chk)
    tail_accuracy(ctx, chk)


def ones_count(v, n):
    """(number of ones, total) of a 0/1 array term, a violation string, or None."""
    if isinstance(v, App) and v.fn == "repeat":
        vals = v.args[0]
        reps = v.kwd("repeats") if v.kwd("repeats") is not None else (v.args[1] if len(v.args) > 1 else None)
        if isinstance(vals, Tup) and isinstance(reps, Tup) and len(vals.items) == len(reps.items) == 2 and {x.key for x in vals.items} == {Const(0).key, Const(1).key}:
            d = dict(zip([x.key for x in vals.items], reps.items))
            return d[Const(1).key], add(reps.items[0], reps.items[1])
    if isinstance(v, App) and v.fn == "store" and isinstance(v.args[0], App) and v.args[0].fn == "zeros" and v.args[2] == Const(1):
        tot = v.args[0].args[0]
        idx = v.args[1]
        if isinstance(idx, App) and idx.fn == "slice":
            lo, hi, st = idx.args
            if st == Const(None):
                if lo == Const(None):
                    return hi, tot
                if hi == Const(None):
                    p = to_poly(lo)
                    if p is not None and all(co < 0 for co in p.t.values()):
                        return "negative slice start -k selects the whole array when k == 0"
                    return sub(tot, lo), tot
    # comparison of the positions 0..n-1 with a bound:  (arange(n) < x)  holds for ceil(x) positions,  (arange(n) <= x)  for floor(x) + 1  (0 <= x <= n)
    if isinstance(v, App) and v.fn in ("lt0", "le0") and len(v.args) == 1:
        ar = []
        from ..terms import walk
        walk(v.args[0], lambda t: ar.append(t) if isinstance(t, App) and t.fn == "arange" else None)
        ar = list({a.key: a for a in ar}.values())
        if len(ar) == 1 and len(ar[0].args) == 1:
            tot = ar[0].args[0]
            bound = sub(ar[0], v.args[0])  # arange - (arange - x) = x
            rest = []
            walk(bound, lambda t: rest.append(t) if isinstance(t, App) and t.fn == "arange" else None)
            if not rest:
                integral = isinstance(bound, App) and bound.fn in ("floor", "trunc", "ceil")
                if v.fn == "lt0":
                    return (bound if integral else mk_app("ceil", [bound])), tot
                return add(bound if integral else mk_app("floor", [bound]), Const(1)), tot
    return None


def size_precedence(ctx, chk):
    """R20.6 the size passed to sample() wins over the size stored on the dataset (sample(n) returns n draws); without it the dataset's size is used."""
    ev = ctx.ev
    NDS = Sym("n_dataset", ("int", "notnone", "positive"))
    # NormalDataset.sample: the class sizes handed to Scores sum to the governing n
    for given, want in ((NN, NN), (None, NDS)):
        def thunk_n():
            o = normal_obj(ctx, {"n": NDS})
            return ev.call(ev.getattr(o, "sample"), [given] if given is not None else [], {"rng": RNG})
        rets, rs, _ = all_values(ctx, chk, thunk_n)
        inst = "NormalDataset:sample(%s)" % ("n" if given is not None else "")
        news = [e for o in rets for e in o.events if e["kind"] == "new" and e["cls"] == SCORES]
        if len(rets) != 1 or len(news) != 1:
            chk.unknown("R20.6", "%s: %d return paths, %d Scores constructions" % (inst, len(rets), len(news)))
            continue
        kw = news[0]["kwargs"]
        sizes = [v.kwd("size") if isinstance(v, App) and v.fn == "rng:normal" else None for v in (kw.get("pos"), kw.get("neg"))]
        if all(x is not None for x in sizes) and same(add(sizes[0], sizes[1]), want):
            chk.hold("R20.6", inst, "class sizes sum to %s" % show(want))
        else:
            chk.violation("R20.6", ND + ".sample", inst, "sizes %s" % [show(x, 80) if x is not None else "?" for x in sizes],
                          "the class sizes sum to %s" % ("the n passed to sample()" if given is not None else "the dataset's n"), ctx.where(ND + ".sample"))
    cases = [(BD, {"p": Sym("p", ("float", "notnone"))}), (CD, {"p1": Sym("p1", ("float", "notnone")), "p2": Sym("p2", ("float", "notnone")), "rho": Sym("rho", ("float", "notnone"))})]
    for cls, attrs in cases:
        short = cls.split(".")[-1]
        for given, want, other in ((NN, NN, NDS), (None, NDS, NN)):
            def thunk():
                o = Obj(ctx.db.cls(cls))
                o.attrs.update(attrs)
                o.attrs["n"] = NDS
                return ev.call(ev.getattr(o, "sample"), [given] if given is not None else [], {"random": Const(False), "rng": RNG})
            rets, rs, _ = all_values(ctx, chk, thunk)
            inst = "%s:sample(%s)" % (short, "n" if given is not None else "")
            if not rets:
                chk.unknown("R20.6", "%s: no return path" % inst)
                continue
            bad = [o for o in rets if any(a == other for a in atoms_of(o.value)) or not any(a == want for a in atoms_of(o.value))]
            if bad:
                chk.violation("R20.6", cls + ".sample", inst, show(bad[0].value, 200), "the number of draws is %s" % ("the n passed to sample()" if given is not None else "the dataset's n"),
                              ctx.where(cls + ".sample"))
            else:
                chk.hold("R20.6", inst, "number of draws = %s" % show(want))
