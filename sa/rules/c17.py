"""C17 — general threshold search returns true solutions of the interpolated metric (DESIGN §4 C17)."""
from __future__ import annotations

import itertools
from fractions import Fraction

from ..evalr import Obj, FuncV
from ..numeval import CannotEvaluate, evaluate
from ..spec import GROUP, SCORES, POS, NEG, returns, raises, unmodelled_text, pc_text
from ..terms import App, Const, Num, Sym, Tup, same, show, sub, add, mul, div, atoms_of, to_poly, cmp0, is_const, const_of, ite, compare, neg, INF
from ..simp import mk_app

LEVEL = "other"
Q = "score_analysis.utils.invert_pl_function"
TAM = SCORES + ".threshold_at_metric"
X = Sym("x", ("param", "array", "notnone", "rank1"))
Y = Sym("y", ("param", "array", "notnone", "rank1"))
FULL = App("slice", (Const(None), Const(None), Const(None)))


def rank(v, env):
    """Rank (number of axes) of a derived term, or None."""
    if v in env:
        return env[v]
    if isinstance(v, Const):
        return 0
    if isinstance(v, Sym):
        if "loopvar" in v.tags or "int" in v.tags:
            return 0
        return None
    if isinstance(v, Num):
        rs = [rank(a, env) for a in v.poly.atoms()]
        if any(r is None for r in rs):
            return None
        return max(rs) if rs else 0
    if isinstance(v, App):
        if v.fn in ("abs", "fresh", "asarray", "floor", "ceil", "inv"):
            return rank(v.args[0], env)
        if v.fn == "getitem" and isinstance(v.args[0], App) and v.args[0].fn == "nonzero" and is_const(v.args[1]):
            return 1
        if v.fn == "elem":
            r = rank(v.args[0], env)
            return None if r is None else max(r - 1, 0)
        if v.fn in ("argmin", "argmax", "amin", "amax", "sum") and v.kwd("axis") is not None:
            r = rank(v.args[0], env)
            return None if r is None else r - 1
        if v.fn == "ite":
            a, b = rank(v.args[1], env), rank(v.args[2], env)
            return a if a == b else None
        if v.fn == "getitem":
            r = rank(v.args[0], env)
            if r is None:
                return None
            idx = v.args[1]
            items = list(idx.items) if isinstance(idx, Tup) else [idx]
            consumed, added = 0, 0
            for i in items:
                if i == Const(None):
                    added += 1
                elif i == Const(Ellipsis):
                    continue
                elif isinstance(i, App) and i.fn == "slice":
                    consumed += 1
                    added += 1
                else:
                    ri = rank(i, env)
                    if ri is None:
                        return None
                    consumed += 1
                    added += ri
            return r - consumed + added
    return None


def run(ctx, chk, tier):
    own = chk.pid == "C17"   # as a prerequisite of another check the host's own rule text and explanation stay
    saved = (getattr(chk, "rule_text", ""), getattr(chk, "explanation", ""))
    chk.rule_text = ("obligations: crossing predicates over all weak orderings of (y_j, y_j+1, t) (27 integer assignments cover the 13 orderings), interpolation identity, rank of "
                     "every appended value, fallback guard and value, scalar reduction, the three point modes of threshold_at_metric; non-trivial = uses derived terms")
    chk.explanation = ("invert_pl_function is evaluated symbolically; the crossing mask, the interpolation weight and the appended values are extracted from the parametric loops. "
                       "The two crossing predicates are evaluated exactly on every weak ordering of segment start, segment end and target: a detected crossing implies distinct end "
                       "values (no zero division) and lambda in [0, 1), so each touching sample is attributed to exactly one segment and solutions are strictly increasing; "
                       "z = (1-lambda) x_j + lambda x_j+1 solves the interpolant identically; all values appended to one result list have rank 0; the fallback is "
                       "x[argmin |y - t|] used iff no crossing was recorded. threshold_at_metric feeds one points value to both x and the metric for its three point modes.")
    if not own:
        chk.rule_text, chk.explanation = saved
    chk.trusted |= {"numpy.nonzero returns indices in row-major order", "numpy.argmin", "boolean & | on masks"}
    ev = ctx.ev
    f = ctx.fn(Q)
    # the curve that is inverted is a ConfusionMatrix metric of cm(points): its cells are the decision-rule counts in a buffer wide enough
    # for them (a matrix stored in a narrower integer type makes TOP / TON wrap around and the inverted curve is not the metric's)
    from . import c01 as _c01
    _c01.cm_cells_rule(ctx, chk)
    # points=<int> spreads the grid over [min score, max score]: whatever the constructors keep about the range is derived from sorted scores
    _c01.constructor_sorted(ctx, chk)
    for trank in (1, 0):
        Tt = Sym("t", ("param", "array", "notnone", "rank%d" % trank))
        outs = ctx.explore(lambda: ev.call(f, [X, Y, Tt], {}), chk)
        rets = returns(outs)
        tag = "t-rank%d" % trank
        if not rets or any(o.unmodelled for o in rets):
            chk.unknown("R17", "invert_pl_function(%s): %d return paths %s" % (tag, len(rets), [unmodelled_text(o) for o in rets if o.unmodelled][:1]))
            continue
        from ..terms import subst as _subst
        N_ = lambda v: _subst(v, {})  # noqa: E731  (normal form of index terms: trailing full slices, x[None][None], expand_dims)
        t2d = N_(App("getitem", (Tt, Tup([Const(None), FULL]))) if trank == 1 else App("getitem", (Tt, Tup([Const(None), Const(None)]))))
        y2d = N_(App("getitem", (Y, Tup([FULL, Const(None)]))))
        A_, B_ = N_(App("getitem", (y2d, App("slice", (Const(None), Const(-1), Const(None)))))), N_(App("getitem", (y2d, App("slice", (Const(1), Const(None), Const(None))))))
        # the same roles in the targets-first broadcast layout (y as a row (1, N), t as a column (T, 1)): which axis carries the targets is a
        # private choice; the obligations are stated per layout
        y2dB = N_(App("getitem", (Y, Tup([Const(None), FULL]))))
        t2dB = N_(App("getitem", (Tt, Tup([FULL, Const(None)]))) if trank == 1 else App("getitem", (Tt, Tup([Const(None), Const(None)]))))
        A_B = N_(App("getitem", (y2dB, Tup([FULL, App("slice", (Const(None), Const(-1), Const(None)))]))))
        B_B = N_(App("getitem", (y2dB, Tup([FULL, App("slice", (Const(1), Const(None), Const(None)))]))))
        LAYOUTS = {"points-first": (A_, B_, t2d, y2d), "targets-first": (A_B, B_B, t2dB, y2dB)}
        env_rank = {X: 1, Y: 1, Tt: trank}
        seen_cross = seen_fb = False
        for o in rets:
            fors = [e for e in o.events if e["kind"] == "for"]
            apps = [e for e in o.events if e["kind"] == "elem_append"]
            if not fors and not apps and not getattr(getattr(o.value, "lst", o.value), "comp", None):
                # a return path that bypasses the crossing detection altogether (a fast path for special inputs): its result is not
                # covered by the crossing / interpolation / fallback obligations below
                chk.unknown("R17", "%s: a return path skips the crossing detection (%s): %s" % (tag, pc_text(o)[-160:], show(o.value, 120)))
                continue
            for e in apps:
                r = rank(e["value"], env_rank)
                inloop = e["loops"]
                # the fallback appends the closest sample (an argmin selection); crossings are appended from the loop over the crossing indices
                is_cross = bool(inloop) and isinstance(inloop[-1][2], App) and inloop[-1][2].fn == "zip" and "argmin(" not in getattr(e["value"], "key", "")
                kind = "crossing" if is_cross else "fallback"
                if r == 0:
                    chk.hold("R17.1", "%s:%s-rank" % (tag, kind), "%s value appended to s[...] has rank 0" % kind)
                elif r is None:
                    chk.unknown("R17.1", "%s: rank of %s value not derivable: %s" % (tag, kind, show(e["value"], 160)))
                else:
                    chk.violation("R17.1", Q, "%s:%s-rank" % (tag, kind), "rank %d value %s" % (r, show(e["value"], 200)), "rank 0 (all entries of a solution list are scalars)", ctx.where(Q))
                if is_cross and not seen_cross:
                    seen_cross = True
                    crossing_rules(ctx, chk, tag, e, inloop[-1], A_, B_, t2d, Tt, LAYOUTS)
                if not is_cross and not seen_fb:
                    seen_fb = True
                    check_fallback(ctx, chk, tag, e["value"], e["index"], o, y2d, t2d, LAYOUTS)
            # comprehension form: the fallback is an element of the returned list
            if not seen_fb:
                from ..evalr import Lst
                v = o.value
                if type(v).__name__ == "ListElem":
                    v = v.lst
                if isinstance(v, Lst) and getattr(v, "comp", None):
                    loops, conds, elt = v.comp
                    fb = [a for a in atoms_of(elt if hasattr(elt, "key") else Const(0)) if isinstance(a, App) and a.fn == "getitem" and "argmin(" in a.key]
                    if fb and isinstance(loops[0][1], Tup):
                        seen_fb = True
                        j = loops[0][1].items[0]
                        inner = fb[0]
                        ite_guard = None
                        if isinstance(elt, App) and elt.fn == "ite" and len(elt.args) == 3:
                            # conditional-expression form: `sol if len(sol) > 0 else [fallback]` (or the mirrored test)
                            c_, a_, b_ = elt.args
                            if isinstance(b_, Tup) and len(b_.items) == 1 and b_.items[0] == inner and "argmin(" not in a_.key:
                                elt, ite_guard = b_, (c_, False)
                            elif isinstance(a_, Tup) and len(a_.items) == 1 and a_.items[0] == inner and "argmin(" not in b_.key:
                                elt, ite_guard = a_, (c_, True)
                        wrapped = isinstance(elt, Tup) and len(elt.items) == 1 and elt.items[0] == inner
                        if not wrapped:
                            chk.unknown("R17.1", "%s: fallback element %s is not a one-element list of a scalar" % (tag, show(elt, 120)))
                        else:
                            r = rank(inner, env_rank)
                            if r == 0:
                                chk.hold("R17.1", "%s:fallback-rank" % tag, "fallback entry is a one-element list of a rank-0 value")
                            else:
                                chk.violation("R17.1", Q, "%s:fallback-rank" % tag, "rank %s value %s" % (r, show(inner, 160)), "rank 0", ctx.where(Q))
                            if ite_guard is not None:
                                import copy as _copy
                                o2 = _copy.copy(o)
                                o2.pc = list(o.pc) + [ite_guard]
                                check_fallback(ctx, chk, tag, inner, j, o2, y2d, t2d)
                            else:
                                check_fallback(ctx, chk, tag, inner, j, o, y2d, t2d)
            if trank == 0 and o is rets[0]:
                v = o.value
                txt = v.key if hasattr(v, "key") else repr(v)
        if not seen_cross:
            chk.unknown("R17.2", "%s: crossing loop not observed" % tag)
        if not seen_fb:
            chk.unknown("R17.4", "%s: fallback not observed" % tag)
    threshold_at_metric(ctx, chk)
    from . import c10
    c10.purity(ctx, chk, only=("Scores.threshold_at_metric", "utils.invert_pl_function"), strict=False)
    chk.floor("R17.2", 2, "crossing predicates for array and scalar targets")


def check_fallback(ctx, chk, tag, value, j, o, y2d, t2d, layouts=None):
    x2d = App("getitem", (X, Tup([FULL, Const(None)])))
    am = App("argmin", (App("abs", (sub(y2d, t2d),)),), [("axis", Const(0))])
    want = App("getitem", (App("getitem", (x2d, am)), Tup([j, Const(0)])))
    from ..terms import subst as _subst
    want, value = _subst(want, {}), _subst(value, {}) if hasattr(value, "key") else value
    if not same(value, want):
        # the same closest sample read from the 1-d x (no unit axis): x[argmin_over_points |y - t|][j]
        cand = _subst(App("getitem", (App("getitem", (X, am)), j)), {})
        if same(value, cand):
            want = cand
    if layouts and "targets-first" in layouts and not same(value, want):
        # targets-first layout: the closest sample is searched along axis 1 of |y (1, N) - t (T, 1)| and read from the 1-d x
        _a, _b, t2dB, y2dB = layouts["targets-first"]
        amB = App("argmin", (App("abs", (sub(y2dB, t2dB),)),), [("axis", Const(1))])
        for cand in (App("getitem", (App("getitem", (X, amB)), j)), App("getitem", (App("getitem", (App("getitem", (X, Tup([Const(None), FULL]))), Tup([Const(0), amB]))), j))):
            cand = _subst(cand, {})
            if same(value, cand):
                want = cand
                break

    def emptiness(c, taken):
        if isinstance(c, App) and c.fn == "not":
            return emptiness(c.args[0], not taken)
        k = c.key
        if "list" not in k and "elem(" not in k:
            return False
        if isinstance(c, App) and c.fn == "eq0" and "len(" in k:
            return taken
        if isinstance(c, App) and c.fn == "truthy":
            return not taken
        if isinstance(c, App) and c.fn == "lt0" and "len(" in k:      # len(z) > 0
            return not taken
        return False
    guard_ok = any(emptiness(c, t_) for c, t_ in o.pc)
    if same(value, want) and guard_ok:
        chk.hold("R17.4", tag + ":fallback", "no crossing recorded -> x[argmin |y - t_j|]")
    else:
        chk.violation("R17.4", Q, tag + ":fallback", "%s under %s" % (show(value, 200), pc_text(o)[:120]), "%s iff the solution list of target j is empty" % show(want, 200), ctx.where(Q))


def crossing_rules(ctx, chk, tag, e, loop, A_, B_, t2d, Tt, layouts=None):
    it = loop[2]
    nz = None
    if isinstance(it, App) and it.fn == "zip" and len(it.args) == 2:
        g0 = it.args[0]
        if isinstance(g0, App) and g0.fn == "getitem" and isinstance(g0.args[0], App) and g0.args[0].fn == "nonzero":
            nz = g0.args[0].args[0]
    if nz is None:
        chk.unknown("R17.2", "%s: crossing indices are not nonzero(mask): %s" % (tag, show(it, 160)))
        return
    transposed = isinstance(nz, App) and nz.fn == "attr:T"
    mask = nz.args[0] if transposed else nz
    from ..terms import subst as _subst
    mask = _subst(mask, {})
    layout = "points-first"
    if layouts:
        keys = {a.key for a in atoms_of(mask)}
        for nm, (a_, b_, t_, _y) in layouts.items():
            if a_.key in keys and b_.key in keys:
                layout = nm
                A_, B_, t2d = a_, b_, t_
    # np.nonzero lists the set positions in row-major order: the TARGET axis must come first, so that the solutions of one target are
    # produced with increasing segment index
    need_transposed = layout == "points-first"
    if transposed != need_transposed:
        chk.violation("R17.2", Q, tag + ":order", "nonzero of the %s mask in the %s layout" % ("transposed" if transposed else "untransposed", layout),
                      "the target axis first (row-major order of np.nonzero): per target, segment indices in increasing order", ctx.where(Q))
    bad = []
    n_cross = 0
    try:
        for a, b, t in itertools.product((0, 1, 2), repeat=3):
            env = {A_: Fraction(a), B_: Fraction(b), t2d: Fraction(t)}
            cr = bool(evaluate(mask, env))
            parts = mask.args if isinstance(mask, App) and mask.fn == "or" else [mask]
            vals = [bool(evaluate(p_, dict(env))) for p_ in parts]
            if sum(vals) > 1:
                bad.append("y_j=%d, y_j+1=%d, t=%d: both crossing predicates hold" % (a, b, t))
            if cr:
                n_cross += 1
                if a == b:
                    bad.append("y_j = y_j+1 = %d, t=%d is reported as a crossing (division by zero in the interpolation)" % (a, t))
                else:
                    la = Fraction(t - a, b - a)
                    if not (0 <= la < 1):
                        bad.append("y_j=%d, y_j+1=%d, t=%d: lambda = %s not in [0, 1) (end point attributed to this segment as well as the next)" % (a, b, t, la))
            else:
                if a != b and 0 <= Fraction(t - a, b - a) < 1:
                    bad.append("y_j=%d, y_j+1=%d, t=%d: the segment contains a solution (lambda=%s) but no crossing is reported" % (a, b, t, Fraction(t - a, b - a)))
    except CannotEvaluate as ex:
        chk.unknown("R17.2", "%s: crossing mask outside the evaluable vocabulary (%s): %s" % (tag, ex, show(mask, 200)))
        return
    if bad:
        chk.violation("R17.2", Q, tag + ":crossing-predicates", "; ".join(bad[:3]), "over all 13 weak orderings: crossing <=> y_j != y_j+1 and lambda in [0,1); predicates disjoint", ctx.where(Q))
    else:
        chk.hold("R17.2", tag + ":crossing-predicates", "27 assignments (13 weak orderings): %d crossings, each with y_j != y_j+1 and lambda in [0,1); up/down disjoint" % n_cross)
    # interpolation identity
    tind, sind = loop[1].items if isinstance(loop[1], Tup) and len(loop[1].items) == 2 else (None, None)
    if tind is None or e["index"] != tind:
        chk.violation("R17.3", Q, tag + ":target-slot", "appended to s[%s]" % show(e["index"], 80), "s[t_index] of the crossing's target", ctx.where(Q))
        return
    x1 = App("getitem", (App("getitem", (X, Tup([FULL, Const(None)]))), Tup([FULL, Const(0)])))
    y1 = App("getitem", (App("getitem", (Y, Tup([FULL, Const(None)]))), Tup([FULL, Const(0)])))
    t1 = App("getitem", (t2d, Const(0))) if layout == "points-first" else App("getitem", (t2d, Tup([FULL, Const(0)])))
    xj, xj1 = App("getitem", (x1, sind)), App("getitem", (x1, add(sind, Const(1))))
    yj, yj1 = App("getitem", (y1, sind)), App("getitem", (y1, add(sind, Const(1))))
    tk = App("getitem", (t1, tind))
    la = div(sub(tk, yj), sub(yj1, yj))
    want = add(mul(sub(Const(1), la), xj), mul(la, xj1))
    from ..terms import subst
    if same(subst(e["value"], {}), subst(want, {})):
        chk.hold("R17.3", tag + ":interpolation", "z = (1-la) x_j + la x_j+1, la = (t - y_j)/(y_j+1 - y_j)  (solves the interpolant on segment j)")
    else:
        chk.violation("R17.3", Q, tag + ":interpolation", show(e["value"], 300), show(want, 300), ctx.where(Q))


def threshold_at_metric(ctx, chk):
    ev = ctx.ev
    cap = []

    def stub(ev_, fi, bound):
        b_ = dict(bound)
        b_["__pc__"] = list(ev_.pc)
        cap.append(b_)
        return Sym("INVERTED")

    def emptiness(pc, arr):
        """True / False when the path condition decides len(arr) == 0, None otherwise."""
        from ..terms import subst as _subst
        ln = App("len", (arr,))
        for c_, t_ in pc:
            ats = [a_ for a_ in [c_] + list(atoms_of(c_)) if isinstance(a_, App) and a_.fn in ("len", "size")]
            if not ats or any(a_.args[0] != arr for a_ in ats):
                continue
            mp0, mp1 = {a_: Const(0) for a_ in ats}, {a_: Const(1) for a_ in ats}
            try:
                v0, v1 = _subst(c_, mp0), _subst(c_, mp1)
            except Exception:
                continue
            if isinstance(v0, Const) and isinstance(v1, Const) and bool(v0.value) != bool(v1.value):
                return bool(v0.value) == bool(t_)
        return None

    grid_xs = {}

    target = Sym("target", ("param", "array", "notnone"))
    M = Sym("metric", ("callable", "param", "notnone"))
    modes = {"all": Const(None), "array": Sym("pts", ("param", "array", "notnone")), "int": Sym("k", ("int", "param", "notnone"))}
    for mode, pts in modes.items():
        del cap[:]
        ev.stubs[Q] = stub
        holder = {}
        try:
            def thunk():
                o = ctx.scores_obj("pos", "pos")
                holder["o"] = o
                return ev.call(ctx.method(o, "threshold_at_metric"), [target, M], {"points": pts})
            outs = ctx.explore(thunk, chk)
        finally:
            ev.stubs.pop(Q, None)
        rets = returns(outs)
        inst = "points=" + mode
        if not rets or not cap:
            chk.unknown("R17.5", "threshold_at_metric(%s): %d return paths, %d inversions" % (inst, len(rets), len(cap)))
            continue
        ok_all = True
        for b in cap:
            x, y, t = b.get("x"), b.get("y"), b.get("t")
            ok = isinstance(y, App) and y.fn == "call" and y.args[0] == M and isinstance(y.args[1], Tup) and len(y.args[1].items) == 2 and y.args[1].items[1] == x and t == target
            if mode == "all":
                ok = ok and isinstance(x, App) and x.fn == "sort" and isinstance(x.args[0], App) and x.args[0].fn == "concat" and sorted(a.key for a in x.args[0].args) == sorted([POS.key, NEG.key])
            elif mode == "array":
                ok = ok and x == pts
            else:
                ok = ok and isinstance(x, App) and x.fn == "linspace" and len(x.args) >= 3 and x.args[2] == pts and x.kwd("endpoint") in (None, Const(True)) \
                    and x.kwd("dtype") is None
                if ok:
                    lo, hi = x.args[0], x.args[1]
                    # the grid spans [smallest score, largest score] over the NON-EMPTY classes (emptiness = length 0, not "no truthy element":
                    # a class of all-zero scores is not empty)
                    pc_ = b.get("__pc__", [])

                    def _end(arr, pos_, fill):
                        em = emptiness(pc_, arr)      # a path that has already decided which classes are empty
                        if em is True:
                            return None
                        if em is False:
                            return mk_app("getitem", [arr, Const(pos_)])
                        return ite(compare(">", App("len", (arr,)), Const(0)), mk_app("getitem", [arr, Const(pos_)]), fill)

                    def _join(fn_, parts, fill):
                        parts = [p_ for p_ in parts if p_ is not None]
                        return fill if not parts else parts[0] if len(parts) == 1 else mk_app(fn_, parts)
                    want_lo = _join("min", [_end(POS, 0, INF), _end(NEG, 0, INF)], INF)
                    want_hi = _join("max", [_end(POS, -1, neg(INF)), _end(NEG, -1, neg(INF))], neg(INF))
                    ok = same(lo, want_lo) and same(hi, want_hi)
                    if ok:
                        grid_xs.setdefault(mode, set()).add(x.key)
                    if not ok:
                        # another spelling of the same range is not decided; a range whose emptiness tests look at the score VALUES is wrong
                        conds = [a_.args[0] for e_ in (lo, hi) for a_ in [e_] + list(atoms_of(e_)) if isinstance(a_, App) and a_.fn == "ite" and len(a_.args) == 3]
                        by_value = [c_ for c_ in conds if any(isinstance(x_, App) and x_.fn not in ("len", "size") and (POS.key in x_.key or NEG.key in x_.key)
                                                             for x_ in [c_] + list(atoms_of(c_)) if isinstance(x_, App) and x_.fn in ("any", "all", "sum", "getitem", "max", "min", "count_nonzero"))]
                        if not by_value and all(k_ in lo.key and k_ in hi.key for k_ in (POS.key, NEG.key)):
                            chk.unknown("R17.5", "points=int: the grid range [%s, %s] is not in the recognised form" % (show(lo, 100), show(hi, 100)))
                            ok = None
            if ok is None:
                ok_all = None
                break
            ok_all = ok_all and ok
        if ok_all is None:
            pass
        elif ok_all:
            chk.hold("R17.5", inst, "invert_pl_function(x=points, y=metric(self, points), t=target) with points = %s" % {"all": "all scores (sorted)", "array": "the supplied points", "int": "k evenly spaced points spanning the scores"}[mode])
        else:
            b = cap[0]
            chk.violation("R17.5", TAM, inst, "x=%s y=%s t=%s" % tuple(show(b.get(k), 120) if b.get(k) is not None else "?" for k in ("x", "y", "t")),
                          "one points value feeds x and the metric evaluation; t = target", ctx.where(TAM))
    # metrics given by NAME evaluate on the same points as a callable would (all scores of both classes / the same grid)
    from .thr import METRICS, ALIASES
    for name in list(METRICS) + list(ALIASES):
        for mode, pts in (("all", Const(None)), ("int", modes["int"])):
            del cap[:]
            ev.stubs[Q] = stub
            rate_calls = []

            base = ALIASES.get(name, name)

            def st_rate(ev_, fi, bound):
                rate_calls.append(dict(bound))
                arg = [v for k, v in bound.items() if k != "self"]
                return App("RATE", (arg[0] if arg else Const("?"),))
            # the six base rates are stubbed: an alias (hand-written or generated) reaches its target through them
            ev.stubs[SCORES + "." + base] = st_rate
            try:
                outs = ctx.explore(lambda: ev.call(ctx.method(ctx.scores_obj("pos", "pos"), "threshold_at_metric"), [target, Const(name)], {"points": pts}), chk)
            finally:
                ev.stubs.pop(Q, None)
                ev.stubs.pop(SCORES + "." + base, None)
            inst = "named:%s:points=%s" % (name, mode)
            if not returns(outs) or not cap:
                chk.unknown("R17.5", "threshold_at_metric(%s): %d return paths, %d inversions" % (inst, len(returns(outs)), len(cap)))
                continue
            bad = None
            for b in cap:
                x, y = b.get("x"), b.get("y")
                if mode == "all":
                    okx = isinstance(x, App) and x.fn == "sort" and isinstance(x.args[0], App) and x.args[0].fn == "concat" and sorted(a.key for a in x.args[0].args) == sorted([POS.key, NEG.key])
                else:
                    okx = isinstance(x, App) and x.fn == "linspace" and len(x.args) >= 3 and x.args[2] == pts and x.kwd("dtype") is None and \
                        ((POS.key in x.args[0].key and NEG.key in x.args[0].key and POS.key in x.args[1].key and NEG.key in x.args[1].key)
                         or x.key in grid_xs.get("int", ()))      # or: one of the grids the callable form was shown to use on its paths
                oky = y == App("RATE", (x,))
                if not (okx and oky):
                    bad = (x, y)
            if bad is None:
                chk.hold("R17.5", inst, "metric name %r: same evaluation points as for a callable; y = the named rate at those points" % name, nontrivial=False)
            else:
                chk.violation("R17.5", TAM, inst, "x=%s y=%s" % (show(bad[0], 120) if bad[0] is not None else "?", show(bad[1], 80) if bad[1] is not None else "?"),
                              "points = all scores of both classes (sorted) / k evenly spaced points spanning them, whatever metric is named", ctx.where(TAM))
    # name resolution through type(self)
    seen = []

    def st_named(ev_, fi, bound):
        seen.append(1)
        return Sym("NAMED")

    ev.stubs[Q] = stub
    ev.stubs[GROUP + ".group_fnr"] = st_named
    try:
        ctx.explore(lambda: ev.call(ctx.method(ctx.scores_obj("pos", "pos", GROUP), "threshold_at_metric"), [target, Const("group_fnr")], {"points": modes["array"]}), chk)
    finally:
        ev.stubs.pop(Q, None)
        ev.stubs.pop(GROUP + ".group_fnr", None)
    if seen:
        chk.hold("R17.5", "name-resolution", "metric names resolve on type(self)")
    else:
        chk.violation("R17.5", TAM, "name-resolution", "GroupScores.group_fnr not reached", "getattr(type(self), metric)", ctx.where(TAM))
