"""C05 — multiclass confusion matrices: faithful construction, conservative one-vs-all (DESIGN §4 C05)."""
from __future__ import annotations

from ..evalr import Obj, Dct
from ..simp import mk_app
from ..spec import CM, returns, raises, unmodelled_text, pc_text
from ..terms import (App, Const, Num, Sym, Tup, NAN, add, sub, same, show, to_poly, atoms_of, subst, has_top)
from .. import libmodel
from .c04 import as_rate, eval_fn, CM_METHODS, A as ALPHA, MET

LEVEL = "other"
AFP = CM + "._assign_from_predictions"
AFM = CM + "._assign_from_matrix"
OVA = CM + ".one_vs_all"

L = Sym("labels", ("param", "array", "notnone"))
P = Sym("preds", ("param", "array", "notnone"))
W = Sym("weights", ("param", "array", "notnone"))
K = Sym("classes", ("param", "array", "notnone"))


def libmodel_basic(idx):
    from ..evalr import is_basic_index
    return is_basic_index(idx)


def strip_loop(v):
    while isinstance(v, App) and v.fn == "after_loop":
        v = v.args[0]
    return v


def _lookup(term):
    """dict.getitem(dictcomp(...K -> position...), elem(SRC, j)) -> (K, SRC, j) or None."""
    if not (isinstance(term, App) and term.fn == "dict.getitem"):
        return None
    d, key = term.args
    if not (isinstance(d, App) and d.fn == "dictcomp"):
        return None
    loops, its, k, v = d.args
    if len(its.items) != 1 or not (isinstance(its.items[0], App) and its.items[0].fn == "enumerate"):
        return None
    seq = its.items[0].args[0]
    le = loops.items[0]
    if not (isinstance(le, Tup) and len(le.items) == 2):
        return None
    pos, el = le.items
    if k != el or v != pos:
        return ("swapped", seq, key)
    if not (isinstance(key, App) and key.fn == "elem"):
        return None
    return (seq, key.args[0], key.args[1])


def via_constructor(ctx, chk, kwargs):
    """The (matrix, classes) pair a ConfusionMatrix gets from the public constructor (robust against any re-arrangement of the private
    helpers); None when the constructor does not yield exactly one normal path with both attributes as terms."""
    cmcls = ctx.db.cls(CM)
    kw = {k: v for k, v in kwargs.items() if not (isinstance(v, Const) and v.value is None)}
    try:
        outs = ctx.explore(lambda: ctx.ev.instantiate(cmcls, [], dict(kw)), chk)
    except Exception:  # noqa: BLE001
        return None
    rets = [o for o in outs if o.kind == "return"]
    if len(rets) != 1 or not isinstance(rets[0].value, Obj):
        return None
    o = rets[0]
    m, c = o.value.attrs.get("matrix"), o.value.attrs.get("classes")
    if not (hasattr(m, "key") and hasattr(c, "key")):
        return None
    o.value = Tup([m, c])
    return [o]


def check_from_predictions(ctx, chk):
    f = ctx.fn(AFP)
    for wv, wname in ((W, "weights"), (Const(None), "unweighted")):
        for kv, kname in ((K, "classes"), (Const(None), "inferred")):
            inst = "%s/%s" % (wname, kname)
            outs = via_constructor(ctx, chk, {"labels": L, "predictions": P, "weights": wv, "classes": kv})
            if outs is None:
                outs = ctx.explore(lambda: ctx.ev.call(f, [L, P, wv, kv, Const(False)], {}), chk)
            rets = returns(outs)
            if len(rets) != 1 or rets[0].unmodelled or not isinstance(rets[0].value, Tup):
                chk.unknown("R05.1", "%s [%s]: %d return paths %s" % (AFP, inst, len(rets), rets and unmodelled_text(rets[0])))
                continue
            o = rets[0]
            mat, classes = o.value.items
            exp_classes = K if kv is K else App("unique", (App("concat", (App("unique", (L,)), App("unique", (P,)))),))
            if not same(classes, exp_classes):
                chk.violation("R05.1", AFP, inst + ":classes", show(classes, 200), show(exp_classes, 200), ctx.where(AFP))
                continue
            m = strip_loop(mat)
            fors = [e for e in o.events if e["kind"] == "for"]
            # vectorised accumulation through fancy indexing (known numpy semantics: repeated indices are not accumulated)
            if not fors or not (isinstance(m, App) and m.fn == "store"):
                fancy = [e for e in o.events if e["kind"] == "augstore" and e.get("loops", 0) == 0 and not libmodel_basic(e["index"])]
                if fancy:
                    e = fancy[0]
                    chk.violation("R05.1", AFP, inst + ":accumulate", "in-place `+=` through array-valued index %s" % show(e["index"], 160),
                                  "per-sample accumulation (numpy fancy-index += keeps one increment per repeated index pair)",
                                  "%s line %s" % (ctx.where(AFP), getattr(e["node"], "lineno", "?")))
                else:
                    chk.unknown("R05.1", "%s [%s]: accumulation not recognised: %s" % (AFP, inst, show(mat, 200)))
                continue
            ok, why = decode_accumulate(m, classes, wv)
            if ok is None:
                chk.unknown("R05.1", "%s [%s]: %s" % (AFP, inst, why))
            elif ok:
                it = fors[-1]["iter"]
                chk.hold("R05.1", inst, "matrix[pos(label_k)][pos(pred_k)] += %s over %s; pos = index in %s" % (why, show(it, 80), show(classes, 60)))
            else:
                chk.violation("R05.1", AFP, inst + ":roles", why, "row <- label_k, column <- prediction_k, increment <- weight_k (default 1), index map from the class order",
                              ctx.where(AFP))
    chk.floor("R05.1", 4, "weights x classes combinations")


def decode_accumulate(m, classes, wv):
    base, r, inner = m.args[0], m.args[1], m.args[2]
    if not (isinstance(base, App) and base.fn == "carried"):
        return None, "store base is not the loop-carried matrix"
    z = base.args[0]
    n = App("len", (libmodel.strip_fresh(classes),))
    n = libmodel.length(None, classes) if False else n
    if not (isinstance(z, App) and z.fn == "zeros"):
        return False, "accumulator is initialised by %s, not zeros" % show(z, 80)
    shp = z.args[0]
    if not (isinstance(shp, Tup) and len(shp.items) == 2 and all(same(s, n) for s in shp.items)):
        return False, "accumulator shape %s is not (len(classes), len(classes))" % show(shp, 120)
    if isinstance(r, Tup) and len(r.items) == 2:
        rr, cc = r.items
        newv = inner
        old = App("getitem", (base, r))
    else:
        rr = r
        if not (isinstance(inner, App) and inner.fn == "store"):
            return None, "nested store expected"
        cc, newv = inner.args[1], inner.args[2]
        old = libmodel.getitem(None, libmodel.getitem(None, base, rr), cc)
    lr, lc = _lookup(rr), _lookup(cc)
    if lr is None or lc is None:
        return None, "row/column index is not a lookup in the class index map: %s / %s" % (show(rr, 100), show(cc, 100))
    if lr[0] == "swapped" or lc[0] == "swapped":
        return False, "index map does not map class -> position"
    inc = sub(newv, old)
    if not (isinstance(inc, App) and inc.fn == "elem"):
        return None, "increment %s is not an element of the weight sequence" % show(inc, 120)
    wsrc, wj = inc.args
    want_w = W if wv is W else None
    facts = "row<-%s[%s] col<-%s[%s] inc<-%s[%s]" % (show(lr[1], 40), show(lr[2]), show(lc[1], 40), show(lc[2]), show(wsrc, 40), show(wj))
    if not (same(lr[0], classes) and same(lc[0], classes)):
        return False, "index map built from %s, classes are %s" % (show(lr[0], 80), show(classes, 80))
    if lr[1] != L or lc[1] != P:
        return False, facts
    if not (lr[2] == lc[2] == wj):
        return False, "label, prediction and weight are not taken from the same sample position: " + facts
    if want_w is not None and wsrc != W:
        return False, facts
    unit = isinstance(wsrc, App) and (wsrc.fn == "ones_like" or (wsrc.fn == "ones" and wsrc.args and wsrc.args[0] in (App("shape", (L,)), App("shape", (P,)), App("len", (L,)), App("len", (P,)))))
    if want_w is None and not unit:
        return False, "default weight is %s, expected ones" % show(wsrc, 80)
    return True, show(inc, 60)


def check_from_matrix(ctx, chk):
    f = ctx.fn(AFM)
    for kind in ("dict", "dataframe", "array"):
        mx = Sym("mat", ("param", "notnone", kind))
        for kv, kname in ((K, "classes"), (Const(None), "default")):
            inst = "%s/%s" % (kind, kname)
            outs = via_constructor(ctx, chk, {"matrix": mx, "classes": kv})
            if outs is None:
                outs = ctx.explore(lambda: ctx.ev.call(f, [mx, kv, Const(False)], {}), chk)
            rets = returns(outs)
            if kind == "dataframe" and len(rets) > 1 and all(isinstance(o.value, Tup) and not o.unmodelled for o in rets):
                # the expectation does not depend on the path: a branch on a property of the frame (the class of its index, ...) that
                # builds the matrix from a re-labelled / transformed frame is reported on its own path
                idx = App("list", (App("attr:index", (mx,)),))
                expk = K if kv is K else idx
                want = App("attr:values", (App("getitem", (App("attr:loc", (mx,)), Tup([expk, expk]))),))
                bad = [o for o in rets if not (same(o.value.items[0], want) and same(o.value.items[1], expk))]
                if bad:
                    chk.violation("R05.2", AFM, inst + ":path", "on the path [%s]: %s ; classes=%s" % (pc_text(bad[0])[:160], show(bad[0].value.items[0], 200), show(bad[0].value.items[1], 80)),
                                  show(want, 200) + " on every path (row and column labels of the frame as given)", ctx.where(AFM))
                    continue
                rets = rets[:1]
            if kind == "array" and len(rets) > 1 and all(isinstance(o.value, Tup) and not o.unmodelled for o in rets):
                expk = K if kv is K else App("list", (App("range", (App("getitem", (App("shape", (mx,)), Const(-1))),)),))
                bad = [o for o in rets if not (same(o.value.items[0], mx) and same(o.value.items[1], expk))]
                if bad:
                    chk.violation("R05.2", AFM, inst + ":path", "on the path [%s]: matrix = %s" % (pc_text(bad[0])[:160], show(bad[0].value.items[0], 200)),
                                  "the array as given on every path (entries are weights: no rounding, casting or snapping)", ctx.where(AFM))
                    continue
                rets = rets[:1]
            if len(rets) != 1 or rets[0].unmodelled or not isinstance(rets[0].value, Tup):
                chk.unknown("R05.2", "%s [%s]: %d return paths %s" % (AFM, inst, len(rets), rets and unmodelled_text(rets[0])))
                continue
            mat, classes = rets[0].value.items
            pcs = " & ".join(c.key for c, t in rets[0].pc).replace("$", "")
            if kind == "dict":
                keys = App("list", (App("m:keys", (mx,)),))
                expk = K if kv is K else keys
                ok = False
                if isinstance(mat, App) and mat.fn == "forall" and isinstance(mat.args[1], App) and mat.args[1].fn == "forall":
                    (r,), inner = mat.args[0].items, mat.args[1]
                    (c,), body = inner.args[0].items, inner.args[1]
                    want = App("getitem", (App("getitem", (mx, r)), c))
                    ok = body == want and isinstance(r, App) and isinstance(c, App) and same(r.args[0], expk) and same(c.args[0], expk)
                    derived = "[[mat[%s][%s] for c] for r]" % (show(body.args[0].args[1], 60) if isinstance(body, App) and isinstance(body.args[0], App) else "?", show(body.args[1], 60) if isinstance(body, App) else "?")
                else:
                    derived = show(mat, 200)
                keycheck = kv is not K or ("setof(classes)" in pcs and "m:keys(mat)" in pcs)
                rowcheck = "m:keys(elem(" in pcs or "m:keys(row" in pcs
                if ok and same(classes, expk) and keycheck and rowcheck:
                    chk.hold("R05.2", inst, "entry[i][j] = mat[K_i][K_j], K = %s; key-set checks precede" % show(expk, 60))
                else:
                    chk.violation("R05.2", AFM, inst, "%s classes=%s keycheck=%s rowcheck=%s" % (derived, show(classes, 80), keycheck, rowcheck),
                                  "[[mat[r][c] for c in K] for r in K] with K the requested class order and key-set equality enforced", ctx.where(AFM))
            elif kind == "dataframe":
                idx = App("list", (App("attr:index", (mx,)),))
                expk = K if kv is K else idx
                want = App("attr:values", (App("getitem", (App("attr:loc", (mx,)), Tup([expk, expk]))),))
                keycheck = ("attr:columns(mat)" in pcs and "attr:index(mat)" in pcs) and (kv is not K or "setof(classes)" in pcs)
                if same(mat, want) and same(classes, expk) and keycheck:
                    chk.hold("R05.2", inst, "matrix = df.loc[K, K].values, K = %s; label-set checks precede" % show(expk, 60))
                else:
                    chk.violation("R05.2", AFM, inst, "%s ; classes=%s ; keycheck=%s" % (show(mat, 200), show(classes, 80), keycheck),
                                  show(want, 200) + " with both axes re-ordered by the class order", ctx.where(AFM))
            else:
                expk = K if kv is K else App("list", (App("range", (App("getitem", (App("shape", (mx,)), Const(-1))),)),))
                alt = App("arange", (App("getitem", (App("shape", (mx,)), Const(-1))),)) if kv is not K else None   # np.arange(n) for asarray(list(range(n)))
                if same(mat, mx) and (same(classes, expk) or (alt is not None and same(classes, alt))):
                    chk.hold("R05.2", inst, "matrix = asarray(mat), classes = %s" % show(expk, 80))
                else:
                    chk.violation("R05.2", AFM, inst, "%s ; %s" % (show(mat, 120), show(classes, 120)), "%s ; %s" % (show(mx), show(expk, 120)), ctx.where(AFM))
    chk.floor("R05.2", 6, "3 input kinds x classes given/default")


def check_one_vs_all(ctx, chk):
    cmcls = ctx.db.cls(CM)
    Mx = Sym("M", ("attr", "array", "notnone"))
    Kx = Sym("classes", ("attr", "array", "notnone"))

    def call():
        o = Obj(cmcls)
        o.attrs.update(matrix=Mx, binary=Const(False), classes=Kx)
        return ctx.ev.call(ctx.ev.getattr(o, "one_vs_all"), [], {})

    outs = ctx.explore(call, chk)
    rets = returns(outs)
    if not rets or any(o.unmodelled for o in rets) or raises(outs) or len(rets) > 4:
        chk.unknown("R05.3", "one_vs_all: %d return / %d raise paths %s" % (len(rets), len(raises(outs)), rets and unmodelled_text(rets[0])))
        return
    # every return path (a branch on the dtype, the number of classes, ...) must deliver the same conservative binarisation
    for k, o in enumerate(rets):
        _one_vs_all_path(ctx, chk, o, Mx, Kx, "" if k == 0 else " [path %d: %s]" % (k + 1, pc_text(o)[:80]))
    chk.floor("R05.3", 5, "4 conservation identities + shape")


def _one_vs_all_path(ctx, chk, o, Mx, Kx, sfx):
    res = o.value
    if not isinstance(res, Obj) or res.attrs.get("binary") != Const(True):
        chk.violation("R05.3", OVA, "binary-flag" + sfx, show(res.attrs.get("binary")) if isinstance(res, Obj) else "not a ConfusionMatrix", "ConfusionMatrix(binary=True)", ctx.where(OVA))
        return
    m = strip_loop(res.attrs["matrix"])
    fors = [e for e in o.events if e["kind"] == "for"]
    if not fors:
        chk.unknown("R05.3", "one_vs_all has no class loop (vectorised form is outside the model)")
        return
    j = fors[-1]["elem"]
    it = fors[-1]["iter"]
    n = App("len", (Kx,))
    if not (isinstance(it, App) and it.fn == "range" and len(it.args) == 1 and same(it.args[0], n)):
        chk.violation("R05.3", OVA, "class-range" + sfx, show(it), "range(number of classes)", ctx.where(OVA))
    cells = {}
    for nm, ij in (("tp", (0, 0)), ("fn", (0, 1)), ("fp", (1, 0)), ("tn", (1, 1))):
        cells[nm] = libmodel.getitem(ctx.ev, m, Tup([Const(Ellipsis), j, Const(ij[0]), Const(ij[1])]))
    bad = [nm for nm, v in cells.items() if any(isinstance(a, App) and a.fn in ("uninitialised", "carried", "getitem") and _chain(a) for a in atoms_of(v))]
    E = Const(Ellipsis)
    full = App("slice", (Const(None), Const(None), Const(None)))
    mjj = App("getitem", (Mx, Tup([E, j, j])))
    row = App("sum", (App("getitem", (Mx, Tup([E, j, full]))),), [("axis", Const(-1))])
    col = App("sum", (mk_app("getitem", [Mx, Tup([E, full, j])]),), [("axis", Const(-1))])   # normal form: M[..., :, j] = M[..., j]
    tot = App("sum", (Mx,), [("axis", Tup([Const(-1), Const(-2)]))])
    alt = {App("sum", (Mx,), [("axis", Tup([Const(-2), Const(-1)]))]): tot}
    cells = {k: subst(v, alt) for k, v in cells.items()}
    for nm in bad:
        chk.violation("R05.3", OVA, "cell:" + nm + sfx, show(cells[nm], 300), "a value that does not depend on unwritten / uninitialised buffer content (zero-initialised buffer)", ctx.where(OVA))
    if bad:
        return
    checks = [("TP_j = M[j,j]", cells["tp"], mjj), ("TP_j+FN_j = row sum_j", add(cells["tp"], cells["fn"]), row),
              ("TP_j+FP_j = column sum_j", add(cells["tp"], cells["fp"]), col),
              ("TP+FN+FP+TN = total", add(add(cells["tp"], cells["fn"]), add(cells["fp"], cells["tn"])), tot)]
    for label, got, want in checks:
        if same(got, want):
            chk.hold("R05.3", label + sfx, "%s  (= %s)" % (label, show(got, 160)))
        else:
            chk.violation("R05.3", OVA, label.split(" =")[0] + sfx, show(got, 300), show(want, 200), ctx.where(OVA))
    # buffer shape (*dims, N, 2, 2)
    sh = libmodel.shape_of(m)
    if sh is not None and len(sh.items) >= 3 and sh.items[-1] == Const(2) and sh.items[-2] == Const(2) and same(sh.items[-3], n):
        chk.hold("R05.3", "shape" + sfx, "buffer shape %s" % show(sh, 160))
    else:
        chk.violation("R05.3", OVA, "shape" + sfx, show(sh, 160) if sh is not None else "unknown", "(*leading dims, N, 2, 2)", ctx.where(OVA))


def _chain(a):
    b = a
    while isinstance(b, App) and b.fn in ("getitem", "store"):
        b = b.args[0]
    return isinstance(b, App) and b.fn in ("carried", "empty", "uninitialised") or (isinstance(a, App) and a.fn == "uninitialised")


def check_decorator(ctx, chk):
    """Multiclass path: metric evaluated on one_vs_all(); as_dict takes along the class axis."""
    cmcls = ctx.db.cls(CM)
    Mx = Sym("M", ("attr", "array", "notnone"))
    Kx = Sym("classes", ("attr", "array", "notnone"))
    OV = Sym("OVA", ("attr", "array", "notnone"))
    decorated = [m for m in cmcls.methods.values() if any(d.startswith("cm_class_metric") for d in m.decorators)]
    if len(decorated) + len([n_ for n_, v_, _a in getattr(cmcls, "assigns", []) if n_ in CM_METHODS and n_ not in cmcls.methods]) < 34:
        chk.unknown("R05.4", "only %d decorated ConfusionMatrix methods found (floor 34)" % len(decorated))

    def stub(ev_, fi, bound):
        o = Obj(cmcls)
        o.attrs.update(matrix=OV, binary=Const(True), classes=Sym("ova_classes"))
        return o

    generated = [n_ for n_, v_, _a in getattr(cmcls, "assigns", []) if n_ in CM_METHODS and n_ not in cmcls.methods]     # aliases bound by class-level assignment
    for meth in sorted([m.name for m in decorated] + generated):
        fn = CM_METHODS.get(meth)
        if fn is None:
            chk.unknown("R05.4", "decorated method %s has no tabled metric" % meth)
            continue
        kw = {"alpha": ALPHA} if meth.endswith("_ci") else {}
        for as_dict in (False, True):
            def call():
                o = Obj(cmcls)
                o.attrs.update(matrix=Mx, binary=Const(False), classes=Kx)
                k = dict(kw)
                if as_dict:
                    k["as_dict"] = Const(True)
                return ctx.ev.call(ctx.ev.getattr(o, meth), [], k)

            ctx.ev.stubs[OVA] = stub
            try:
                outs = ctx.explore(call, chk)
            finally:
                ctx.ev.stubs.pop(OVA, None)
            rets = returns(outs)
            vt, err = eval_fn(ctx, chk, MET + fn, [OV], kw)
            qn = CM + "." + meth
            from .c04 import alpha_region_meets_unit
            rs_ = [o_ for o_ in raises(outs) if not (o_.pc and alpha_region_meets_unit(o_.pc) is False)]   # refusals of alpha outside (0, 1) are not paths of the property
            if len(rets) != 1 or vt is None or rs_:
                chk.unknown("R05.4", "%s(as_dict=%s): %d return paths %s" % (meth, as_dict, len(rets), err or ""))
                continue
            v = rets[0].value
            if not as_dict:
                if isinstance(v, (Sym, App, Num, Const, Tup)) and same(v, vt):
                    chk.hold("R05.4", "%s:multiclass" % meth, "%s() on N classes = metrics.%s(one_vs_all().matrix)" % (meth, fn))
                else:
                    chk.violation("R05.4", qn, "multiclass-path", show(v, 200) if hasattr(v, "key") else repr(v), "metrics.%s applied to self.one_vs_all()" % fn, ctx.where(qn))
            else:
                class_axis = -2 if (isinstance(vt, App) and vt.fn == "stack" and vt.kwd("axis") == Const(-1)) else -1
                ok = False
                derived = repr(v)
                if isinstance(v, Dct) and hasattr(v, "comp"):
                    param, (k, val) = v.comp
                    loops = [p for p in param if p[0] != "if"]
                    derived = "{%s: %s}" % (show(k, 60), show(val, 200))
                    if len(loops) == 1 and isinstance(loops[0][2], App) and loops[0][2].fn == "enumerate" and loops[0][2].args[0] == Kx:
                        jpos, cel = loops[0][1].items
                        # normal form of np.take(v, j, axis=-1) is v[..., j]; other axes stay `take`
                        want = libmodel.getitem(ctx.ev, vt, Tup([Const(Ellipsis), jpos])) if class_axis == -1 else App("take", (vt, jpos), [("axis", Const(class_axis))])
                        ok = k == cel and same(val, want)
                if ok:
                    chk.hold("R05.4", "%s:as_dict" % meth, "{class_j: take(result, j, axis=%d)}" % class_axis)
                else:
                    chk.violation("R05.4", qn, "as_dict-axis", derived, "{class_j: take(metric on one_vs_all, j, axis=%d)} (class axis of the per-matrix result)" % class_axis, ctx.where(qn))
    chk.floor("R05.4", 68, "34 decorated methods x (array, dict) forms")


def check_accuracy(ctx, chk):
    Mx = Sym("M", ("param", "array", "notnone"))
    v, err = eval_fn(ctx, chk, MET + "accuracy", [Mx])
    if v is None:
        chk.unknown("R05.5", "accuracy: " + err)
        return
    r = as_rate(v)
    d = App("diagonal", (Mx,), [("axis1", Const(-1)), ("axis2", Const(-2))])
    d2 = App("diagonal", (Mx,), [("axis1", Const(-2)), ("axis2", Const(-1))])
    tr = [App("sum", (x,), [("axis", Const(-1))]) for x in (d, d2)]
    tots = [App("sum", (Mx,), [("axis", Tup([Const(a), Const(b)]))]) for a, b in ((-1, -2), (-2, -1))]
    if isinstance(r, tuple) and any(same(r[0], t) for t in tr) and any(same(r[1], t) for t in tots):
        chk.hold("R05.5", "accuracy", "accuracy = trace / population (NaN iff population == 0), any N")
    else:
        chk.violation("R05.5", MET + "accuracy", "trace/pop", r if isinstance(r, str) else "(%s)/(%s)" % (show(r[0]), show(r[1])),
                      "sum(diagonal)/sum(all) guarded", ctx.where(MET + "accuracy"))


def run(ctx, chk, tier):
    chk.rule_text = ("obligations: 4 construction variants of _assign_from_predictions, 6 of _assign_from_matrix, 5 one-vs-all identities for a "
                     "parametric class j, 68 decorator paths (34 methods x array/dict), accuracy; non-trivial = derived term mentions input data")
    chk.explanation = ("The accumulation loop, the dict/DataFrame re-ordering, the parametric one-vs-all iteration and the per-class decorator are "
                       "evaluated symbolically; roles (row<-label, column<-prediction, increment<-weight of the same sample; both axes re-ordered by the "
                       "requested classes; TP_j/row/column/total identities; class axis of as_dict) are read off the derived terms. "
                       "Permutation equivariance follows because no class-position constant survives in any derived term.")
    chk.trusted |= {"numpy.zeros initial content 0", "pandas DataFrame.loc[rows, cols] re-orders both axes", "numpy.take(arr, j, axis)",
                    "numpy fancy-index `+=` does not accumulate repeated indices", "dict comprehension over enumerate maps element -> position"}
    chk.assumptions = ["class labels are hashable and unique (checked by the constructor)"]
    check_from_predictions(ctx, chk)
    check_from_matrix(ctx, chk)
    check_one_vs_all(ctx, chk)
    check_decorator(ctx, chk)
    check_accuracy(ctx, chk)
    from . import c10
    c10.purity(ctx, chk, only=("ConfusionMatrix.",), strict=False)
    # indexing / derived matrices built by a shallow copy must not carry the parent's cached one-vs-all (or any other lazily filled) state
    c10.copy_derivations(ctx, chk, rule="R05.5")
