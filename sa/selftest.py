"""
Thorough-tier self-validation of a property's rules (results go to evidence, never to VIOLATION lines):
  * every confirmed seeded change recorded for this property under /verif/seeded/ is re-applied to a scratch copy of the
    CURRENT /repo package (temp dir, removed afterwards) and the rules must report at least one violation;
  * every recorded behaviour-preserving refactoring under /verif/refactors/ is re-applied and the rules must stay silent.
A regression of the checker (missed seeded change that was caught when recorded, or an alarm on a refactoring) is an
ANALYSIS-ERROR (exit 2).  Patches that no longer apply to the current tree are counted as skipped.
"""
from __future__ import annotations

import glob
import json
import os
import shutil
import subprocess
import tempfile

VERIF = os.path.dirname(os.path.dirname(os.path.abspath(__file__)))


def scratch_copy(root, patch):
    d = tempfile.mkdtemp(prefix="sa_selftest_")
    shutil.copytree(os.path.join(root, "score_analysis"), os.path.join(d, "score_analysis"), ignore=shutil.ignore_patterns("__pycache__"))
    p = subprocess.run(["git", "apply", patch], cwd=d, capture_output=True, text=True)
    if p.returncode != 0:
        shutil.rmtree(d, ignore_errors=True)
        return None
    return d


def replay(mod, root, tier="quick"):
    from .report import Check
    from .spec import Ctx
    from .progdb import AnalysisError
    c = Check("selftest", tier, "other")
    try:
        mod.run(Ctx(root), c, tier)
    except AnalysisError as e:
        c.unknown("engine", str(e))
    except Exception as e:  # noqa: BLE001
        c.unknown("engine", "%s: %s" % (type(e).__name__, e))
    # floors
    for rule, (minimum, what) in c.floors.items():
        if c.counts.get(rule, 0) < minimum:
            c.unknown(rule, "floor")
    from .report import load_known
    return c


def _worker(args):
    pid, patch, root = args
    import importlib
    import sys
    sys.setrecursionlimit(20000)
    mod = importlib.import_module("sa.rules." + pid.lower())
    tmp = scratch_copy(root, patch)
    if tmp is None:
        return (patch, None, None)
    try:
        c = replay(mod, tmp)
        return (patch, [(v["key"], v["rule"]) for v in c.violations], ["%s: %s" % i for i in c.inconclusive])
    finally:
        shutil.rmtree(tmp, ignore_errors=True)


def run(pid, mod, chk, root):
    import concurrent.futures as cf
    from .report import load_known
    known = set(load_known(pid))
    seeded = {}
    for d in sorted(glob.glob(os.path.join(VERIF, "seeded", "*"))):
        mp = os.path.join(d, "meta.json")
        if not os.path.exists(mp):
            continue
        meta = json.load(open(mp))
        rules = meta.get("detected_by", {}).get(pid)
        if rules and rules != ["ANALYSIS-ERROR"]:
            seeded[os.path.join(d, "patch.diff")] = os.path.basename(d)
    refs = {p_: os.path.basename(os.path.dirname(p_)) for p_ in sorted(glob.glob(os.path.join(VERIF, "refactors", "*", "patch.diff")))}
    jobs = [(pid, p_, root) for p_ in list(seeded) + list(refs)]
    results = {}
    workers = min(14, max(1, (os.cpu_count() or 2) - 2))
    with cf.ProcessPoolExecutor(max_workers=workers) as ex:
        for patch, viol, inc in ex.map(_worker, jobs):
            results[patch] = (viol, inc)
    det, skipped, details = 0, 0, []
    for patch, name in seeded.items():
        viol, inc = results[patch]
        if viol is None:
            skipped += 1
            continue
        rep = sorted({r for k, r in viol if k not in known})
        details.append({"seeded": name, "reported": rep})
        if rep:
            det += 1
        else:
            chk.unknown("selftest", "seeded change %s (recorded as detected by %s) is no longer reported" % (name, pid))
    silent, rskip, noisy = 0, 0, []
    for patch, name in refs.items():
        viol, inc = results[patch]
        if viol is None:
            rskip += 1
            continue
        bad = [k for k, r in viol if k not in known]
        # refactorings recorded as "not decided" for this property (a private anchor was split / re-signatured) may stay INCONCLUSIVE,
        # they must never turn into a violation
        allowed_inc = False
        try:
            rj = json.load(open(os.path.join(os.path.dirname(patch), "result.json")))
            allowed_inc = rj.get("alarms", {}).get(pid, {}).get("exit") == 2
        except Exception:  # noqa: BLE001
            pass
        if bad or (inc and not allowed_inc):
            noisy.append(name)
            chk.unknown("selftest", "behaviour-preserving refactoring %s raises %s" % (name, bad[:2] or inc[:1]))
        else:
            silent += 1
    chk.extra["selftest"] = {"seeded_replayed": len(seeded) - skipped, "seeded_detected": det, "seeded_skipped_patch_does_not_apply": skipped,
                             "refactorings_replayed": len(refs) - rskip, "refactorings_silent": silent, "refactorings_skipped": rskip,
                             "noisy_refactorings": noisy, "details": details}
    chk.paths(len(seeded) + len(refs))
