"""
E3 — order and alignment typestate, as predicates over value terms.

Sorted:    Sym tagged 'sorted' | sort(x) | Sorted[boolean mask] | Sorted[Monotone index]
           | X[argsort(X)] | ite(c, Sorted, Sorted) | fresh/asarray/view of Sorted
Monotone:  arange(n) | repeat(Monotone, counts) | sort(x)
Aligned(a, b): both are the same index transformation of an aligned base pair.
"""
from __future__ import annotations

from .terms import App, Const, Num, Sym, Tup, V, is_boolish


def strip_views(v):
    while isinstance(v, App) and v.fn in ("fresh", "asarray") and v.args:
        v = v.args[0]
    return v


def is_mask(v):
    v = strip_views(v)
    return is_boolish(v)


def is_monotone_index(v):
    v = strip_views(v)
    if isinstance(v, App):
        if v.fn == "arange":
            return True
        if v.fn == "repeat" and v.args:
            return is_monotone_index(v.args[0])
        if v.fn == "sort":
            return True
        if v.fn == "ite":
            return is_monotone_index(v.args[1]) and is_monotone_index(v.args[2])
        if v.fn == "after_loop":
            return is_monotone_index(v.args[0])
    return False


def is_sorted(v, assume=()):
    """True when the term is provably ascending; `assume` lists extra sorted atoms."""
    v = strip_views(v)
    if v in assume:
        return True
    if isinstance(v, Sym):
        return "sorted" in v.tags
    if isinstance(v, App):
        if v.fn == "sort":
            return True
        if v.fn == "ite":
            return is_sorted(v.args[1], assume) and is_sorted(v.args[2], assume)
        if v.fn == "getitem":
            base, idx = strip_views(v.args[0]), strip_views(v.args[1])
            if isinstance(idx, App) and idx.fn == "argsort" and idx.args and strip_views(idx.args[0]) == base \
                    and all(k in ("kind", "stable") or (k == "axis" and a in (Const(-1), Const(0), Const(None))) for k, a in idx.kw):
                return True   # every sorting algorithm (`kind=`) yields an ascending arrangement; only the order among ties differs
            if is_sorted(base, assume) and (is_mask(idx) or is_monotone_index(idx)):
                return True
            if is_sorted(base, assume) and isinstance(idx, App) and idx.fn == "slice":
                st = idx.args[2]
                return isinstance(st, Const) and st.value in (None, 1)
        if v.fn == "concat" and len(v.args) == 1:
            return is_sorted(v.args[0], assume)
    if isinstance(v, Tup) and len(v.items) <= 1:
        return True
    return False


def _is_sortedness_test(cond, arr):
    """cond == all(arr[:-1] <= arr[1:])  or  all(diff(arr) >= 0)   (over the reals)."""
    from .terms import to_poly
    if not (isinstance(cond, App) and cond.fn in ("all", "m:all") and cond.args):
        return False
    c = cond.args[0]
    if not (isinstance(c, App) and c.fn in ("le0", "lt0")):
        return False
    p = to_poly(c.args[0])
    arr = strip_views(arr)
    if len(p.t) == 1:
        (m, k), = p.t.items()
        if len(m) == 1 and m[0][1] == 1 and k < 0:
            a = m[0][0]
            return isinstance(a, App) and a.fn == "diff" and len(a.args) == 1 and not a.kw and strip_views(a.args[0]) == arr
        return False
    if len(p.t) == 2:
        lo = hi = None
        for m, k in p.t.items():
            if len(m) != 1 or m[0][1] != 1:
                return False
            a = m[0][0]
            if not (isinstance(a, App) and a.fn == "getitem" and strip_views(a.args[0]) == arr and isinstance(a.args[1], App) and a.args[1].fn == "slice"):
                return False
            s0, s1, s2 = a.args[1].args
            if s2 not in (Const(None), Const(1)):
                return False
            if s0 == Const(None) and s1 == Const(-1) and k > 0:
                lo = a
            if s0 == Const(1) and s1 == Const(None) and k < 0:
                hi = a
        return lo is not None and hi is not None
    return False


def sortedness(v, assume=()):
    """'sorted' | 'unsorted' | 'unknown' (three-valued: unknown is never turned into a verdict)."""
    if is_sorted(v, assume):
        return "sorted"
    v = strip_views(v)
    if isinstance(v, App) and v.fn == "ite":
        c, a, b = v.args
        from .terms import negate
        sa_, sb_ = sortedness(a, assume), sortedness(b, assume)
        if sa_ == "sorted" and sb_ == "sorted":
            return "sorted"
        if sb_ == "sorted" and _is_sortedness_test(c, a):
            return "sorted"
        if sa_ == "sorted" and _is_sortedness_test(negate(c), b):
            return "sorted"
        return "unknown"
    if isinstance(v, Sym):
        return "unsorted"
    if isinstance(v, App):
        if v.fn == "getitem":
            base, idx = strip_views(v.args[0]), strip_views(v.args[1])
            if isinstance(idx, App) and (idx.fn.startswith("rng:") or idx.fn in ("argsort", "store", "repeat", "arange", "ite")):
                return "unsorted" if idx.fn.startswith("rng:") or sortedness(base, assume) == "unsorted" else "unknown"
            if sortedness(base, assume) == "unsorted" and (is_mask(idx) or is_monotone_index(idx)):
                return "unsorted"
            return "unknown"
        if v.fn == "concat" and len(v.args) >= 2:
            return "unsorted"
        if v.fn in ("concat_seq",):
            return "unsorted"
        if v.fn.startswith("rng:"):
            return "unsorted"
        if v.fn in ("store",):
            return "unknown"
        return "unknown"
    from .terms import Num
    if isinstance(v, Num):
        return "unsorted"
    return "unknown"


def _small_size_test(c, arr):
    """c == (size|len)(arr) < 2"""
    from .terms import to_poly
    if not (isinstance(c, App) and c.fn in ("lt0", "le0")):
        return False
    p = to_poly(c.args[0])
    k = p.const_value()
    rest = [(m, q) for m, q in p.t.items() if m != ()]
    if len(rest) != 1 or rest[0][1] != 1 or len(rest[0][0]) != 1:
        return False
    a = rest[0][0][0][0]
    if not (isinstance(a, App) and a.fn in ("size", "len") and strip_views(a.args[0]) == strip_views(arr)):
        return False
    return (c.fn == "lt0" and k >= -2) or (c.fn == "le0" and k >= -1)


def pc_implies_sorted(pc, v):
    """Some path condition states that v is ascending (or has fewer than two elements)."""
    from .terms import negate
    for c, taken in pc:
        c = c if taken else negate(c)
        parts = list(c.args) if isinstance(c, App) and c.fn == "or" else [c]
        if all(_is_sortedness_test(x, v) or _small_size_test(x, v) for x in parts):
            return True
    return False


def index_transform(v):
    """(base, index-term) when v = base[index] (through views), else (v, None)."""
    v = strip_views(v)
    if isinstance(v, App) and v.fn == "getitem":
        return strip_views(v.args[0]), strip_views(v.args[1])
    return v, None
