"""
E1 — abstract evaluator (conditional constant propagation + value numbering).

The evaluator walks the AST of repository functions over *terms* (sa.terms), never over
concrete data, and never imports or runs repository code.  Branches whose condition
folds under the current specialisation are pruned; other branches are explored path by
path (re-execution with a decision prefix), each path carrying its path condition and
the events observed on it (repository calls, library calls, in-place writes, attribute
stores, RNG draws).  Repository callees are inlined; library callees go through
sa.libmodel; anything else becomes Top / an uninterpreted application and is recorded in
`unmodelled`, which the rules turn into INCONCLUSIVE rather than a verdict.
"""
from __future__ import annotations

import ast
from fractions import Fraction
import itertools

from .progdb import AnalysisError, ClassInfo, FunctionInfo, ModuleInfo
from .terms import (
    App, Const, EnumM, Num, Star, Sym, Top, Tup, Vec, V, FALSE, TRUE, cmp0,
    add, compare, conj, const_of, disj, div, is_boolish, is_const, ite, mk_num, mul, neg, negate,
    powv, sub, to_poly, has_top,
)
from .simp import mk_app

MAX_PATHS = 600
MAX_DEPTH = 40

# --------------------------------------------------------------------------- run-time objects


class Obj:
    """Abstract instance of a repository class (mutable, identity matters)."""

    _ids = itertools.count()

    def __init__(self, cls, attrs=None, label=None):
        self.cls = cls
        self.attrs = dict(attrs or {})
        self.id = next(Obj._ids)
        self.label = label or cls.name
        self.in_init = 0

    @property
    def key(self):
        return "obj:%s#%d" % (self.cls.qualname, self.id)

    def __repr__(self):
        return "<%s %s>" % (self.label, {k: v for k, v in self.attrs.items()})


class Lst:
    def __init__(self, items=()):
        self.items = list(items)
        self.pappends = []  # (loop symbol, value) appended inside a parametric loop
        self.unknown = False

    @property
    def key(self):
        return "list[" + ",".join(getattr(i, "key", "?") for i in self.items) + "]" + (
            "+param" + ";".join("%s:%s" % (j.key, getattr(v, "key", "?")) for j, v in self.pappends) if self.pappends else ""
        )

    def __repr__(self):
        return self.key


class Dct:
    def __init__(self, items=None):
        self.items = dict(items or {})  # Const key -> value
        self.unknown = False

    @property
    def key(self):
        return "dict{" + ",".join("%s:%s" % (k.key, getattr(v, "key", "?")) for k, v in self.items.items()) + "}"


class ObjDictView(Dct):
    """obj.__dict__: a dict whose string keys are the instance attributes of `obj` (writes go through to the object)."""

    def __init__(self, obj):
        self.obj = obj
        self.unknown = False

    @property
    def items(self):
        return {Const(k): v for k, v in self.obj.attrs.items()}


class FuncV:
    def __init__(self, fi, frame=None, self_obj=None, cls_ctx=None):
        self.fi = fi
        self.frame = frame        # defining frame for closures
        self.self_obj = self_obj  # bound receiver
        self.cls_ctx = cls_ctx

    @property
    def key(self):
        return "fn:" + self.fi.qualname

    def bind(self, obj):
        return FuncV(self.fi, self.frame, obj, self.cls_ctx)

    def __repr__(self):
        return "<FuncV %s%s>" % (self.fi.qualname, " bound" if self.self_obj is not None else "")


class LambdaV:
    def __init__(self, node, frame, module):
        self.node, self.frame, self.module = node, frame, module
        self.key = "lambda@%d" % node.lineno


RAW_VIEW_FNS = {"getitem", "sort", "concat", "concat_seq", "asarray", "reshape", "flatten", "elem", "carried", "after_loop", "store", "repeat", "take", "unique", "union1d", "flip"}


def raw_dtype_root(v, depth=0):
    """The caller-typed array (tag `rawdtype`: its dtype is the caller's, possibly an unsigned integer) a value still has the dtype of, else None."""
    if depth > 12:
        return None
    if isinstance(v, Sym):
        return v if "rawdtype" in v.tags else None
    if isinstance(v, App):
        if v.fn == "fresh":
            if v.kwd("dtype") == Const("float"):
                return None
            return raw_dtype_root(v.args[0], depth + 1) if v.args else None
        if v.fn in ("ite", "where") and len(v.args) == 3:
            for a in v.args[1:]:            # a selection still has the caller's dtype when one of its arms has
                r = raw_dtype_root(a, depth + 1)
                if r is not None:
                    return r
            return None
        if v.fn in ("empty_like", "zeros_like", "ones_like", "full_like") and v.args and v.kwd("dtype") is None:
            return raw_dtype_root(v.args[0], depth + 1)     # a buffer allocated "like" the scores has the scores' dtype
        if v.fn in RAW_VIEW_FNS and v.args:
            for a in (v.args if v.fn in ("concat", "union1d") else v.args[:1]):
                r = raw_dtype_root(a, depth + 1)
                if r is not None:
                    return r
    return None


def _float_making(v, depth=0):
    """The value is float64 by construction (np.nextafter, a float copy, a non-integral constant), whatever the dtype of its operands."""
    if depth > 6:
        return False
    if isinstance(v, App):
        if v.fn in ("nextafter", "nextafter_down", "nextafter_up", "sqrt", "exp", "log", "mean"):
            return True
        if v.fn == "fresh" and v.kwd("dtype") == Const("float"):
            return True
        if v.fn in ("ite", "where") and len(v.args) == 3:
            return _float_making(v.args[1], depth + 1) or _float_making(v.args[2], depth + 1)
    if isinstance(v, Const) and isinstance(v.value, float) and v.value == v.value and v.value not in (float("inf"), float("-inf")) and v.value != int(v.value):
        return True
    return False


class _Subst(ast.NodeTransformer):
    def __init__(self, mapping):
        self.mapping = mapping

    def visit_Name(self, n):
        if isinstance(n.ctx, ast.Load) and n.id in self.mapping:
            return ast.copy_location(_clone(self.mapping[n.id]), n)
        return n


def _clone(e):
    import copy
    return copy.deepcopy(e)


def _pattern(p, subj):
    """(test expression or None for always-true, [(name, expr)] captures) for pattern p against the pure subject expression subj."""
    if isinstance(p, ast.MatchValue):
        return ast.Compare(left=_clone(subj), ops=[ast.Eq()], comparators=[_clone(p.value)]), []
    if isinstance(p, ast.MatchSingleton):
        return ast.Compare(left=_clone(subj), ops=[ast.Is()], comparators=[ast.Constant(value=p.value)]), []
    if isinstance(p, ast.MatchClass) and not p.patterns and not p.kwd_patterns:
        return ast.Call(func=ast.Name(id="isinstance", ctx=ast.Load()), args=[_clone(subj), _clone(p.cls)], keywords=[]), []
    if isinstance(p, ast.MatchAs):
        if p.pattern is None:
            return None, ([(p.name, subj)] if p.name else [])
        t, caps = _pattern(p.pattern, subj)
        return t, caps + ([(p.name, subj)] if p.name else [])
    if isinstance(p, ast.MatchOr):
        tests = []
        for q in p.patterns:
            t, caps = _pattern(q, subj)
            if caps:
                raise AnalysisError("match: captures inside an or-pattern")
            if t is None:
                return None, []
            tests.append(t)
        return ast.BoolOp(op=ast.Or(), values=tests), []
    if isinstance(p, ast.MatchSequence) and isinstance(subj, ast.Tuple) and len(p.patterns) == len(subj.elts) \
            and not any(isinstance(q, ast.MatchStar) for q in p.patterns):
        tests, caps = [], []
        for q, e in zip(p.patterns, subj.elts):
            t, c = _pattern(q, e)
            caps += c
            if t is not None:
                tests.append(t)
        if not tests:
            return None, caps
        return (tests[0] if len(tests) == 1 else ast.BoolOp(op=ast.And(), values=tests)), caps
    raise AnalysisError("match: pattern %s is outside the model" % type(p).__name__)


def _pure_subject(e):
    if isinstance(e, (ast.Name, ast.Constant)):
        return True
    if isinstance(e, ast.Attribute):
        return _pure_subject(e.value)
    if isinstance(e, ast.Tuple):
        return all(_pure_subject(x) for x in e.elts)
    return False


def _desugar_match(st):
    pre = []
    subj = st.subject
    if not _pure_subject(subj):
        tmp = "__match_subject_%d" % st.lineno
        pre.append(ast.Assign(targets=[ast.Name(id=tmp, ctx=ast.Store())], value=subj))
        subj = ast.Name(id=tmp, ctx=ast.Load())
    chain = None
    for case in reversed(st.cases):
        test, caps = _pattern(case.pattern, subj)
        mapping = {n: e for n, e in caps}
        if case.guard is not None:
            g = _Subst(mapping).visit(_clone(case.guard))
            test = g if test is None else ast.BoolOp(op=ast.And(), values=[test, g])
        body = [ast.Assign(targets=[ast.Name(id=n, ctx=ast.Store())], value=_clone(e)) for n, e in caps] + list(case.body)
        if test is None:
            chain = body                       # irrefutable case: later cases are unreachable
        else:
            chain = [ast.If(test=test, body=body, orelse=chain or [])]
    out = pre + (chain or [])
    for n in out:
        ast.copy_location(n, st)
        ast.fix_missing_locations(n)
    return out


INT_KEEP_FNS = {"getitem", "sum", "cumsum", "reshape", "flatten", "asarray", "take", "diagonal", "trace", "copy", "concat", "stack", "squeeze", "expand_dims", "moveaxis",
                "swapaxes", "transpose", "attr:T", "store", "amin", "amax", "min", "max", "abs", "sort", "flip", "repeat", "elem", "diff", "where", "ite", "prod", "len"}


def int_degree(v, depth=0):
    """Degree of a value as an integer polynomial of caller-supplied COUNT arrays (tag `intcount`: a numpy integer dtype, fixed width)
    when the value is still evaluated in that integer dtype; None once it is a float (true division, float conversion, float constant)
    or a Python int (len(), arbitrary precision)."""
    if depth > 14:
        return None
    if isinstance(v, Const):
        return 0 if isinstance(v.value, int) or (isinstance(v.value, Fraction) and v.value.denominator == 1 and not getattr(v, "is_float", False)) else None
    if isinstance(v, Sym):
        return 1 if "intcount" in v.tags else None
    if isinstance(v, Num):
        deg = 0
        for m, c in v.poly.t.items():
            if Fraction(c).denominator != 1:
                return None
            d = 0
            for a, e in m:
                da = int_degree(a, depth + 1)
                if da is None or e < 0:
                    return None
                d += da * e
            deg = max(deg, d)
        return deg
    if isinstance(v, App):
        if v.fn == "fresh":
            return None if v.kwd("dtype") == Const("float") or not v.args else int_degree(v.args[0], depth + 1)
        if v.fn == "len":
            return None   # a Python int
        if v.fn == "prod" and v.args:
            d = int_degree(v.args[0], depth + 1)
            return None if d is None else (3 if d >= 1 else 0)   # a product over an axis: unbounded degree
        if v.fn in INT_KEEP_FNS and v.args:
            ds = [int_degree(a, depth + 1) for a in (v.args[1:] if v.fn in ("where", "ite") else v.args[:1] if v.fn not in ("concat", "stack", "min", "max") else v.args)]
            if v.fn in ("concat", "stack") and len(v.args) == 1 and isinstance(v.args[0], Tup):
                ds = [int_degree(a, depth + 1) for a in v.args[0].items]
            return None if (not ds or any(d is None for d in ds)) else max(ds)
    return None


def _is_empty_container(v):
    return (isinstance(v, Dct) and not v.unknown and not v.items) or (isinstance(v, Lst) and not v.items and not v.pappends and not v.unknown) \
        or (isinstance(v, Const) and v.value is None)


def _tuple_like(v):
    """Terms known to be Python tuples (shape tuples and their slices)."""
    if isinstance(v, App) and v.fn == "shape":
        return True
    if isinstance(v, App) and v.fn == "getitem" and len(v.args) == 2 and isinstance(v.args[1], App) and v.args[1].fn == "slice":
        return _tuple_like(v.args[0])
    return False


class PropV:
    """A property object built at run time: property(fget, fset)."""

    def __init__(self, fget, fset=None):
        self.fget, self.fset = fget, fset
        self.key = "property(%s,%s)" % (getattr(fget, "key", "?"), getattr(fset, "key", "-"))


class PartialV:
    """functools.partial(f, *args, **kwargs)."""

    def __init__(self, f, args, kwargs):
        self.f, self.args, self.kwargs = f, list(args), dict(kwargs)
        self.key = "partial(%s)" % getattr(f, "key", "?")


class OperatorV:
    """operator.methodcaller(name, *args, **kwargs) / attrgetter(name) / itemgetter(key)."""

    def __init__(self, kind, name, args=(), kwargs=None):
        self.kind, self.name, self.args, self.kwargs = kind, name, list(args), dict(kwargs or {})
        self.key = "operator.%s(%r)" % (kind, name)


class ClassV:
    def __init__(self, ci):
        self.ci = ci

    @property
    def key(self):
        return "class:" + self.ci.qualname


class ModV:
    def __init__(self, mi):
        self.mi = mi
        self.key = "mod:" + mi.qualname


class ExtV:
    """Reference to something outside the package, by dotted name (e.g. numpy.sort)."""

    def __init__(self, dotted):
        self.dotted = dotted
        self.key = "ext:" + dotted

    def __repr__(self):
        return "<ext %s>" % self.dotted


class SuperV:
    def __init__(self, obj, after_cls):
        self.obj, self.after_cls = obj, after_cls
        self.key = "super"


class BoundExt:
    """Method of a term value, e.g. x.astype / lst.append; resolved in libmodel."""

    def __init__(self, recv, name):
        self.recv, self.name = recv, name
        self.key = "meth:%s" % name


class Frame:
    def __init__(self, module, fi=None, parent=None, cls_ctx=None):
        self.module = module
        self.fi = fi
        self.parent = parent  # lexical parent frame (closures)
        self.vars = {}
        self.views = {}   # name -> (parent name, basic index): live views `v = a[idx]` through which stores reach `a`
        self.cls_ctx = cls_ctx
        self.self_obj = None

    def lookup(self, name):
        f = self
        while f is not None:
            if name in f.vars:
                return f.vars[name]
            f = f.parent
        raise KeyError(name)


class RaiseSignal(Exception):
    def __init__(self, exc, node=None):
        self.exc = exc
        self.node = node


class Outcome:
    def __init__(self, kind, value, pc, events, unmodelled, decisions):
        self.kind = kind  # 'return' | 'raise'
        self.value = value
        self.pc = pc
        self.events = events
        self.unmodelled = unmodelled
        self.decisions = decisions

    def calls(self, name):
        return [e for e in self.events if e["kind"] == "call" and e["callee"] == name]

    def lib(self, name):
        return [e for e in self.events if e["kind"] == "lib" and e["callee"] == name]

    def __repr__(self):
        return "<Outcome %s %r pc=%s>" % (self.kind, self.value, [c.key for c, _ in self.pc])


def key_of(v):
    return getattr(v, "key", repr(v))


class Evaluator:
    def __init__(self, db, libmodel=None):
        from . import libmodel as lm

        self.db = db
        self.lib = libmodel or lm
        self.stubs = {}          # qualname -> handler(ev, fi, bound) -> value
        self.opaque_calls = True
        self._glob_cache = {}
        self.reset_path([])
        self.depth = 0
        self.sym_counter = itertools.count()
        self.trace_attr_stores = True
        self.assume = []         # extra facts (conditions known true)
        self.merge_ifs = True
        self.raw_float = False   # keep +,-,*,/ as written (no normal form): used for IEEE-exactness rules

    # ------------------------------------------------------------------ path handling
    def reset_path(self, prefix):
        self.dec = list(prefix)
        self.pos = 0
        self.pc = []
        self.events = []
        self.unmodelled = []
        self.depth = 0

    def explore(self, thunk, max_paths=MAX_PATHS):
        """Run `thunk()` once per feasible decision sequence; returns list of Outcome."""
        outcomes = []
        stack = [[]]
        n = 0
        while stack:
            prefix = stack.pop()
            n += 1
            if n > max_paths:
                raise AnalysisError("path explosion (> %d paths)" % max_paths)
            self.reset_path(prefix)
            try:
                val = thunk()
                kind = "return"
            except RaiseSignal as r:
                val = r.exc
                kind = "raise"
            made = self.dec[: self.pos]
            outcomes.append(Outcome(kind, val, list(self.pc), list(self.events), list(self.unmodelled), made))
            for i in range(len(prefix), len(made)):
                stack.append(made[:i] + [not made[i]])
        return outcomes

    def simplify_known(self, c):
        """Drop conjuncts/disjuncts whose truth is already known on this path."""
        if isinstance(c, App) and c.fn in ("and", "or"):
            keep = []
            for a in c.args:
                k = self.known_truth(a)
                if k is None:
                    for f in self.assume:
                        if f == a:
                            k = True
                        elif f == negate(a):
                            k = False
                if k is None:
                    keep.append(a)
                elif k != (c.fn == "and"):
                    return Const(k)
            return (conj(keep) if c.fn == "and" else disj(keep))
        return c

    def decide(self, cond, node=None):
        """Truth of a condition value on this path (may fork)."""
        c = self.simplify_known(self.truth(cond))
        if isinstance(c, Const):
            return bool(c.value)
        for known, taken in self.pc:
            if known == c:
                return taken
            if known == negate(c):
                return not taken
        for a in self.assume:
            if a == c:
                return True
            if a == negate(c):
                return False
        if self.pos < len(self.dec):
            taken = self.dec[self.pos]
        else:
            taken = True
            self.dec.append(True)
        self.pos += 1
        self.pc.append((c, taken))
        return taken

    def truth(self, v):
        """Boolean view of a value as a term."""
        if isinstance(v, BoundExt) or type(v).__name__ == "ListElem":
            v = self.lib.as_v(self, v)
        if isinstance(v, Const):
            return Const(bool(v.value))
        if isinstance(v, (Obj, FuncV, ClassV, ModV, ExtV, LambdaV)):
            return TRUE
        if isinstance(v, EnumM):
            return TRUE
        if isinstance(v, Tup):
            if any(isinstance(i, Star) for i in v.items):
                return App("truthy", (v,))
            return Const(len(v.items) > 0)
        if isinstance(v, Lst):
            if v.pappends or v.unknown:
                return App("truthy", (Sym("list#%d" % id(v)),))
            return Const(len(v.items) > 0)
        if isinstance(v, Dct):
            return Const(len(v.items) > 0) if not v.unknown else App("truthy", (Sym("dict#%d" % id(v)),))
        if is_boolish(v):
            return v
        if isinstance(v, App) and v.fn == "ite" and len(v.args) == 3:
            c, a, b = v.args
            ta, tb = self.truth(a), self.truth(b)
            if ta == tb:
                return ta
            if ta == TRUE and tb == FALSE:
                return c
            if ta == FALSE and tb == TRUE:
                return negate(c)
            return disj([conj([c, ta]), conj([negate(c), tb])])
        if isinstance(v, Sym) and (v.tags & {"rng", "object", "callable", "positive", "nonempty_str", "fresh_rng"}):
            return TRUE
        if isinstance(v, Sym) and "arraylike" in v.tags:
            # `if x:` / `x or default` on a caller-supplied array-like: fine for a list, ValueError for an ndarray with 2+ elements, and a
            # one-element array [0.0] is falsy
            self.event("raw_sequence_use", value=v, what="truth value (`if x` / `x or ...`: ambiguous for an ndarray of 2+ elements)", node=None)
        if isinstance(v, V):
            p = to_poly(v)
            if p is not None and p.is_const():
                return Const(p.const_value() != 0)
            if p is not None and (isinstance(v, Num) or (isinstance(v, App) and v.fn in ("len", "size", "count_lt", "count_le", "sum", "floor", "ceil", "trunc"))):
                return cmp0("ne", p)   # truthiness of a number is `!= 0` (so `not len(x)` is `len(x) == 0`)
            return App("truthy", (v,))
        return TRUE

    def event(self, kind, **kw):
        kw["kind"] = kind
        kw["pc_len"] = len(self.pc)
        self.events.append(kw)

    def note_unmodelled(self, what, node=None):
        self.unmodelled.append((what, getattr(node, "lineno", None)))

    def fresh(self, name, tags=()):
        return Sym("%s#%d" % (name, next(self.sym_counter)), tags)

    # ------------------------------------------------------------------ globals
    def global_value(self, module, name):
        k = (module.qualname, name)
        if k in self._glob_cache:
            return self._glob_cache[k]
        r = self.db.resolve_name(module, name)
        v = self.wrap_resolved(r, module, name)
        self._glob_cache[k] = v
        return v

    def wrap_resolved(self, r, module, name):
        if r is None:
            return self.lib.builtin(self, name)
        if isinstance(r, FunctionInfo):
            return self.make_function(r, None)
        if isinstance(r, ClassInfo):
            return ClassV(r)
        if isinstance(r, ModuleInfo):
            return ModV(r)
        if isinstance(r, tuple) and r[0] == "external":
            return ExtV(r[1])
        if isinstance(r, tuple) and r[0] == "assign":
            _k, mod, node = r
            fr = Frame(mod)
            saved = (self.pc, self.events)
            v = self.eval(node, fr)
            return v
        raise AnalysisError("cannot resolve %s in %s" % (name, module.qualname))

    def make_function(self, fi, frame, cls_ctx=None):
        """FuncV for a def, applying its decorators (evaluated like any other call)."""
        fv = FuncV(fi, frame, None, cls_ctx or fi.cls)
        node = fi.node
        for dec in reversed(node.decorator_list):
            src = ast.unparse(dec)
            if src in ("staticmethod", "classmethod", "property") or src.endswith(".setter") or src.split(".")[-1] == "cached_property":
                continue
            if src.split(".")[-1] == "contextmanager":
                fv.is_ctxmgr = True     # a generator-based context manager: see st_With
                continue
            dfr = frame if frame is not None else Frame(fi.module)
            d = self.eval(dec, dfr)
            fv = self.call(d, [fv], {}, dec)
        return fv

    # ------------------------------------------------------------------ calls
    def call(self, f, args, kwargs, node=None):
        if isinstance(f, FuncV):
            return self.call_function(f, args, kwargs, node)
        if isinstance(f, LambdaV):
            fr = Frame(f.module, None, f.frame)
            self.bind_params(f.node.args, args, kwargs, fr, "<lambda>", node)
            return self.eval(f.node.body, fr)
        if isinstance(f, ClassV):
            return self.instantiate(f.ci, args, kwargs, node)
        if isinstance(f, ExtV) and f.dotted == "sa.wraps" and len(args) == 1:
            if isinstance(args[0], FuncV):
                args[0].wrapped = f.wrapped
            return args[0]
        if isinstance(f, ExtV):
            return self.lib.call_ext(self, f.dotted, args, kwargs, node)
        if isinstance(f, BoundExt):
            return self.lib.call_method(self, f.recv, f.name, args, kwargs, node)
        if isinstance(f, OperatorV) and len(args) == 1 and not kwargs:
            if f.kind == "methodcaller":
                return self.call(self.getattr(args[0], f.name, node), list(f.args), dict(f.kwargs), node)
            if f.kind == "attrgetter" and isinstance(f.name, str) and "." not in f.name:
                return self.getattr(args[0], f.name, node)
            if f.kind == "itemgetter":
                return self.lib.getitem(self, args[0], Const(f.name), node)
        if isinstance(f, PartialV):
            kw = dict(f.kwargs)
            kw.update(kwargs)
            return self.call(f.f, list(f.args) + list(args), kw, node)
        if isinstance(f, Obj):
            m = f.cls.find_method("__call__")
            if m is not None:
                return self.call_function(FuncV(m, None, f, m.cls), args, kwargs, node)
        if isinstance(f, V):
            # opaque callable (user-supplied metric / sampler)
            r = App("call", (f, Tup([a if isinstance(a, V) else Sym(key_of(a)) for a in args])),
                    [(k, v if isinstance(v, V) else Sym(key_of(v))) for k, v in kwargs.items()])
            self.event("opaque_call", callee=f, args=list(args), kwargs=dict(kwargs), node=node, result=r)
            return r
        raise AnalysisError("call of unsupported object %r at line %s" % (f, getattr(node, "lineno", "?")))

    def bind_params(self, a, args, kwargs, frame, qualname, node):
        """Python call binding; a mismatch is a conformance finding (E5)."""
        args = list(args)
        kwargs = dict(kwargs)
        params = [p.arg for p in a.posonlyargs + a.args]
        defaults = a.defaults
        ndef = len(defaults)
        bound = {}
        flat = []
        for x in args:
            if isinstance(x, Star):
                raise AnalysisError("unsupported *args of unknown length in call to %s" % qualname)
            flat.append(x)
        if len(flat) > len(params) and a.vararg is None:
            self.conformance(qualname, node, "too many positional arguments (%d > %d)" % (len(flat), len(params)))
        for p, x in zip(params, flat):
            bound[p] = x
        if a.vararg is not None:
            bound[a.vararg.arg] = Tup([x for x in flat[len(params):]])
        posonly = {p.arg for p in a.posonlyargs}
        for p in params[len(flat):]:
            if p in kwargs and p not in posonly:
                bound[p] = kwargs.pop(p)
        for p in a.kwonlyargs:
            if p.arg in kwargs:
                bound[p.arg] = kwargs.pop(p.arg)
        for p in list(kwargs):
            if p in bound:
                self.conformance(qualname, node, "multiple values for argument %r" % p)
        if kwargs:
            if a.kwarg is not None:
                bound[a.kwarg.arg] = Dct({Const(k): v for k, v in kwargs.items()})
            else:
                self.conformance(qualname, node, "unexpected keyword argument(s) %s" % sorted(kwargs))
        elif a.kwarg is not None:
            bound[a.kwarg.arg] = Dct()
        # defaults
        dframe = frame.parent if frame.parent is not None else Frame(frame.module)
        for i, p in enumerate(params):
            if p not in bound:
                di = i - (len(params) - ndef)
                if di >= 0:
                    bound[p] = self.eval(defaults[di], dframe)
                else:
                    self.conformance(qualname, node, "missing required argument %r" % p)
        for p, d in zip(a.kwonlyargs, a.kw_defaults):
            if p.arg not in bound:
                if d is not None:
                    bound[p.arg] = self.eval(d, dframe)
                else:
                    self.conformance(qualname, node, "missing required keyword-only argument %r" % p.arg)
        frame.vars.update(bound)
        return bound

    def conformance(self, qualname, node, msg):
        self.event("conformance", callee=qualname, node=node, msg=msg)
        raise RaiseSignal(App("TypeError", (Const("%s: %s" % (qualname, msg)),)), node)

    def call_function(self, fv, args, kwargs, node=None):
        fi = fv.fi
        if fv.self_obj is not None and fi.kind != "staticmethod":
            args = [fv.self_obj] + list(args)
        self.depth += 1
        if self.depth > MAX_DEPTH:
            self.depth -= 1
            raise AnalysisError("inlining depth exceeded at %s" % fi.qualname)
        try:
            frame = Frame(fi.module, fi, fv.frame, fv.cls_ctx)
            bound = self.bind_params(fi.node.args, args, kwargs, frame, fi.qualname, node)
            if fi.cls is not None and fi.kind not in ("staticmethod",) and fi.node.args.args:
                frame.self_obj = bound.get(fi.node.args.args[0].arg)
            self.event("call", callee=fi.qualname, bound=dict(bound), node=node)
            if fi.qualname in self.stubs:
                r = self.stubs[fi.qualname](self, fi, bound)
                if r is not NotImplemented:
                    return r
            sig = self.exec_block(fi.node.body, frame)
            # in-place writes to a parameter's array are visible through the caller's name for it: record them for ex_Call
            wb = []
            for pname, v0 in bound.items():
                v1 = frame.vars.get(pname)
                if isinstance(v0, V) and isinstance(v1, App) and v1.fn == "store" and v1 != v0 and _chain_base(v1) == v0:
                    wb.append((v0, v1))
            self.writeback = wb
            if sig is not None and sig[0] == "return":
                return sig[1]
            return Const(None)
        finally:
            self.depth -= 1

    def instantiate(self, ci, args, kwargs, node=None):
        if ci.is_enum:
            if len(args) != 1:
                raise AnalysisError("enum call with %d args" % len(args))
            return self.enum_lookup(ci, args[0], node)
        obj = Obj(ci)
        self.event("new", cls=ci.qualname, obj=obj, args=list(args), kwargs=dict(kwargs), node=node)
        init = ci.find_method("__init__")
        obj.in_init += 1
        try:
            if init is not None:
                self.call_function(FuncV(init, None, obj, init.cls), args, kwargs, node)
            elif any(c.is_dataclass for c in ci.mro()):
                self.dataclass_init(ci, obj, args, kwargs, node)
            elif ci.is_namedtuple:
                # typing.NamedTuple: fields in annotation order; the instance is also a tuple of its field values
                self.dataclass_init(ci, obj, args, kwargs, node)
                obj.nt_fields = [n for n, _v, ann in ci.assigns if ann is not None]
            elif args or kwargs:
                self.conformance(ci.qualname, node, "constructor takes no arguments")
        finally:
            obj.in_init -= 1
        return obj

    def dataclass_init(self, ci, obj, args, kwargs, node):
        fields = []
        for c in reversed(ci.mro()):
            for n, v, ann in c.assigns:
                if ann is not None and n not in [f[0] for f in fields]:
                    fields.append((n, v, c))
        kwargs = dict(kwargs)
        args = list(args)
        if len(args) > len(fields):
            self.conformance(ci.qualname, node, "too many positional arguments")
        for (n, dv, c), a in zip(fields, args):
            obj.attrs[n] = a
        for n, dv, c in fields[len(args):]:
            if n in kwargs:
                obj.attrs[n] = kwargs.pop(n)
            elif dv is not None:
                obj.attrs[n] = self.eval(dv, Frame(c.module))
            else:
                self.conformance(ci.qualname, node, "missing required argument %r" % n)
        if kwargs:
            self.conformance(ci.qualname, node, "unexpected keyword argument(s) %s" % sorted(kwargs))
        post = ci.find_method("__post_init__")
        if post is not None:
            self.call_function(FuncV(post, None, obj, post.cls), [], {}, node)

    def enum_members(self, ci):
        out = []
        for n, v, ann in ci.assigns:
            if v is not None and not n.startswith("_"):
                val = self.eval(v, Frame(ci.module))
                out.append(EnumM(ci.qualname, n, val))
        return out

    def enum_lookup(self, ci, x, node=None):
        if isinstance(x, EnumM) and x.cls == ci.qualname:
            return x
        if isinstance(x, EnumM):
            raise RaiseSignal(App("ValueError", (Const("not a valid %s" % ci.name),)), node)
        if isinstance(x, Const):
            for m in self.enum_members(ci):
                if m.value == x:
                    return m
            raise RaiseSignal(App("ValueError", (Const("not a valid %s" % ci.name),)), node)
        # unknown value: one path per member (plus the invalid path is ignored: it raises)
        members = self.enum_members(ci)
        for m in members[:-1]:
            if self.decide(App("eq", tuple(sorted((x, m), key=lambda v: v.key)))):
                return m
        return members[-1]

    # ------------------------------------------------------------------ attribute access
    def getattr(self, v, name, node=None):
        if isinstance(v, Obj):
            if name in v.attrs:
                return v.attrs[name]
            if name == "__dict__":
                return ObjDictView(v)
            if getattr(v, "nt_fields", None) is not None and name in ("_asdict", "_replace", "_fields"):
                if name == "_fields":
                    return Tup([Const(f) for f in v.nt_fields])
                return BoundExt(v, name)
            return self.class_attr(v.cls, name, v, node)
        if isinstance(v, SuperV):
            mro = v.obj.cls.mro()
            idx = mro.index(v.after_cls) + 1
            for c in mro[idx:]:
                if name in c.methods:
                    return FuncV(c.methods[name], None, v.obj, c)
            if name == "__init__":
                return self.lib.noop
            raise AnalysisError("super().%s not found" % name)
        if isinstance(v, ClassV):
            ci = v.ci
            if name in ("__name__", "__qualname__"):
                return Const(ci.name)
            if name == "__module__":
                return Const(ci.module.qualname)
            if ci.is_enum:
                for m in self.enum_members(ci):
                    if m.name == name:
                        return m
            return self.class_attr(ci, name, None, node)
        if isinstance(v, ModV):
            return self.global_value(v.mi, name)
        if isinstance(v, ExtV):
            return self.lib.ext_attr(self, v.dotted, name)
        if isinstance(v, EnumM):
            if name == "value":
                return v.value
            if name == "name":
                return Const(v.name)
            ci = self.db.cls(v.cls)
            m = ci.find_method(name)
            if m is not None:
                if m.kind == "property":
                    return self.call_function(FuncV(m, None, v, ci), [], {}, node)
                return FuncV(m, None, v, ci)
        if isinstance(v, App) and v.fn == "ite" and len(v.args) == 3 and all(isinstance(a, EnumM) or (isinstance(a, App) and a.fn == "ite") for a in v.args[1:]):
            # a selection between enum members: the attribute of the selection is the selection of the attributes
            a, b = self.getattr(v.args[1], name, node), self.getattr(v.args[2], name, node)
            if isinstance(a, V) and isinstance(b, V):
                return ite(v.args[0], a, b)
        if isinstance(v, FuncV) and name == "__wrapped__" and getattr(v, "wrapped", None) is not None:
            return v.wrapped
        if isinstance(v, (Lst, Dct, V, FuncV, LambdaV)) or type(v).__name__ == "ListElem":
            return self.lib.value_attr(self, v, name, node)
        raise AnalysisError("attribute %s of %r" % (name, v))

    def class_attr(self, ci, name, obj, node=None):
        m = ci.find_method(name)
        if m is not None:
            if m.kind == "property":
                if obj is None:
                    return Top("property object")
                return self.call_function(FuncV(m, None, obj, m.cls), [], {}, node)
            fv = self.method_value(m)
            if m.kind == "classmethod" and isinstance(fv, FuncV):
                return fv.bind(ClassV(obj.cls if obj is not None else ci))
            if m.kind == "staticmethod" or obj is None:
                return fv
            return fv.bind(obj) if isinstance(fv, FuncV) else fv
        a = ci.find_assign(name)
        if a is not None:
            c, vnode = a
            if vnode is None:
                raise AnalysisError("attribute %s.%s has no value" % (ci.name, name))
            fr = Frame(c.module, None, None, c)
            fr.vars.update({mn: self.method_value(mf) for mn, mf in c.methods.items() if mf.kind == "function"})
            val = self.eval(vnode, fr)
            if isinstance(val, PropV):
                if obj is None:
                    return Top("property object")
                return self.call(val.fget, [obj], {}, node)
            if isinstance(val, FuncV) and obj is not None and val.fi.kind != "staticmethod":
                return val.bind(obj)
            return val
        dyn = self.dynamic_class_attrs(ci)
        if name in dyn:
            val = dyn[name]
            if isinstance(val, PropV):
                return self.call(val.fget, [obj], {}, node) if obj is not None else Top("property object")
            if isinstance(val, FuncV) and obj is not None:
                return val.bind(obj)
            return val
        for b in ci.mro():
            for base in b.bases:
                if isinstance(base, str):
                    return self.lib.foreign_base_attr(self, base, name, obj)
        if obj is not None and isinstance(obj, Obj):
            # a symbolic instance built by a rule (not through __init__): private bookkeeping the constructor initialises unconditionally with
            # an argument-free value (`self._cache = {}`, `self._last = None`, a literal) has that initial value on a fresh object
            for b in ci.mro():
                init = b.methods.get("__init__") or b.methods.get("__post_init__")
                if init is None:
                    continue
                for st in init.node.body:
                    if isinstance(st, (ast.Assign, ast.AnnAssign)) and getattr(st, "value", None) is not None:
                        tgts = st.targets if isinstance(st, ast.Assign) else [st.target]
                        for t in tgts:
                            if isinstance(t, ast.Attribute) and isinstance(t.value, ast.Name) and t.value.id == "self" and t.attr == name:
                                v = st.value
                                simple = isinstance(v, ast.Constant) or (isinstance(v, (ast.Dict, ast.List, ast.Set, ast.Tuple)) and not (getattr(v, "keys", None) or getattr(v, "elts", None))) \
                                    or (isinstance(v, ast.Call) and isinstance(v.func, ast.Name) and v.func.id in ("dict", "list", "set") and not v.args and not v.keywords)
                                if simple:
                                    val = self.eval(v, Frame(b.module, None, None, b))
                                    obj.attrs[name] = val
                                    return val
                break
        raise AnalysisError("attribute %s not found on class %s" % (name, ci.qualname))

    def dynamic_class_attrs(self, ci):
        """Attributes that class decorators attach with setattr(cls, name, value) (e.g. alias methods generated from a table):
        each non-dataclass decorator of the classes in the MRO is evaluated once with the class as argument."""
        out = {}
        for c in ci.mro():
            if not isinstance(c, ClassInfo):
                continue
            k = ("dynattrs", c.qualname)
            if k not in self._glob_cache:
                self._glob_cache[k] = {}
                decs = [d for d in c.node.decorator_list if ast.unparse(d).split("(")[0].split(".")[-1] not in ("dataclass", "total_ordering", "unique")]
                if decs:
                    saved = (list(self.pc), list(self.events), list(self.unmodelled))
                    self._dyn_target = (c, self._glob_cache[k])
                    try:
                        for d in reversed(decs):
                            f = self.eval(d, Frame(c.module))
                            self.call(f, [ClassV(c)], {}, d)
                    except Exception:  # noqa: BLE001  (decorator outside the model: the attributes stay unknown)
                        pass
                    finally:
                        self._dyn_target = None
                        self.pc[:], self.events[:], self.unmodelled[:] = saved
            for n, v in self._glob_cache[k].items():
                out.setdefault(n, v)
        return out

    def method_value(self, m):
        k = ("method", m.qualname)
        if k not in self._glob_cache:
            self._glob_cache[k] = self.make_function(m, None, m.cls)
        return self._glob_cache[k]

    def setattr(self, target, name, value, node=None):
        if isinstance(target, ClassV) and getattr(self, "_dyn_target", None) is not None and self._dyn_target[0] is target.ci:
            self._dyn_target[1][name] = value
            return
        if isinstance(target, Obj):
            st = target.cls.find_setter(name)
            if st is not None:
                self.call_function(FuncV(st, None, target, st.cls), [value], {}, node)
                return
            pm = target.cls.find_method(name)
            if pm is not None and pm.kind == "property":
                raise RaiseSignal(App("AttributeError", (Const(name),)), node)
            if name not in target.attrs and pm is None:
                a = target.cls.find_assign(name)
                if a is not None and a[1] is not None and isinstance(a[1], ast.Call):
                    c, vnode = a
                    fr = Frame(c.module, None, None, c)
                    val = self.eval(vnode, fr)
                    if isinstance(val, PropV):
                        if val.fset is None:
                            raise RaiseSignal(App("AttributeError", (Const(name),)), node)
                        self.call(val.fset, [target, value], {}, node)
                        return
            self.event("attr_store", obj=target, attr=name, value=value, in_init=target.in_init > 0, node=node, empty=_is_empty_container(value))
            target.attrs[name] = value
            return
        if isinstance(target, (FuncV, LambdaV)) and name in ("__doc__", "__name__", "__qualname__", "__module__", "__annotations__", "__signature__"):
            return      # function metadata: not state of any object the properties talk about
        self.event("foreign_attr_store", target=target, attr=name, node=node)

    # ------------------------------------------------------------------ statements
    def exec_block(self, stmts, frame):
        for i, st in enumerate(stmts):
            if isinstance(st, ast.If) and self.merge_ifs:
                sig = self.select_return(st, stmts[i + 1:], frame)
                if sig is not None:
                    return sig
            sig = self.exec_stmt(st, frame)
            if sig is not None:
                return sig
        return None

    def select_return(self, st, rest, fr):
        """`if c: return e1` followed by `return e2` (or an else arm returning e2) with call-free expressions is one
        value ite(c, e1, e2): the same treatment the merged rebinding `if` gets, so extracting such a helper does not fork paths."""
        def ret_expr(body):
            if len(body) == 1 and isinstance(body[0], ast.Return) and body[0].value is not None and self.pure_expr(body[0].value):
                return body[0].value
            return None
        e1 = ret_expr(st.body)
        e2 = ret_expr(st.orelse) if st.orelse else ret_expr(rest)
        if e1 is None or e2 is None or not self.pure_expr(st.test):
            return None
        if any("random" in ast.unparse(x) or "rng" in ast.unparse(x) for x in (e1, e2)):
            return None  # random draws keep one path per draw kind
        c = self.truth(self.eval(st.test, fr))
        if isinstance(c, Const):
            return ("return", self.eval(e1 if c.value else e2, fr))
        k = self.known_truth(c)
        if k is not None:
            return ("return", self.eval(e1 if k else e2, fr))
        saved = list(self.pc)
        self.pc.append((c, True))
        a = self.eval(e1, fr)
        self.pc = list(saved)
        self.pc.append((c, False))
        b = self.eval(e2, fr)
        self.pc = saved

        def sel(x, y):
            if isinstance(x, Tup) and isinstance(y, Tup) and type(x) is type(y) and len(x.items) == len(y.items) \
                    and not any(isinstance(i, Star) for i in x.items + y.items):
                parts = [sel(p, q) for p, q in zip(x.items, y.items)]
                return None if any(p is None for p in parts) else type(x)(parts)
            if isinstance(x, V) and isinstance(y, V):
                for z in (x, y):
                    # values that steer later dispatch (names, flags, None) keep their own paths
                    if isinstance(z, (EnumM, Top)) or (isinstance(z, Const) and (isinstance(z.value, (str, bool)) or z.value is None)):
                        return None
                return ite(c, x, y)
            return None
        if isinstance(a, V) and isinstance(b, V) and a == b:
            return ("return", a)      # both arms return the same value (`if r.ndim == 0: return r.item()` / `return r`): no decision is needed
        if not (isinstance(a, Tup) and isinstance(b, Tup)) and not (getattr(self, "merge_scalar_returns", False) and self.depth > 1):
            # only the extracted form of the merged tuple rebinding `if c: x, y = e1, e2` is summarised; scalar selections keep
            # their paths (rules read them path by path)
            return None
        v = sel(a, b)
        if v is None:
            return None
        return ("return", v)

    def exec_stmt(self, st, fr):
        m = getattr(self, "st_" + type(st).__name__, None)
        if m is None:
            raise AnalysisError("unsupported statement %s at %s:%d" % (type(st).__name__, fr.module.relpath, st.lineno))
        return m(st, fr)

    def st_Pass(self, st, fr):
        return None

    def st_Expr(self, st, fr):
        if isinstance(st.value, ast.Constant):
            return None
        v = st.value
        if isinstance(v, ast.Call) and isinstance(v.func, ast.Attribute) and v.func.attr == "sort" and not v.args \
                and isinstance(v.func.value, (ast.Name, ast.Attribute)) and all(k.arg in ("axis", "kind") for k in v.keywords):
            recv = self.eval(v.func.value, fr)
            if isinstance(recv, V) and not isinstance(recv, (Const, Tup)):
                # x.sort(): the event is recorded by the library model; the name now holds the sorted array (and so does the
                # array it is a reshaped view of)
                self.eval(st.value, fr)
                new = mk_app("sort", [recv])
                self.rebind(v.func.value, new, fr)
                if isinstance(v.func.value, ast.Name) and isinstance(recv, App) and recv.fn == "reshape" and recv.args:
                    for nm, val in list(fr.vars.items()):
                        if isinstance(val, V) and val == recv.args[0]:
                            fr.vars[nm] = App("reorder:sorted-through-view", (val,))
                return None
        if isinstance(v, ast.Call) and ast.unparse(v.func) in ("np.copyto", "numpy.copyto") and len(v.args) >= 2 and isinstance(v.args[0], ast.Name) \
                and all(k.arg in ("where", "casting") for k in v.keywords):
            # np.copyto(dst, src, where=mask): dst holds src where the mask is set and its old content elsewhere (an in-place write)
            dst, src = self.eval(v.args[0], fr), self.eval(v.args[1], fr)
            wh = [k.value for k in v.keywords if k.arg == "where"]
            if isinstance(dst, V) and isinstance(src, V):
                root = storage_root(dst)
                if root is not None:
                    self.event("inplace", how="np.copyto", root=root, target="arg0", node=st, value=dst)
                new = src if not wh else self.lib.np_call(self, "where", [self.eval(wh[0], fr), src, dst], {}, v)
                self.rebind(v.args[0], new, fr)
                return None
        r = self.eval(st.value, fr)
        self.out_rebind(st.value, r, fr)
        return None

    def out_rebind(self, call, result, fr):
        """np.f(..., out=name): the function writes its result into `name` and returns it, so afterwards the name holds the result
        (the in-place event for caller-visible storage is recorded by the library model)."""
        if not (isinstance(call, ast.Call) and isinstance(result, V)):
            return
        fn = ast.unparse(call.func)
        if not (fn.startswith("np.") or fn.startswith("numpy.")):
            return
        for k in call.keywords:
            if k.arg == "out" and isinstance(k.value, ast.Name) and isinstance(fr.vars.get(k.value.id), V):
                self.rebind(k.value, result, fr)
            elif k.arg == "out" and isinstance(k.value, ast.Subscript) and isinstance(k.value.value, ast.Name) and isinstance(fr.vars.get(k.value.value.id), V):
                # out=a[i] with a basic index is a view of a: the call is the store a[i] = result
                try:
                    idx = self.eval_index(k.value.slice, fr)
                except Exception:  # noqa: BLE001
                    idx = None
                if idx is not None and isinstance(idx, V) and is_basic_index(idx):
                    self.assign(k.value, result, fr)

    def st_Import(self, st, fr):
        for a in st.names:
            fr.vars[a.asname or a.name.split(".")[0]] = ExtV(a.name if a.asname else a.name.split(".")[0])

    def st_ImportFrom(self, st, fr):
        for a in st.names:
            fr.vars[a.asname or a.name] = ExtV((st.module or "") + "." + a.name)

    def st_Global(self, st, fr):
        return None

    def st_Nonlocal(self, st, fr):
        return None

    def st_Assert(self, st, fr):
        """An assert states an invariant: when its condition folds to false it raises; when the evaluator cannot decide it the
        invariant is ASSUMED for the rest of the path (no fork) and recorded as an `assert_assumed` event (evidence lists them)."""
        try:
            c = self.truth(self.eval(st.test, fr))
        except AnalysisError:
            c = None
        if isinstance(c, Const):
            if not c.value:
                raise RaiseSignal(App("AssertionError", ()), st)
            return None
        k = self.known_truth(c) if c is not None else None
        if k is False:
            raise RaiseSignal(App("AssertionError", ()), st)
        if k is None:
            self.event("assert_assumed", node=st, text=ast.unparse(st.test)[:120])
            if c is not None:
                self.pc.append((c, True))
        return None

    def st_Delete(self, st, fr):
        return None

    def st_FunctionDef(self, st, fr):
        fi = FunctionInfo(fr.module, st, parent=fr.fi)
        fr.vars[st.name] = self.make_function(fi, fr, fr.cls_ctx)

    def st_Return(self, st, fr):
        return ("return", self.eval(st.value, fr) if st.value is not None else Const(None))

    def st_Raise(self, st, fr):
        exc = self.eval(st.exc, fr) if st.exc is not None else Top("reraise")
        raise RaiseSignal(exc, st)

    def st_Break(self, st, fr):
        return ("break",)

    def st_Continue(self, st, fr):
        return ("continue",)

    def st_Assign(self, st, fr):
        v = self.eval(st.value, fr)
        self.out_rebind(st.value, v, fr)
        for t in st.targets:
            self.assign(t, v, fr)
        # live views: `name = parent[basic index]` (numpy basic indexing returns a view, writes through it reach the parent)
        if len(st.targets) == 1 and isinstance(st.targets[0], ast.Name) and isinstance(st.value, ast.Subscript) and isinstance(st.value.value, ast.Name) \
                and st.value.value.id in fr.vars and st.value.value.id != st.targets[0].id and isinstance(fr.vars[st.value.value.id], V) \
                and not isinstance(fr.vars[st.value.value.id], (Tup, Const)):
            try:
                vidx = self.eval_index(st.value.slice, fr)
            except Exception:  # noqa: BLE001
                vidx = None
            if vidx is not None and isinstance(vidx, V) and is_basic_index(vidx):
                fr.views[st.targets[0].id] = (st.value.value.id, vidx)

    def st_AnnAssign(self, st, fr):
        if st.value is not None:
            self.assign(st.target, self.eval(st.value, fr), fr)

    def st_AugAssign(self, st, fr):
        cur = self.eval(st.target, fr)
        rhs = self.eval(st.value, fr)
        new = self.binop(type(st.op).__name__, cur, rhs, st)
        if isinstance(st.target, ast.Name):
            root = storage_root(cur)
            if root is not None:
                self.event("inplace", how="augassign", root=root, target=ast.unparse(st.target), node=st, value=cur)
        if isinstance(st.target, ast.Subscript):
            self.event("augstore", base=self.eval(st.target.value, fr), index=self.eval_index(st.target.slice, fr), op=type(st.op).__name__,
                       rhs=rhs, node=st, loops=len(getattr(self, "loop_stack", [])))
        self.assign(st.target, new, fr, aug=True)

    def st_Match(self, st, fr):
        """`match` is evaluated as the if / elif chain it abbreviates (literal, None, class, wildcard, capture, or-patterns,
        fixed-length sequence patterns over a tuple subject, guards); anything else is outside the model."""
        cache = getattr(self, "_match_cache", None)
        if cache is None:
            cache = self._match_cache = {}
        node = cache.get(id(st))
        if node is None:
            node = cache[id(st)] = _desugar_match(st)
        return self.exec_block(node, fr)

    def st_If(self, st, fr):
        test = self.eval(st.test, fr)
        c = self.truth(test)
        if not isinstance(c, Const) and self.merge_ifs and self.mergeable_if(st, fr):
            known = self.known_truth(c)
            if known is None:
                return self.merged_if(st, c, fr)
        if self.decide(test, st):
            return self.exec_block(st.body, fr)
        return self.exec_block(st.orelse, fr)

    def known_truth(self, c):
        for known, taken in self.pc:
            if known == c:
                return taken
            if known == negate(c):
                return not taken
        return self.positive_sum(c)

    def positive_sum(self, c):
        """`a1 + a2 + ... > 0` (as lt0 of the negated sum) over quantities that are non-negative by construction is TRUE on a path that knows one
        of the summands to be positive (`len(pos) != 0`, an assumed `Ep > 0`): decides the guard of `q if total > 0 else default`."""
        from .terms import _nonneg_poly
        if not (isinstance(c, App) and c.fn == "lt0" and c.args):
            return None
        p = to_poly(neg(c.args[0]))
        if p is None or p.const_value() != 0 or not p.t or not _nonneg_poly(p) or not all(len(m) == 1 and m[0][1] == 1 for m in p.t):
            return None
        facts = [(k, t) for k, t in self.pc] + [(a, True) for a in self.assume]
        for m in p.t:
            a = m[0][0]
            for k, t in facts:
                if not (isinstance(k, App) and k.args):
                    continue
                pk = to_poly(k.args[0])
                if pk is None:
                    continue
                pa = to_poly(a)
                if k.fn == "eq0" and not t and pk.t == pa.t:
                    return True          # a != 0 and a >= 0
                if k.fn == "lt0" and t and pk.t == (-pa).t:
                    return True          # -a < 0
        return None

    def mergeable_if(self, st, fr=None):
        """Both arms only (re)bind plain names from call-free or library-only expressions."""
        def simple(body):
            for s in body:
                if isinstance(s, ast.Pass):
                    continue
                if isinstance(s, ast.If):
                    if not (simple(s.body) and simple(s.orelse)) or not self.pure_expr(s.test):
                        return False
                    continue
                if isinstance(s, ast.Assign):
                    tg = s.targets
                elif isinstance(s, ast.AugAssign):
                    tg = [s.target]
                else:
                    return False
                for t in tg:
                    if isinstance(t, ast.Name):
                        continue
                    if isinstance(t, ast.Tuple) and all(isinstance(e, ast.Name) for e in t.elts):
                        continue
                    if isinstance(t, ast.Subscript) and isinstance(t.value, ast.Name) and isinstance(s, ast.Assign) and self.pure_expr(t.slice) \
                            and self.local_array(fr, t.value.id):
                        continue   # a guarded element store into a local array: A[i] = ite(c, v, A[i])
                    return False
                if not self.pure_expr(s.value) and not self.pure_record_call(s.value, fr):
                    return False
            return True
        return simple(st.body) and simple(st.orelse)

    def pure_record_call(self, e, fr):
        """`name.method(<pure args>)` on a local immutable record (typing.NamedTuple) whose method is a single `return` of a value-only
        expression (library calls, its own class's constructor, _replace): as mergeable as the expression it returns."""
        if fr is None or not (isinstance(e, ast.Call) and isinstance(e.func, ast.Attribute) and isinstance(e.func.value, ast.Name)):
            return False
        obj = fr.vars.get(e.func.value.id)
        if not (isinstance(obj, Obj) and getattr(obj, "nt_fields", None)):
            return False
        if not all(self.pure_expr(a) for a in list(e.args) + [k.value for k in e.keywords]):
            return False
        m = obj.cls.find_method(e.func.attr)
        if m is None:
            return e.func.attr == "_replace"
        body = [s_ for s_ in m.node.body if not (isinstance(s_, ast.Expr) and isinstance(s_.value, ast.Constant))]
        if len(body) != 1 or not isinstance(body[0], ast.Return) or body[0].value is None:
            return False
        for n in ast.walk(body[0].value):
            if isinstance(n, ast.Call):
                src = ast.unparse(n.func)
                if src in (obj.cls.name, "type(self)", "self._replace", "self.__class__", "cls", "type"):
                    continue
                if not self.pure_expr(ast.Expr(value=ast.Call(func=n.func, args=[], keywords=[]))):
                    return False
        return not any(isinstance(n, (ast.Lambda, ast.ListComp, ast.GeneratorExp, ast.DictComp, ast.SetComp, ast.NamedExpr)) for n in ast.walk(body[0].value))

    def local_array(self, fr, name):
        """`name` is bound in the current frame to an array TERM that no view aliases (stores are then functional updates)."""
        if fr is None or not isinstance(fr.vars.get(name), V):
            return False
        if any(nm == name or base == name for nm, (base, _i) in getattr(fr, "views", {}).items()):
            return False
        v = fr.vars[name]
        return isinstance(v, App) and v.fn in ("store", "copy", "empty", "zeros", "ones", "full", "getitem", "fresh", "carried")

    def pure_expr(self, e):
        for n in ast.walk(e):
            if isinstance(n, (ast.Lambda, ast.ListComp, ast.GeneratorExp, ast.DictComp, ast.SetComp, ast.Yield, ast.Await, ast.NamedExpr)):
                return False  # (a walrus binds a name: not a pure expression for merging purposes)
            if isinstance(n, ast.Call):
                f = n.func
                src = ast.unparse(f)
                if src.split(".")[0] in ("np", "numpy", "math", "scipy") or src in ("len", "int", "float", "min", "max", "abs", "bool", "str", "isinstance", "callable"):
                    continue
                if isinstance(f, ast.Attribute) and f.attr in ("item", "astype", "copy", "get", "sum", "mean", "min", "max", "any", "all", "prod", "argmin", "argmax",
                                                               "reshape", "ravel", "flatten", "squeeze", "searchsorted", "nonzero", "cumsum", "repeat", "take", "clip", "round"):
                    continue  # value-only ndarray methods
                return False
        return True

    def merged_if(self, st, c, fr):
        base = dict(fr.vars)
        fr_a = fr
        saved_pc = list(self.pc)
        self.pc.append((c, True))
        fr.vars = dict(base)
        self.exec_block(st.body, fr)
        va = fr.vars
        # decisions taken INSIDE an arm (a property read that branches) stay part of the path condition: the merged value depends on them
        extra = [x for x in self.pc[len(saved_pc) + 1:]]
        self.pc = list(saved_pc)
        self.pc.append((c, False))
        fr.vars = dict(base)
        self.exec_block(st.orelse, fr)
        vb = fr.vars
        extra += [x for x in self.pc[len(saved_pc) + 1:] if x not in extra]
        self.pc = saved_pc + extra
        out = dict(base)
        for k in set(va) | set(vb):
            a = va.get(k, base.get(k))
            b = vb.get(k, base.get(k))
            if a is None or b is None:
                a = a if a is not None else Top("unbound on one arm")
                b = b if b is not None else Top("unbound on one arm")
            if a is b or (isinstance(a, V) and isinstance(b, V) and a == b):
                out[k] = a
            elif isinstance(a, App) and a.fn == "store" and len(a.args) == 3 and a.args[0] == b:
                out[k] = App("store", (b, a.args[1], ite(c, a.args[2], self.lib.getitem(self, b, a.args[1]))))
            elif isinstance(b, App) and b.fn == "store" and len(b.args) == 3 and b.args[0] == a:
                out[k] = App("store", (a, b.args[1], ite(c, self.lib.getitem(self, a, b.args[1]), b.args[2])))
            elif isinstance(a, V) and isinstance(b, V):
                out[k] = ite(c, a, b)
            elif isinstance(a, Obj) and isinstance(b, Obj) and a.cls is b.cls and getattr(a, "nt_fields", None) and a.nt_fields == getattr(b, "nt_fields", None) \
                    and all(isinstance(a.attrs.get(f_), V) and isinstance(b.attrs.get(f_), V) for f_ in a.nt_fields):
                # two immutable records of one class: merged field by field
                m = Obj(a.cls, {f_: (a.attrs[f_] if a.attrs[f_] == b.attrs[f_] else ite(c, a.attrs[f_], b.attrs[f_])) for f_ in a.nt_fields})
                m.nt_fields = list(a.nt_fields)
                out[k] = m
            else:
                out[k] = Top("merge of objects")
        fr.vars = out
        return None

    def _havoc_loop_var(self, tag, n, cur):
        # a loop-carried immutable record (typing.NamedTuple of plain values) is havocked field by field, so that the
        # rules see its fields as separate loop state; anything else becomes one fresh symbol
        if isinstance(cur, Obj) and getattr(cur, "nt_fields", None) is not None and cur.nt_fields \
                and all(isinstance(cur.attrs.get(f), V) for f in cur.nt_fields):
            new = Obj(cur.cls, {f: self.fresh("%s:%s.%s" % (tag, n, f), ("loopcarried",)) for f in cur.nt_fields})
            new.nt_fields = list(cur.nt_fields)
            return new
        return self.fresh(tag + ":" + n, ("loopcarried",))

    def st_While(self, st, fr):
        # evaluate test once; if it folds false skip, else one parametric iteration with
        # havocked loop-carried names, then havoc again.
        assigned = assigned_names(st.body)
        t0 = self.truth(self.eval(st.test, fr))
        if isinstance(t0, Const) and not t0.value:
            return self.exec_block(st.orelse, fr)
        init = {n: fr.vars.get(n) for n in assigned}
        for n in assigned:
            if n in fr.vars:
                fr.vars[n] = self._havoc_loop_var("while", n, fr.vars[n])
        self.event("while", node=st, assigned=sorted(assigned))
        test = self.eval(st.test, fr)
        sig = None
        marker = (self.truth(test), True)
        self.pc.append(marker)
        pre_vals = {n: fr.vars.get(n) for n in assigned}
        sig = self.exec_block(st.body, fr)
        self.pc = [x for x in self.pc if x is not marker]
        self.event("while_iter", node=st, test=test, pre=pre_vals, post={n: fr.vars.get(n) for n in assigned}, sig=sig, init=init)
        for n in assigned:
            fr.vars[n] = self._havoc_loop_var("afterwhile", n, pre_vals.get(n))
        if sig is not None and sig[0] == "return":
            # a return inside the loop body: treat as one possible outcome
            if self.decide(App("loop_returns", (Const(st.lineno),)), st):
                return sig
        return None

    def st_For(self, st, fr):
        it = self.eval(st.iter, fr)
        items = self.concrete_items(it)
        if items is not None and len(items) <= 64:
            for x in items:
                self.assign(st.target, x, fr)
                sig = self.exec_block(st.body, fr)
                if sig is not None:
                    if sig[0] == "break":
                        break
                    if sig[0] == "continue":
                        continue
                    return sig
            else:
                return self.exec_block(st.orelse, fr)
            return None
        # parametric iteration
        return self.param_loop(st, it, fr)

    def param_loop(self, st, it, fr):
        """One parametric iteration.  Loop-carried arrays are read through `carried(x, id)`
        wrappers; when every store into an array addresses the slot of the loop variable,
        reads of other cells of that slot are resolved to the pre-loop content."""
        assigned = assigned_names(st.body) - target_names(st.target)
        loopid = next(self.sym_counter)
        elem = self.loop_element(it, loopid)
        if isinstance(st.iter, ast.Call) and isinstance(st.iter.func, ast.Name) and st.iter.func.id == "enumerate" and len(st.iter.args) == 1 and not st.iter.keywords:
            # enumerate over a list built in a parametric loop: the element stays attached to the list (appends are recorded)
            try:
                inner = self.eval(st.iter.args[0], fr)
            except Exception:  # noqa: BLE001
                inner = None
            if isinstance(inner, Lst) and (inner.pappends or getattr(inner, "comp", None)):
                j = Sym("j%d" % loopid, ("loopvar", "int"))
                elem = ("enum-list", j, self.lib.ListElem(inner, j))
        if isinstance(st.iter, ast.Call) and isinstance(st.iter.func, ast.Name) and st.iter.func.id == "zip" and not st.iter.keywords \
                and isinstance(st.target, (ast.Tuple, ast.List)) and len(st.target.elts) == len(st.iter.args) \
                and all(isinstance(t_, ast.Name) for t_ in st.target.elts):
            # zip over lists built in a parametric loop: each such element stays attached to its list (`for sols, c in zip(s, s_min): sols.append(...)`)
            try:
                inners = [self.eval(a_, fr) for a_ in st.iter.args]
            except Exception:  # noqa: BLE001
                inners = None
            if inners is not None and any(isinstance(x_, Lst) and (x_.pappends or getattr(x_, "comp", None)) for x_ in inners):
                j = Sym("j%d" % loopid, ("loopvar", "int"))
                for t_, x_ in zip(st.target.elts, inners):
                    self.assign(t_, self.elem_of(x_, j) if not (isinstance(x_, V) and not isinstance(x_, Tup)) else mk_app("getitem", [x_, j]), fr)
                elem = ("zip-list", j)
        if isinstance(elem, tuple) and elem and elem[0] == "zip-list":
            elem = elem[1]
        elif isinstance(elem, tuple) and elem and elem[0] == "enum-list":
            _tag, j, le = elem
            if isinstance(st.target, (ast.Tuple, ast.List)) and len(st.target.elts) == 2:
                self.assign(st.target.elts[0], j, fr)
                self.assign(st.target.elts[1], le, fr)
                elem = j
            else:
                raise AnalysisError("enumerate over a parametric list without tuple unpacking")
        else:
            self.assign(st.target, elem, fr)
        pre = {}
        for n in assigned:
            try:
                old = fr.lookup(n)
            except KeyError:
                continue
            pre[n] = old
            if isinstance(old, V) and not isinstance(old, (Const, Tup)):
                self.set_var(fr, n, App("carried", (old, Const(loopid))))
        self.event("for", node=st, iter=it, elem=elem, loopid=loopid)
        self.loop_stack = getattr(self, "loop_stack", [])
        self.loop_stack.append((loopid, elem, it))
        nev = len(self.events)
        try:
            sig = self.exec_block(st.body, fr)
        finally:
            self.loop_stack.pop()
        # slot discipline per carried array
        jsyms = [a for a in ([elem] + (list(elem.items) if isinstance(elem, Tup) else [])) if isinstance(a, Sym) and "loopvar" in a.tags]
        resolv = {}
        for n, old in pre.items():
            if not isinstance(old, V):
                continue
            car = App("carried", (old, Const(loopid)))
            idxs = [e["index"] for e in self.events[nev:] if e["kind"] == "store" and _chain_base(e["base"]) == car]
            slot = None
            if idxs and jsyms:
                for pos_ in range(-4, 4):
                    if all(isinstance(i, Tup) and -len(i.items) <= pos_ < len(i.items) and i.items[pos_] in jsyms and
                           (pos_ >= 0 and not any(x == Const(Ellipsis) for x in i.items[:pos_]) or pos_ < 0 and not any(x == Const(Ellipsis) for x in i.items[pos_:]))
                           for i in idxs):
                        slot = pos_
                        break
                if slot is None and all(i in jsyms for i in idxs):
                    slot = "whole"
            resolv[car] = (old, slot)
        for n in assigned:
            try:
                new = fr.lookup(n)
            except KeyError:
                continue
            old = pre.get(n)
            if isinstance(new, V):
                new = _resolve_carried(self, new, resolv, jsyms)
                if isinstance(old, V) and new == App("carried", (old, Const(loopid))):
                    self.set_var(fr, n, old)
                    continue
                self.set_var(fr, n, mk_app("after_loop", [new, Const(loopid)]) if not isinstance(new, Top) else new)
        if sig is not None and sig[0] == "return":
            if self.decide(App("loop_returns", (Const(st.lineno),)), st):
                return sig
        return None

    def set_var(self, fr, n, v):
        f = fr
        while f is not None and n not in f.vars:
            f = f.parent
        (f or fr).vars[n] = v

    def loop_element(self, it, loopid):
        """Symbolic element of an iterable of unknown length."""
        if isinstance(it, App) and it.fn == "range" and len(it.args) == 1:
            return Sym("j%d" % loopid, ("loopvar", "int"))
        if isinstance(it, App) and it.fn == "zip":
            j = Sym("j%d" % loopid, ("loopvar", "int"))
            return Tup([self.elem_of(a, j) for a in it.args])
        if isinstance(it, App) and it.fn == "enumerate":
            j = Sym("j%d" % loopid, ("loopvar", "int"))
            seq = it.args[0]
            if isinstance(seq, V) and not isinstance(seq, Tup) and len(it.args) == 1 and not it.kw:
                # with an explicit index the element is the subscript: `for j, xj in enumerate(x)` reads xj = x[j]
                return Tup([j, mk_app("getitem", [seq, j])])
            return Tup([j, self.elem_of(seq, j)])
        j = Sym("j%d" % loopid, ("loopvar", "int"))
        return self.elem_of(it, j)

    def elem_of(self, seq, j):
        if isinstance(seq, Lst) and (seq.pappends or getattr(seq, "comp", None)):
            # element of a list built in a parametric loop: keeps the list reachable (appends to the element are recorded)
            return self.lib.ListElem(seq, j)
        if isinstance(seq, V):
            return mk_app("elem", [seq, j])
        return mk_app("elem", [Sym(key_of(seq)), j])

    def concrete_items(self, it):
        if isinstance(it, Obj) and getattr(it, "nt_fields", None) is not None:
            return [it.attrs[f] for f in it.nt_fields]
        if isinstance(it, ClassV) and it.ci.is_enum:
            return list(self.enum_members(it.ci))
        if isinstance(it, App) and it.fn == "fresh" and it.args and isinstance(it.args[0], Tup) and it.kwd("dtype") == Const("int") \
                and all(isinstance(i, Const) and isinstance(i.value, int) and not isinstance(i.value, bool) for i in it.args[0].items):
            return list(it.args[0].items)     # an integer array literal cast to an integer dtype has the same elements
        if isinstance(it, Tup) and not any(isinstance(i, Star) for i in it.items):
            return list(it.items)
        if isinstance(it, Lst) and not it.pappends and not it.unknown:
            return list(it.items)
        if isinstance(it, Dct) and not it.unknown:
            return list(it.items.keys())
        if isinstance(it, App) and it.fn == "range" and all(is_const(a) for a in it.args):
            try:
                return [Const(i) for i in range(*[int(const_of(a)) for a in it.args])]
            except Exception:
                return None
        if isinstance(it, App) and it.fn == "zip":
            cols = [self.concrete_items(a) for a in it.args]
            if all(c is not None for c in cols):
                return [Tup(t) for t in zip(*cols)]
        if isinstance(it, App) and it.fn == "enumerate":
            c = self.concrete_items(it.args[0])
            if c is not None:
                return [Tup([Const(i), x]) for i, x in enumerate(c)]
        if isinstance(it, App) and it.fn == "dict_items" :
            return None
        return None

    def st_Try(self, st, fr):
        try:
            sig = self.exec_block(st.body, fr)
        except RaiseSignal as r:
            for h in st.handlers:
                if h.type is None or exc_matches(r.exc, ast.unparse(h.type)):
                    if h.name:
                        fr.vars[h.name] = r.exc
                    try:
                        sig = self.exec_block(h.body, fr)
                    except RaiseSignal:
                        self.exec_block(st.finalbody, fr)
                        raise
                    fin = self.exec_block(st.finalbody, fr)
                    return fin if fin is not None else sig
            # no handler: the finally clause runs on the way out (its effects belong to the path)
            self.exec_block(st.finalbody, fr)
            raise
        if sig is None:
            sig = self.exec_block(st.orelse, fr)
        fin = self.exec_block(st.finalbody, fr)
        return fin if fin is not None else sig

    def st_With(self, st, fr):
        for item in st.items:
            ce = item.context_expr
            if isinstance(ce, ast.Call):
                f = self.eval(ce.func, fr)
                if isinstance(f, FuncV) and getattr(f, "is_ctxmgr", False):
                    # @contextlib.contextmanager: the code before and after the `yield` brackets the body; it is evaluated for its
                    # effects (both halves, before the body), the yielded value is bound by `as`
                    self._yielded = []
                    self._in_ctxmgr = getattr(self, "_in_ctxmgr", 0) + 1
                    try:
                        self.call(f, [self.eval(a, fr) for a in ce.args], {k.arg: self.eval(k.value, fr) for k in ce.keywords if k.arg}, ce)
                    finally:
                        self._in_ctxmgr -= 1
                    if item.optional_vars is not None:
                        self.assign(item.optional_vars, self._yielded[0] if self._yielded else Const(None), fr)
                    continue
            v = self.eval(item.context_expr, fr)
            if item.optional_vars is not None:
                self.assign(item.optional_vars, v, fr)
        return self.exec_block(st.body, fr)

    # ------------------------------------------------------------------ assignment
    def assign(self, t, v, fr, aug=False):
        if isinstance(t, ast.Name):
            if fr.views and not aug:
                fr.views.pop(t.id, None)
                for k in [k for k, (p_, _i) in fr.views.items() if p_ == t.id]:
                    del fr.views[k]
            fr.vars[t.id] = v
        elif isinstance(t, (ast.Tuple, ast.List)) and sum(isinstance(e, ast.Starred) for e in t.elts) == 1:
            # a, b, *rest = value: concrete tuples / lists / records only
            if isinstance(v, Obj) and getattr(v, "nt_fields", None) is not None:
                src = [v.attrs[f] for f in v.nt_fields]
            elif isinstance(v, Tup) and not any(isinstance(i, Star) for i in v.items):
                src = list(v.items)
            elif isinstance(v, Lst) and not v.pappends and not v.unknown:
                src = list(v.items)
            else:
                raise AnalysisError("starred unpacking of %r" % (v,))
            k = next(i for i, e in enumerate(t.elts) if isinstance(e, ast.Starred))
            after = len(t.elts) - k - 1
            if len(src) < len(t.elts) - 1:
                raise RaiseSignal(App("ValueError", (Const("unpack"),)), t)
            for e, x in zip(t.elts[:k], src[:k]):
                self.assign(e, x, fr)
            self.assign(t.elts[k].value, Lst(src[k:len(src) - after]), fr)
            for e, x in zip(t.elts[k + 1:], src[len(src) - after:] if after else []):
                self.assign(e, x, fr)
        elif isinstance(t, (ast.Tuple, ast.List)):
            items = self.unpack(v, len(t.elts), t)
            for e, x in zip(t.elts, items):
                self.assign(e, x, fr)
        elif isinstance(t, ast.Attribute):
            self.setattr(self.eval(t.value, fr), t.attr, v, t)
        elif isinstance(t, ast.Subscript):
            base = self.eval(t.value, fr)
            idx = self.eval_index(t.slice, fr)
            self.store(t, base, idx, v, fr)
        elif isinstance(t, ast.Starred):
            raise AnalysisError("starred assignment target")
        else:
            raise AnalysisError("unsupported assignment target %s" % type(t).__name__)

    def unpack(self, v, n, node):
        if isinstance(v, Obj) and getattr(v, "nt_fields", None) is not None:
            v = Tup([v.attrs[f] if isinstance(v.attrs[f], V) else Sym(key_of(v.attrs[f])) for f in v.nt_fields]) \
                if all(isinstance(v.attrs[f], V) for f in v.nt_fields) else Lst([v.attrs[f] for f in v.nt_fields])
        if isinstance(v, Tup) and not any(isinstance(i, Star) for i in v.items):
            if len(v.items) != n:
                raise RaiseSignal(App("ValueError", (Const("unpack"),)), node)
            return list(v.items)
        if isinstance(v, Lst) and not v.pappends and not v.unknown and len(v.items) == n:
            return list(v.items)
        if isinstance(v, V):
            return [mk_app("getitem", [v, Const(i)]) for i in range(n)]
        raise AnalysisError("cannot unpack %r" % (v,))

    def store(self, t, base, idx, v, fr):
        if isinstance(getattr(t, "value", None), ast.Name) and t.value.id in fr.views and isinstance(base, V):
            # a store through a live view is a store into the parent at the composed index; the view is re-derived from the parent
            pname, vidx = fr.views[t.value.id]
            comp = compose_index(vidx, idx)
            if comp is None:
                # not composable (e.g. the store addresses dimensions under the view's Ellipsis): the parent is written at an unknown place
                comp = App("view_index", (vidx, idx if isinstance(idx, V) else Sym(key_of(idx))))
            pnode = ast.Subscript(value=ast.Name(id=pname, ctx=ast.Load()), slice=t.slice, ctx=ast.Store())
            ast.copy_location(pnode, t)
            ast.fix_missing_locations(pnode)
            saved = dict(fr.views)
            self.store(pnode, fr.lookup(pname), comp, v, fr)
            fr.views = saved
            fr.vars[t.value.id] = self.lib.getitem(self, fr.lookup(pname), vidx, t)
            return
        if isinstance(base, ObjDictView):
            if isinstance(idx, Const) and isinstance(idx.value, str):
                self.event("attr_store", obj=base.obj, attr=idx.value, value=v, in_init=base.obj.in_init > 0, node=t, empty=_is_empty_container(v))
                base.obj.attrs[idx.value] = v
                return
            raise AnalysisError("store into __dict__ with a non-constant key")
        if isinstance(base, Dct):
            owner = None
            f = fr
            while f is not None and owner is None:
                cands = [f.self_obj] + [x for x in f.vars.values() if isinstance(x, Obj)]
                for so in cands:
                    if isinstance(so, Obj) and owner is None:
                        for an, av in so.attrs.items():
                            if av is base:
                                owner = (so, an)
                f = f.parent
            if owner is not None:
                self.event("dict_store", obj=owner[0], attr=owner[1], key=idx, value=v, in_init=owner[0].in_init > 0, node=t)
            if isinstance(idx, V):
                base.items[idx] = v
            else:
                base.unknown = True
            return
        if isinstance(base, Lst):
            if is_const(idx) and not base.pappends and isinstance(const_of(idx), int) and -len(base.items) <= const_of(idx) < len(base.items):
                base.items[const_of(idx)] = v
            else:
                base.unknown = True
            return
        if isinstance(base, Tup) and is_const(idx) and isinstance(const_of(idx), int) and -len(base.items) <= const_of(idx) < len(base.items) \
                and not any(isinstance(i, Star) for i in base.items) and isinstance(v, V):
            items = list(base.items)
            items[const_of(idx)] = v
            self.rebind(t.value, type(base)(items), fr)
            return
        if isinstance(base, V):
            root = storage_root(base)
            self.event("store", root=root, base=base, index=idx, value=v, node=t, target=ast.unparse(t),
                       loops=len(getattr(self, "loop_stack", [])))
            if root is not None:
                self.event("inplace", how="subscript-store", root=root, target=ast.unparse(t), node=t, value=base)
            rr = raw_dtype_root(base)
            if rr is not None and isinstance(v, V) and _float_making(v):
                # an element store casts to the TARGET's dtype: a one-ulp neighbour / a fraction written into an array that still has the
                # caller's (possibly integer or float32) dtype is truncated or rounded back
                self.event("raw_store", root=rr, value=v, node=t, text=ast.unparse(t))
            new = mk_app("store", [base, idx, v if isinstance(v, V) else Sym(key_of(v))])
            # rebind the variable that holds the array (value semantics of an in-place write)
            self.rebind(t.value, new, fr)
            return
        raise AnalysisError("store into %r" % (base,))

    def rebind(self, node, new, fr):
        if isinstance(node, ast.Name):
            f = fr
            while f is not None and node.id not in f.vars:
                f = f.parent
            (f or fr).vars[node.id] = new
        elif isinstance(node, ast.Attribute):
            tgt = self.eval(node.value, fr)
            if isinstance(tgt, Obj):
                tgt.attrs[node.attr] = new
        elif isinstance(node, ast.Subscript):
            # nested store a[i][j] = v  ->  a = store(a, i, store(a[i], j, v))
            base = self.eval(node.value, fr)
            idx = self.eval_index(node.slice, fr)
            if isinstance(base, V):
                self.rebind(node.value, mk_app("store", [base, idx, new]), fr)

    # ------------------------------------------------------------------ expressions
    def eval(self, e, fr):
        m = getattr(self, "ex_" + type(e).__name__, None)
        if m is None:
            raise AnalysisError("unsupported expression %s at %s:%d" % (type(e).__name__, fr.module.relpath, e.lineno))
        return m(e, fr)

    def ex_Constant(self, e, fr):
        if e.value is Ellipsis:
            return Const(Ellipsis)
        return Const(e.value)

    def ex_Name(self, e, fr):
        try:
            return fr.lookup(e.id)
        except KeyError:
            pass
        if fr.cls_ctx is not None and e.id == "__class__":
            return ClassV(fr.cls_ctx)
        return self.global_value(fr.module, e.id)

    def ex_Attribute(self, e, fr):
        return self.getattr(self.eval(e.value, fr), e.attr, e)

    def ex_Tuple(self, e, fr):
        return Tup(self.eval_elts(e.elts, fr))

    def eval_elts(self, elts, fr):
        out = []
        for x in elts:
            if isinstance(x, ast.Starred):
                v = self.eval(x.value, fr)
                items = self.concrete_items(v)
                if items is not None:
                    out.extend(items)
                else:
                    out.append(Star(self.lib.as_v(self, v)))
            else:
                out.append(self.eval(x, fr))
        return out

    def ex_List(self, e, fr):
        return Lst(self.eval_elts(e.elts, fr))

    def ex_Set(self, e, fr):
        return App("set", sorted(self.eval_elts(e.elts, fr), key=key_of))

    def ex_Dict(self, e, fr):
        d = Dct()
        for k, v in zip(e.keys, e.values):
            if k is None:
                inner = self.eval(v, fr)
                if isinstance(inner, Dct):
                    d.items.update(inner.items)
                    d.unknown |= inner.unknown
                else:
                    d.unknown = True
                continue
            kv = self.eval(k, fr)
            d.items[kv] = self.eval(v, fr)
        return d

    def ex_JoinedStr(self, e, fr):
        # f-strings fold when every part is a constant (plain conversion, no format spec); otherwise the text is opaque
        parts = []
        for v in e.values:
            if isinstance(v, ast.Constant) and isinstance(v.value, str):
                parts.append(v.value)
            elif isinstance(v, ast.FormattedValue) and v.format_spec is None and v.conversion in (-1, 115):
                try:
                    x = self.eval(v.value, fr)
                except (AnalysisError, RaiseSignal):
                    return Top("f-string")
                if isinstance(x, Const) and isinstance(x.value, (str, int)) and not isinstance(x.value, bool):
                    parts.append(str(x.value))
                else:
                    return Top("f-string")
            else:
                return Top("f-string")
        return Const("".join(parts))

    def ex_Yield(self, e, fr):
        if getattr(self, "_in_ctxmgr", 0) <= 0:
            raise AnalysisError("generator function outside the model")
        self._yielded.append(self.eval(e.value, fr) if e.value is not None else Const(None))
        return Const(None)

    def ex_NamedExpr(self, e, fr):
        v = self.eval(e.value, fr)
        self.assign(e.target, v, fr)
        return v

    def ex_Lambda(self, e, fr):
        return LambdaV(e, fr, fr.module)

    def ex_Starred(self, e, fr):
        return Star(self.eval(e.value, fr))

    def ex_Slice(self, e, fr):
        return App("slice", [self.eval(x, fr) if x is not None else Const(None) for x in (e.lower, e.upper, e.step)])

    def eval_index(self, s, fr):
        if isinstance(s, ast.Tuple):
            return Tup([self.eval(x, fr) for x in s.elts])
        return self.eval(s, fr)

    def ex_Subscript(self, e, fr):
        base = self.eval(e.value, fr)
        idx = self.eval_index(e.slice, fr)
        return self.lib.getitem(self, base, idx, e)

    def ex_UnaryOp(self, e, fr):
        v = self.eval(e.operand, fr)
        op = type(e.op).__name__
        if op == "Not":
            return negate(self.truth(v))
        if op == "USub":
            if isinstance(v, V) and raw_dtype_root(v) is not None:
                self.event("raw_arith", op="unary -", root=raw_dtype_root(v), node=e, text=ast.unparse(e))
            if self.raw_float and to_poly(v) is not None and not isinstance(v, Const):
                return App("fneg", (v,))
            return neg(v) if to_poly(v) is not None else App("neg", (v,))
        if op == "UAdd":
            return v
        if op == "Invert":
            return negate(v) if is_boolish(v) else App("invert", (v,))
        raise AnalysisError("unary op " + op)

    def ex_BinOp(self, e, fr):
        return self.binop(type(e.op).__name__, self.eval(e.left, fr), self.eval(e.right, fr), e)

    def binop(self, op, a, b, node=None):
        if op == "BitAnd" and isinstance(b, Const) and b.value == 1 and not isinstance(b.value, bool) and isinstance(a, V) and not isinstance(a, Const) and not is_boolish(a):
            return self.binop("Mod", a, Const(2), node)          # x & 1 is x % 2 for every integer x
        if op == "BitAnd" and isinstance(a, Const) and a.value == 1 and not isinstance(a.value, bool) and isinstance(b, V) and not isinstance(b, Const) and not is_boolish(b):
            return self.binop("Mod", b, Const(2), node)
        if op == "BitXor" and isinstance(a, V) and isinstance(b, V) and all(is_boolish(x_) or (isinstance(x_, Const) and isinstance(x_.value, bool)) for x_ in (a, b)):
            # exclusive or of two truth values
            return disj([conj([a, negate(b)]), conj([negate(a), b])])
        if op == "RShift" and isinstance(b, Const) and isinstance(b.value, int) and not isinstance(b.value, bool) and 0 <= b.value <= 16 and isinstance(a, V) and not isinstance(a, Const):
            return self.binop("FloorDiv", a, Const(2 ** b.value), node)   # x >> k is x // 2**k (arithmetic shift = floor)
        if op == "Sub" and a == Const(1) and isinstance(b, V) and not isinstance(b, Const):
            from .terms import atoms_of as _atoms
            if any(isinstance(x, App) and x.fn == "cdf" for x in [b] + list(_atoms(b))):
                # 1 - cdf(x) written in the source: the upper tail by cancellation (cdf rounds to 1 beyond x ~ 8.3); sf computes it directly
                self.event("tail_cancellation", op="1 - cdf(x)", arg=b, node=node, text=ast.unparse(node) if isinstance(node, ast.AST) else "1 - cdf(x)")
            # remember complements formed by the SOURCE (value numbering also produces 1 - cdf(z) from cdf(-z): those are not in this set)
            if not hasattr(self, "complement_keys"):
                self.complement_keys = set()
            self.complement_keys.add(sub(a, b).key if to_poly(b) is not None else "")
        if op == "Sub" and isinstance(a, V) and isinstance(b, V):
            ra, rb = raw_dtype_root(a), raw_dtype_root(b)
            if ra is not None and rb is not None:
                # both operands still carry the caller's dtype: for unsigned integers a - b wraps around whenever a < b
                self.event("raw_arith", op="-", root=ra, node=node, text=ast.unparse(node) if node is not None else "a - b")
        if isinstance(a, (Lst, Tup)) and isinstance(b, (Lst, Tup)) and op == "Add":
            if isinstance(a, Tup) and isinstance(b, Tup):
                return Tup(a.items + b.items)
            if isinstance(a, Lst) and isinstance(b, Lst):
                return Lst(a.items + b.items)
        if isinstance(a, Const) and isinstance(a.value, str) and isinstance(b, Const) and isinstance(b.value, str) and op == "Add":
            return Const(a.value + b.value)
        if isinstance(a, BoundExt):
            a = self.lib.as_v(self, a)
        if isinstance(b, BoundExt):
            b = self.lib.as_v(self, b)
        ta, tb = _num_tuple(a), _num_tuple(b)
        if (ta or tb) and isinstance(a, V) and isinstance(b, V) and (ta or to_poly(a) is not None) and (tb or to_poly(b) is not None):
            n = len(a.items) if ta else len(b.items)
            if not (ta and tb and len(a.items) != len(b.items)):
                return Vec([self.binop(op, a.items[i] if ta else a, b.items[i] if tb else b, node) for i in range(n)])
        if isinstance(a, V) and isinstance(b, Lst):
            b = self.lib.as_v(self, b)
        elif isinstance(b, V) and isinstance(a, Lst):
            a = self.lib.as_v(self, a)
        if not (isinstance(a, V) and isinstance(b, V)):
            self.note_unmodelled("binop %s on %s,%s" % (op, type(a).__name__, type(b).__name__), node)
            return Top("binop on objects")
        if op in ("BitAnd", "BitOr", "Sub", "BitXor") and all(isinstance(x, App) and x.fn == "set" and all(isinstance(i, (Const, EnumM)) for i in x.args) for x in (a, b)):
            sa_, sb_ = list(a.args), [i for i in b.args]
            if op == "BitOr":
                items = sa_ + [i for i in sb_ if i not in sa_]
            elif op == "BitAnd":
                items = [i for i in sa_ if i in sb_]
            elif op == "Sub":
                items = [i for i in sa_ if i not in sb_]
            else:
                items = [i for i in sa_ if i not in sb_] + [i for i in sb_ if i not in sa_]
            return App("set", sorted(items, key=key_of))
        if op in ("BitAnd", "BitOr") and (is_boolish(a) or is_boolish(b)):
            ta = a if is_boolish(a) else App("mask", (a,))
            tb = b if is_boolish(b) else App("mask", (b,))
            return conj([ta, tb]) if op == "BitAnd" else disj([ta, tb])
        if op == "Add" and (_tuple_like(a) or _tuple_like(b)) and (_tuple_like(a) or isinstance(a, Tup)) and (_tuple_like(b) or isinstance(b, Tup)) \
                and not isinstance(a, Vec) and not isinstance(b, Vec):
            # tuple concatenation keeps its order (shape tuples are not numbers)
            fl = lambda x: list(x.items) if isinstance(x, Tup) else [Star(x)]
            return Tup(fl(a) + fl(b))
        pa, pb = to_poly(a), to_poly(b)
        if self.raw_float and pa is not None and pb is not None and op in ("Add", "Sub", "Mult", "Div"):
            return App("f" + op, (a, b))
        if pa is None or pb is None:
            if isinstance(a, Tup) and op == "Add" and isinstance(b, V):
                return Tup(list(a.items) + [Star(b)])
            if isinstance(b, Tup) and op == "Add" and isinstance(a, V):
                return Tup([Star(a)] + list(b.items))
            if isinstance(a, Const) and isinstance(a.value, str) and op == "Add":
                return App("strcat", (a, b))
            return App("binop:" + op, (a, b))
        if op == "Add":
            return add(a, b)
        if op == "Sub":
            return sub(a, b)
        if op == "Mult":
            return self.int_product(mul(a, b), a, b, node)
        if op == "Div":
            return div(a, b)
        if op == "Pow":
            return self.int_product(powv(a, b), a, b, node)
        if op == "FloorDiv":
            if is_const(a) and is_const(b) and const_of(b) != 0:
                return Const(const_of(a) // const_of(b))
            return mk_app("floordiv", [a, b])
        if op == "Mod":
            if is_const(a) and is_const(b) and const_of(b) != 0:
                return Const(const_of(a) % const_of(b))
            return mk_app("mod", [a, b])
        return App("binop:" + op, (a, b))

    def int_product(self, r, a, b, node=None):
        """A product / power evaluated in the callers' fixed-width integer dtype whose degree in the counts is >= 3 (wraps at 2**21 per factor)."""
        da, db = int_degree(a), int_degree(b)

        def float_leaf(n):
            if isinstance(n, ast.BinOp) and isinstance(n.op, (ast.Mult, ast.Pow)):
                return float_leaf(n.left) or float_leaf(n.right)
            return isinstance(n, ast.Constant) and isinstance(n.value, float)
        if isinstance(node, ast.BinOp) and float_leaf(node):
            return r   # a float literal among the factors: the product is evaluated in floating point
        if da is not None and db is not None and (da >= 1 or db >= 1):
            d = int_degree(r)
            if d is not None and d >= 3:
                self.event("int_product", degree=d, node=node, text=ast.unparse(node) if isinstance(node, ast.AST) else show(r, 60))
        return r

    def ex_BoolOp(self, e, fr):
        """Python short-circuit semantics: `a or b` is a if truthy(a) else b (values, not just truth)."""
        is_and = isinstance(e.op, ast.And)

        def rec(i):
            v = self.eval(e.values[i], fr)
            if i == len(e.values) - 1:
                return v
            t = self.truth(v)
            if isinstance(t, Const):
                if bool(t.value) != is_and:
                    return v          # decided here: falsy for `and`, truthy for `or`
                return rec(i + 1)
            k = self.known_truth(t)
            if k is not None:
                return v if k != is_and else rec(i + 1)
            if not all(self.pure_expr(x) for x in e.values[i + 1:]):
                if self.decide(t, e) != is_and:
                    return v
                return rec(i + 1)
            saved = list(self.pc)
            self.pc.append((t, is_and))
            rest = rec(i + 1)
            self.pc = saved
            if is_boolish(v) and (is_boolish(rest) or (isinstance(rest, Const) and isinstance(rest.value, bool))):
                return conj([v, rest]) if is_and else disj([v, rest])
            if isinstance(v, V) and isinstance(rest, V):
                return ite(t, rest, v) if is_and else ite(t, v, rest)
            if self.decide(t, e) != is_and:
                return v
            return rest

        return rec(0)

    def ex_Compare(self, e, fr):
        left = self.eval(e.left, fr)
        res = []
        for op, rn in zip(e.ops, e.comparators):
            right = self.eval(rn, fr)
            res.append(self.compare(type(op).__name__, left, right, e))
            left = right
        return conj(res) if len(res) > 1 else res[0]

    def compare(self, op, a, b, node=None):
        if op not in ("Is", "IsNot", "In", "NotIn"):
            for x_, y_ in ((a, b), (b, a)):
                if isinstance(x_, Sym) and "arraylike" in x_.tags and not (isinstance(y_, Sym) and "arraylike" in y_.tags):
                    # a caller-supplied sequence compared before any numpy conversion: a list / tuple compares as ONE object (a scalar bool)
                    self.event("raw_sequence_use", value=x_, what="compared with %s before conversion to an array" % getattr(y_, "key", "?")[:40], node=node)
        if op in ("Is", "IsNot"):
            if isinstance(a, Const) and isinstance(b, Const):
                r = a.value is b.value or (a == b)
            elif isinstance(b, Const) and b.value is None:
                if isinstance(a, (Obj, Lst, Dct, FuncV, ClassV, Tup, EnumM, Num, LambdaV, ExtV, BoundExt, ModV, PartialV, OperatorV)) or (isinstance(a, App)) :
                    r = False     # functions, classes, modules and library objects are not None
                elif isinstance(a, Sym) and "notnone" in a.tags:
                    r = False
                else:
                    t = App("is_none", (a,))
                    return t if op == "Is" else negate(t)
            elif isinstance(a, V) and isinstance(b, V):
                r = a == b
            elif isinstance(a, ClassV) and isinstance(b, ClassV):
                r = a.ci is b.ci
            else:
                r = a is b
            return Const(r if op == "Is" else not r)
        if op in ("In", "NotIn"):
            r = self.lib.contains(self, b, a, node)
            return r if op == "In" else negate(r)
        sym = {"Eq": "==", "NotEq": "!=", "Lt": "<", "LtE": "<=", "Gt": ">", "GtE": ">="}[op]
        if isinstance(a, BoundExt):
            a = self.lib.as_v(self, a)
        if isinstance(b, BoundExt):
            b = self.lib.as_v(self, b)
        if sym in ("==", "!="):
            # user-defined __eq__ on enums / objects
            for x, y in ((a, b), (b, a)):
                if isinstance(x, EnumM):
                    ci = self.db.cls(x.cls)
                    m = ci.find_method("__eq__")
                    if m is not None:
                        r = self.truth(self.call_function(FuncV(m, None, x, ci), [y], {}, node))
                        return r if sym == "==" else negate(r)
                    if isinstance(y, Const) and any(str(b_) in ("str", "int") for b_ in ci.bases) and isinstance(x.value, Const):
                        # a member of an Enum with a str / int mixin IS a str / int: it equals the plain value (a plain Enum member does not)
                        r = x.value.value == y.value
                        return Const(r if sym == "==" else not r)
                if isinstance(x, Obj):
                    m = x.cls.find_method("__eq__")
                    if m is not None:
                        r = self.truth(self.call_function(FuncV(m, None, x, m.cls), [y], {}, node))
                        return r if sym == "==" else negate(r)
        if sym in ("==", "!="):
            for x, y in ((a, b), (b, a)):
                if isinstance(x, Sym) and ("callable" in x.tags or "object" in x.tags) and isinstance(y, (Const, EnumM)):
                    return Const(sym == "!=")
        if _num_tuple(a) and isinstance(b, V) and to_poly(b) is not None:
            return Vec([compare(sym, x, b) for x in a.items])
        if _num_tuple(b) and isinstance(a, V) and to_poly(a) is not None:
            return Vec([compare(sym, a, x) for x in b.items])
        if not (isinstance(a, V) and isinstance(b, V)):
            if sym in ("==", "!="):
                if isinstance(a, ClassV) and isinstance(b, ClassV):
                    r = a.ci is b.ci
                elif isinstance(a, FuncV) and isinstance(b, FuncV):
                    r = a.fi is b.fi and a.self_obj is b.self_obj
                else:
                    r = a is b
                return Const(r if sym == "==" else not r)
            return Top("compare objects")
        return compare(sym, a, b)

    def ex_IfExp(self, e, fr):
        c = self.truth(self.eval(e.test, fr))
        if isinstance(c, Const):
            return self.eval(e.body if c.value else e.orelse, fr)
        k = self.known_truth(c)
        if k is not None:
            return self.eval(e.body if k else e.orelse, fr)
        if self.pure_expr(e.body) and self.pure_expr(e.orelse):
            saved = list(self.pc)
            self.pc.append((c, True))
            a = self.eval(e.body, fr)
            self.pc = list(saved)
            self.pc.append((c, False))
            b = self.eval(e.orelse, fr)
            self.pc = saved
            if isinstance(a, Tup) and isinstance(b, Tup) and type(a) is type(b) and len(a.items) == len(b.items) \
                    and not any(isinstance(i, Star) for i in a.items + b.items) and all(isinstance(i, V) for i in a.items + b.items):
                return type(a)([x if x == y else ite(c, x, y) for x, y in zip(a.items, b.items)])
            if isinstance(a, V) and isinstance(b, V):
                return ite(c, a, b)
        if self.decide(c, e):
            return self.eval(e.body, fr)
        return self.eval(e.orelse, fr)

    def ex_Call(self, e, fr):
        # super() needs the frame
        if isinstance(e.func, ast.Name) and e.func.id == "super" and not e.args:
            if fr.self_obj is None or fr.cls_ctx is None:
                f = fr
                while f is not None and f.self_obj is None:
                    f = f.parent
                if f is None:
                    raise AnalysisError("super() outside method")
                return SuperV(f.self_obj, f.fi.cls)
            return SuperV(fr.self_obj, fr.fi.cls if fr.fi and fr.fi.cls else fr.cls_ctx)
        f = self.eval(e.func, fr)
        args = []
        for a in e.args:
            if isinstance(a, ast.Starred):
                v = self.eval(a.value, fr)
                items = self.concrete_items(v)
                if items is None:
                    args.append(Star(self.lib.as_v(self, v)))
                else:
                    args.extend(items)
            else:
                args.append(self.eval(a, fr))
        kwargs = {}
        for k in e.keywords:
            v = self.eval(k.value, fr)
            if k.arg is None:
                if isinstance(v, Dct) and not v.unknown:
                    for kk, vv in v.items.items():
                        kwargs[kk.value] = vv
                elif isinstance(v, Dct):
                    kwargs["**"] = Sym("kwargs?")
                else:
                    kwargs["**"] = v
            else:
                kwargs[k.arg] = v
        self.writeback = []
        res = self.call(f, args, kwargs, e)
        wb, self.writeback = getattr(self, "writeback", []), []
        if wb:
            for an in list(e.args) + [k.value for k in e.keywords]:
                if isinstance(an, (ast.Name, ast.Attribute)):
                    try:
                        cur = self.eval(an, fr)
                    except Exception:
                        continue
                    for v0, v1 in wb:
                        if isinstance(cur, V) and cur == v0:
                            self.rebind(an, v1, fr)
        return res

    def comp_generators(self, gens, fr, body):
        """Evaluate comprehension; returns list of values if concrete else None (then
        body evaluated once parametric, returned via self._comp_param)."""
        results = []
        param = []

        def rec(i, frame):
            if i == len(gens):
                results.append(body(frame))
                return
            g = gens[i]
            it = self.eval(g.iter, frame)
            items = self.concrete_items(it)
            if items is None and isinstance(it, Lst) and getattr(it, "comp", None) and not it.items and len(it.comp[0]) == 1 and not it.comp[1]:
                # iterating over a list built by a parametric comprehension: [h(s) for s in [f(g) for g in G]] = [h(f(g)) for g in G]
                loopid0, elem0, it0 = it.comp[0][0]
                param.append((loopid0, elem0, it0))
                self.assign(g.target, it.comp[2], frame)
                for cnd in g.ifs:
                    c = self.truth(self.eval(cnd, frame))
                    param.append(("if", c))
                rec(i + 1, frame)
                return
            if items is None:
                loopid = next(self.sym_counter)
                elem = self.loop_element(it, loopid)
                param.append((loopid, elem, it))
                self.assign(g.target, elem, frame)
                for cnd in g.ifs:
                    c = self.truth(self.eval(cnd, frame))
                    param.append(("if", c))
                rec(i + 1, frame)
                return
            for x in items:
                self.assign(g.target, x, frame)
                if all(self.decide(self.eval(cnd, frame), cnd) for cnd in g.ifs):
                    rec(i + 1, frame)

        inner = Frame(fr.module, fr.fi, fr, fr.cls_ctx)
        inner.self_obj = fr.self_obj
        rec(0, inner)
        return results, param

    def ex_ListComp(self, e, fr):
        results, param = self.comp_generators(e.generators, fr, lambda f: self.eval(e.elt, f))
        if not param:
            return Lst(results)
        loops = [p for p in param if p[0] != "if"]
        conds = [p[1] for p in param if p[0] == "if"]
        elt = results[0]
        l = Lst()
        l.pappends.append((Tup([lp[1] if isinstance(lp[1], V) else Sym(key_of(lp[1])) for lp in loops] + conds), elt))
        l.comp = (loops, conds, elt)
        return l

    ex_GeneratorExp = ex_ListComp

    def ex_SetComp(self, e, fr):
        l = self.ex_ListComp(e, fr)
        if isinstance(l, Lst) and not l.pappends:
            return App("set", sorted(l.items, key=key_of))
        return App("setcomp", (Sym(l.key),))

    def ex_DictComp(self, e, fr):
        results, param = self.comp_generators(e.generators, fr, lambda f: (self.eval(e.key, f), self.eval(e.value, f)))
        if not param:
            return Dct({k: v for k, v in results})
        d = Dct()
        d.unknown = True
        d.comp = (param, results[0])
        return d


# --------------------------------------------------------------------------- helpers

VIEW_OPS = {"asarray", "reshape", "moveaxis", "squeeze", "transpose", "expand_dims", "view", "ravel", "values"}


def _full_slice(i):
    return isinstance(i, App) and i.fn == "slice" and all(a == Const(None) for a in i.args)


def compose_index(vidx, idx):
    """Index into the parent that addresses element `idx` of the view parent[vidx] (basic indices; None when not derivable)."""
    vi = list(vidx.items) if isinstance(vidx, Tup) else [vidx]
    ii = list(idx.items) if isinstance(idx, Tup) else [idx]
    if any(isinstance(x, Star) for x in vi + ii) or not is_basic_index(Tup(ii)):
        return None
    ell = Const(Ellipsis)
    if any(isinstance(x, App) and x.fn == "slice" and not _full_slice(x) for x in vi):
        return None  # partial slices shift positions
    if any(x == Const(None) for x in vi + ii):
        return None
    if vi and vi[0] == ell and ell not in vi[1:]:
        tail = vi[1:]
        kept = [k for k, x in enumerate(tail) if _full_slice(x)]
        if ii and ii[0] == ell and ell not in ii[1:]:
            b = ii[1:]
            if len(b) > len(kept):
                return None
            for k, bi in zip(reversed(kept), reversed(b)):
                tail[k] = bi
            return Tup([ell] + tail)
        return None
    if ell not in vi:
        kept = [k for k, x in enumerate(vi) if _full_slice(x)]
        if ell in ii:
            return None
        out = list(vi)
        extra = []
        for n_, bi in enumerate(ii):
            if n_ < len(kept):
                out[kept[n_]] = bi
            else:
                extra.append(bi)
        res = out + extra
        return Tup(res) if len(res) != 1 else res[0]
    return None


def is_basic_index(idx):
    if isinstance(idx, Const):
        return idx.value is None or idx.value is Ellipsis or (isinstance(idx.value, int) and not isinstance(idx.value, bool))
    if isinstance(idx, App) and idx.fn == "slice":
        return True
    if isinstance(idx, Tup):
        return all(is_basic_index(i) for i in idx.items)
    if isinstance(idx, Sym):
        return "int" in idx.tags or "loopvar" in idx.tags or "maybe_basic" in idx.tags
    return False


def storage_root(v):
    """The caller-visible array whose storage a value may share, or None if fresh."""
    seen = 0
    while seen < 50:
        seen += 1
        if isinstance(v, Sym):
            return v if ("param" in v.tags or "attr" in v.tags) else None
        if isinstance(v, App):
            if v.fn in VIEW_OPS and v.args:
                v = v.args[0]
                continue
            if v.fn == "getitem" and is_basic_index(v.args[1]):
                # integer index on a 1-d array yields a scalar; rank unknown -> conservative view
                v = v.args[0]
                continue
            if v.fn == "store":
                v = v.args[0]
                continue
            if v.fn in ("elem", "carried", "after_loop"):
                v = v.args[0]
                continue
            if v.fn == "ite" and len(v.args) == 3:
                # a merged `if c: x = f(x)` leaves ite(c, fresh, x): on the other arm the name still IS the caller's array
                # (np.where is the separate operator `where`, which allocates)
                for arm in v.args[1:]:
                    r = storage_root(arm)
                    if r is not None:
                        return r
                return None
            return None
        return None
    return None


def _num_tuple(v):
    return isinstance(v, Vec) and len(v.items) > 0 and all(to_poly(i) is not None and not isinstance(i, Star) for i in v.items)


def _chain_base(v):
    while isinstance(v, App) and v.fn == "store":
        v = v.args[0]
    return v


def _resolve_carried(ev, v, resolv, jsyms):
    """Rewrite reads getitem(carried(x), idx) to getitem(x, idx) when idx addresses this iteration's own slot."""
    from .terms import subst, atoms_of

    mapping = {}
    for a in atoms_of(v):
        if isinstance(a, App) and a.fn == "getitem" and a.args[0] in resolv:
            old, slot = resolv[a.args[0]]
            idx = a.args[1]
            ok = False
            if slot == "whole":
                ok = idx in jsyms
            elif slot is not None and isinstance(idx, Tup) and -len(idx.items) <= slot < len(idx.items):
                ok = idx.items[slot] in jsyms
            if ok:
                mapping[a] = ev.lib.getitem(ev, old, idx)
    return subst(v, mapping) if mapping else v


def assigned_names(body):
    out = set()
    for st in body:
        for n in ast.walk(st):
            if isinstance(n, ast.Name) and isinstance(n.ctx, ast.Store):
                out.add(n.id)
            elif isinstance(n, (ast.Subscript,)) and isinstance(n.ctx, ast.Store):
                b = n.value
                while isinstance(b, ast.Subscript):
                    b = b.value
                if isinstance(b, ast.Name):
                    out.add(b.id)
    return out


def target_names(t):
    return {n.id for n in ast.walk(t) if isinstance(n, ast.Name)}


def exc_matches(exc, type_src):
    names = [s.strip() for s in type_src.strip("()").split(",")]
    if isinstance(exc, App):
        return exc.fn in names or "Exception" in names
    return "Exception" in names
