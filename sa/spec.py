"""
Specification tables and shared builders (the oracle side of every rule).
Transcribed from the property statements and the README decision table.
"""
from __future__ import annotations

import itertools

from .evalr import Evaluator, Obj, FuncV, Lst, Dct
from .progdb import ProgramDB, AnalysisError
from .terms import (App, Const, EnumM, Sym, Tup, V, add, sub, mul, div, neg, same, show, to_poly, mk_num, Poly)
from .simp import mk_app

SCORES = "score_analysis.scores.Scores"
GROUP = "score_analysis.group_scores.GroupScores"
FRAUD = "score_analysis.applications.doc_fraud.FraudScores"
BLABEL = "score_analysis.scores.BinaryLabel"
CM = "score_analysis.cm.ConfusionMatrix"
CONFIG = "score_analysis.scores.BootstrapConfig"

GAMMAS = list(itertools.product(("pos", "neg"), ("pos", "neg")))

# README decision table: a sample is accepted (predicted positive) iff  score <op> threshold
ACCEPT = {("pos", "pos"): ">=", ("pos", "neg"): ">", ("neg", "pos"): "<=", ("neg", "neg"): "<"}
COMPLEMENT = {">=": "<", ">": "<=", "<=": ">", "<": ">="}

POS = Sym("pos", ("attr", "array", "sorted", "notnone", "rawdtype"))
NEG = Sym("neg", ("attr", "array", "sorted", "notnone", "rawdtype"))
EP = Sym("Ep", ("int", "attr_scalar", "notnone", "nonneg"))   # declared easy counts are non-negative integers (the quantifier of every property)
EN = Sym("En", ("int", "attr_scalar", "notnone", "nonneg"))
T = Sym("t", ("param", "array", "notnone"))


def count_rel(arr, op, t):
    """#{x in arr : x op t} in the canonical atoms count_lt / count_le / len."""
    lt = mk_app("count_lt", [arr, t])
    le = mk_app("count_le", [arr, t])
    n = App("len", (arr,))
    return {"<": lt, "<=": le, ">=": sub(n, lt), ">": sub(n, le)}[op]


def cm_oracle(sc, ec, pos=POS, neg=NEG, ep=EP, en=EN, t=T):
    acc = ACCEPT[(sc, ec)]
    rej = COMPLEMENT[acc]
    return {
        "tp": add(count_rel(pos, acc, t), ep),
        "fn": count_rel(pos, rej, t),
        "fp": count_rel(neg, acc, t),
        "tn": add(count_rel(neg, rej, t), en),
    }


CELLS = {"tp": (0, 0), "fn": (0, 1), "fp": (1, 0), "tn": (1, 1)}


class Ctx:
    """Program database + evaluator + object builders shared by the rules."""

    def __init__(self, root="/repo"):
        self.db = ProgramDB(root)
        from .roles import apply_roles
        apply_roles(self.db)   # private anchors that were renamed / moved are found by their role in the call graph
        self.ev = Evaluator(self.db)

    def label(self, name):
        return EnumM(BLABEL, name, Const(name))

    def scores_obj(self, sc="pos", ec="pos", cls=SCORES, pos=POS, neg=NEG, ep=EP, en=EN, extra=None):
        """A Scores / GroupScores instance over symbolic sorted arrays.  It is built by the class's own constructor
        (is_sorted=True), so attributes a constructor introduces (caches, ...) exist; falls back to direct assembly."""
        ci = self.db.cls(cls)
        scl = self.label(sc) if isinstance(sc, str) else sc
        ecl = self.label(ec) if isinstance(ec, str) else ec
        o = None
        saved = (list(self.ev.pc), list(self.ev.events), list(self.ev.unmodelled))
        try:
            if cls == GROUP:
                kw = dict(pos_groups=Sym("pos_groups", ("attr", "array", "notnone")), neg_groups=Sym("neg_groups", ("attr", "array", "notnone")),
                          group_names=Sym("groups", ("attr", "array", "notnone")), score_class=scl, equal_class=ecl, is_sorted=Const(True))
            else:
                kw = dict(nb_easy_pos=ep, nb_easy_neg=en, score_class=scl, equal_class=ecl, is_sorted=Const(True))
            cand = self.ev.instantiate(ci, [pos, neg], kw)
            want = {"pos": pos, "neg": neg, "score_class": scl, "equal_class": ecl}
            if all(cand.attrs.get(k) == v for k, v in want.items()):
                o = cand
        except Exception:  # noqa: BLE001  (constructor not evaluable: assemble directly)
            o = None
        self.ev.pc[:], self.ev.events[:], self.ev.unmodelled[:] = saved
        if o is None:
            o = Obj(ci)
            o.attrs.update(pos=pos, neg=neg, nb_easy_pos=ep, nb_easy_neg=en, score_class=scl, equal_class=ecl)
            if cls == GROUP:
                o.attrs.update(pos_groups=Sym("pos_groups", ("attr", "array", "notnone")),
                               neg_groups=Sym("neg_groups", ("attr", "array", "notnone")),
                               groups=Sym("groups", ("attr", "array", "notnone")),
                               _grouped_scores=Dct(), nb_easy_pos=Const(0), nb_easy_neg=Const(0))
        if extra:
            o.attrs.update(extra)
        return o

    def method(self, obj, name):
        return self.ev.getattr(obj, name)

    def explore(self, thunk, chk=None, max_paths=None):
        outs = self.ev.explore(thunk) if max_paths is None else self.ev.explore(thunk, max_paths)
        if chk is not None:
            chk.paths(len(outs))
        return outs

    def fn(self, qualname):
        return self.ev.make_function(self.db.function(qualname), None) if "." in qualname else None

    def call_named(self, fv, named, extra_kwargs=None):
        """Call a (private) helper by the NAMES of its parameters when the function has them (robust against re-ordered or
        keyword-only parameters); falls back to the recorded positional order otherwise.  `named` is an ordered list of (name, value)."""
        fi = getattr(fv, "fi", None)
        kw = dict(extra_kwargs or {})
        if fi is not None:
            a = fi.node.args
            have = {p.arg for p in a.posonlyargs + a.args + a.kwonlyargs}
            # a boolean flag may be declared under its mirrored name with the opposite polarity (left_continuous / right_continuous,
            # increasing / decreasing): the role is the same, the constant is negated
            mirrored = []
            for n, v in named:
                if n not in have and n in ANTONYMS and ANTONYMS[n] in have and isinstance(v, Const) and isinstance(v.value, bool):
                    mirrored.append((ANTONYMS[n], Const(not v.value)))
                else:
                    mirrored.append((n, v))
            named = mirrored
            if all(n in have for n, _v in named) and not a.posonlyargs:
                kw.update({n: v for n, v in named})
                return self.ev.call(fv, [], kw)
        return self.ev.call(fv, [v for _n, v in named], kw)

    def where(self, qualname):
        try:
            return self.db.function(qualname).where()
        except AnalysisError:
            return qualname


ANTONYMS = {"left_continuous": "right_continuous", "right_continuous": "left_continuous", "increasing": "decreasing", "decreasing": "increasing",
            "ascending": "descending", "descending": "ascending"}


def cell(ev, matrix, ij):
    from . import libmodel

    return libmodel.getitem(ev, matrix, Tup([Const(Ellipsis), Const(ij[0]), Const(ij[1])]))


def returns(outs):
    return [o for o in outs if o.kind == "return"]


def raises(outs):
    return [o for o in outs if o.kind == "raise"]


def pc_text(o):
    return " & ".join(("" if t else "not ") + show(c, 120) for c, t in o.pc) or "true"


def exc_name(o):
    v = o.value
    return v.fn if isinstance(v, App) else str(v)


def unmodelled_text(o):
    return ", ".join("%s@%s" % (w, l) for w, l in o.unmodelled)
