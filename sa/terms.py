"""
Immutable value terms and the algebraic normal form (engine E1, value layer).

Every value the abstract evaluator computes is a `V`.  Numeric values are kept in a
normal form: multivariate polynomials with rational coefficients over *atoms*
(opaque symbols and uninterpreted applications).  Equality of two numeric terms is
decided by `is_zero(a - b)` which also clears `inv(d)` atoms by cross-multiplication,
so `H/(H+E)` and `1 - E/(H+E)` are recognised as equal.  No solver is involved.
"""
from __future__ import annotations

from fractions import Fraction
import itertools
import math

_top_counter = itertools.count()


class V:
    """Base of immutable values; identity is the canonical key string."""

    __slots__ = ("key",)

    def __eq__(self, other):
        return isinstance(other, V) and self.key == other.key

    def __ne__(self, other):
        return not self.__eq__(other)

    def __hash__(self):
        return hash(self.key)

    def __repr__(self):
        return self.key

    def __deepcopy__(self, memo):
        return self


class Const(V):
    __slots__ = ("value",)

    def __init__(self, value):
        if isinstance(value, float) and math.isfinite(value):
            value = Fraction(value)
        if isinstance(value, Fraction) and value.denominator == 1:
            value = int(value)
        self.value = value
        self.key = "c:%s" % (value,) if isinstance(value, Fraction) else "c:%r" % (value,)

    def is_number(self):
        return isinstance(self.value, (int, float, Fraction)) and not isinstance(self.value, bool)


class Sym(V):
    __slots__ = ("name", "tags")

    def __init__(self, name, tags=()):
        self.name = name
        self.tags = frozenset(tags)
        self.key = "$" + name


class Top(V):
    """Unknown value.  Each Top is distinct; it poisons facts that depend on it."""

    __slots__ = ("reason",)

    def __init__(self, reason=""):
        self.reason = reason
        self.key = "TOP#%d<%s>" % (next(_top_counter), reason)


class EnumM(V):
    __slots__ = ("cls", "name", "value")

    def __init__(self, cls, name, value):
        self.cls, self.name, self.value = cls, name, value
        self.key = "enum:%s.%s" % (cls, name)


class Tup(V):
    __slots__ = ("items",)

    def __init__(self, items):
        self.items = tuple(items)
        self.key = "(" + ",".join(i.key for i in self.items) + ",)"


class Vec(Tup):
    """Small numeric array literal (np.array([...])): arithmetic is elementwise, unlike a Python tuple."""

    __slots__ = ()

    def __init__(self, items):
        Tup.__init__(self, items)
        self.key = "vec" + self.key


class Star(V):
    __slots__ = ("inner",)

    def __init__(self, inner):
        self.inner = inner
        self.key = "*" + inner.key


class App(V):
    """Application of a modelled / uninterpreted operator to canonical arguments."""

    __slots__ = ("fn", "args", "kw")

    def __init__(self, fn, args=(), kw=()):
        self.fn = fn
        self.args = tuple(args)
        self.kw = tuple(sorted(kw, key=lambda p: p[0]))
        s = fn + "(" + ",".join(a.key for a in self.args)
        if self.kw:
            s += ";" + ",".join("%s=%s" % (k, v.key) for k, v in self.kw)
        self.key = s + ")"

    def kwd(self, name, default=None):
        for k, v in self.kw:
            if k == name:
                return v
        return default


class Num(V):
    __slots__ = ("poly",)

    def __init__(self, poly):
        self.poly = poly
        self.key = "n:" + poly.key()


# --------------------------------------------------------------------------- polynomials


class Poly:
    """dict monomial -> Fraction; monomial = tuple of (atom, exponent) sorted by atom key."""

    __slots__ = ("t", "_key")

    def __init__(self, t=None):
        self.t = {m: c for m, c in (t or {}).items() if c != 0}
        self._key = None

    @staticmethod
    def const(c):
        return Poly({(): Fraction(c)}) if c != 0 else Poly()

    @staticmethod
    def atom(a, e=1):
        return Poly({((a, e),): Fraction(1)})

    def key(self):
        if self._key is None:
            parts = []
            for m, c in sorted(self.t.items(), key=lambda mc: _mono_key(mc[0])):
                parts.append("%s*%s" % (c, _mono_key(m)))
            self._key = "[" + " + ".join(parts) + "]"
        return self._key

    def is_const(self):
        return all(m == () for m in self.t)

    def const_value(self):
        return self.t.get((), Fraction(0))

    def __add__(self, o):
        t = dict(self.t)
        for m, c in o.t.items():
            t[m] = t.get(m, 0) + c
        return Poly(t)

    def __neg__(self):
        return Poly({m: -c for m, c in self.t.items()})

    def __sub__(self, o):
        return self + (-o)

    def scale(self, k):
        k = Fraction(k)
        return Poly({m: c * k for m, c in self.t.items()})

    def __mul__(self, o):
        t = {}
        for m1, c1 in self.t.items():
            for m2, c2 in o.t.items():
                m = _mono_mul(m1, m2)
                t[m] = t.get(m, 0) + c1 * c2
        return Poly(t)

    def pow(self, n):
        r = Poly.const(1)
        for _ in range(n):
            r = r * self
        return r

    def atoms(self):
        s = set()
        for m in self.t:
            for a, _e in m:
                s.add(a)
        return s

    def single_monomial(self):
        if len(self.t) == 1:
            return next(iter(self.t.items()))
        return None

    def as_atom(self):
        sm = self.single_monomial()
        if sm and sm[1] == 1 and len(sm[0]) == 1 and sm[0][0][1] == 1:
            return sm[0][0][0]
        return None

    def subst(self, mapping):
        """Substitute atoms by polynomials (mapping atom -> Poly)."""
        r = Poly()
        for m, c in self.t.items():
            term = Poly.const(c)
            for a, e in m:
                if a in mapping:
                    p = mapping[a]
                    if e < 0:
                        term = term * inv_poly(p).pow(-e)
                    else:
                        term = term * p.pow(e)
                else:
                    term = term * Poly({((a, e),): Fraction(1)})
            r = r + term
        return r


def _mono_key(m):
    return ".".join("%s^%d" % (a.key, e) if e != 1 else a.key for a, e in m) or "1"


def _mono_mul(m1, m2):
    d = {}
    for a, e in m1:
        d[a] = d.get(a, 0) + e
    for a, e in m2:
        d[a] = d.get(a, 0) + e
    # inv(d)-atoms: inv(p)^k * (the monomial p itself) is not simplified here (done in is_zero)
    return tuple(sorted(((a, e) for a, e in d.items() if e != 0), key=lambda ae: ae[0].key))


def inv_poly(p):
    """1/p as a polynomial (negative exponents for monomials, inv-atoms otherwise)."""
    sm = p.single_monomial()
    if sm is not None:
        m, c = sm
        return Poly({tuple((a, -e) for a, e in m): 1 / c})
    # normalise content so that inv(2x+2y) == 1/2 inv(x+y)
    lead = sorted(p.t.items(), key=lambda mc: _mono_key(mc[0]))[0][1]
    q = p.scale(1 / lead)
    return Poly({((App("inv", (mk_num(q),)), 1),): 1 / lead})


def to_poly(v):
    """Numeric view of a value, or None when it is not numeric-like."""
    if isinstance(v, Num):
        return v.poly
    if isinstance(v, Const):
        x = v.value
        if isinstance(x, bool):
            return Poly.const(int(x))
        if isinstance(x, (int, Fraction)):
            return Poly.const(x)
        if isinstance(x, float):
            if math.isfinite(x):
                return Poly.const(Fraction(x))
            if math.isnan(x):
                return Poly.atom(NAN)
            return Poly.atom(INF) if x > 0 else -Poly.atom(INF)
        return None
    if isinstance(v, (Sym, App, Top)):
        return Poly.atom(v)
    return None


def mk_num(p):
    if p.is_const():
        return Const(p.const_value())
    a = p.as_atom()
    if a is not None:
        return a
    return Num(p)


INF = Sym("inf")
NAN = Sym("nan")


def num(x):
    """Convenience: python number / V -> V."""
    if isinstance(x, V):
        return x
    return Const(x)


def add(a, b):
    return mk_num(to_poly(num(a)) + to_poly(num(b)))


def sub(a, b):
    return mk_num(to_poly(num(a)) - to_poly(num(b)))


def mul(a, b):
    return mk_num(to_poly(num(a)) * to_poly(num(b)))


def neg(a):
    return mk_num(-to_poly(num(a)))


def div(a, b):
    pb = to_poly(num(b))
    if pb.is_const() and pb.const_value() == 0:
        return Top("division by zero")
    return mk_num(to_poly(num(a)) * inv_poly(pb))


def powv(a, n):
    pa = to_poly(num(a))
    if isinstance(n, V):
        pn = to_poly(n)
        if pn is not None and pn.is_const() and pn.const_value().denominator == 1:
            n = int(pn.const_value())
        else:
            return App("pow", (mk_num(pa), n))
    if isinstance(n, int):
        if n >= 0:
            return mk_num(pa.pow(n))
        return mk_num(inv_poly(pa).pow(-n))
    return App("pow", (mk_num(pa), Const(n)))


def clear_inverses(p, limit=8):
    """Multiply out inv(d) atoms: returns a polynomial that is zero iff p is (given d != 0)."""
    for _ in range(limit):
        invs = [a for a in p.atoms() if isinstance(a, App) and a.fn == "inv"]
        # also negative powers of plain atoms
        negs = {}
        for m in p.t:
            for a, e in m:
                if e < 0 and not (isinstance(a, App) and a.fn == "inv"):
                    negs[a] = min(negs.get(a, 0), e)
        if not invs and not negs:
            return p
        if negs:
            mult = Poly({tuple(sorted(((a, -e) for a, e in negs.items()), key=lambda ae: ae[0].key)): Fraction(1)})
            p = p * mult
            continue
        u = sorted(invs, key=lambda a: len(a.key))[-1]
        d = to_poly(u.args[0])
        k = 0
        for m in p.t:
            for a, e in m:
                if a == u:
                    k = max(k, e)
                    if e < 0:
                        # inv(d)^-e == d^e
                        pass
        r = Poly()
        for m, c in p.t.items():
            e_u = 0
            rest = []
            for a, e in m:
                if a == u:
                    e_u = e
                else:
                    rest.append((a, e))
            base = Poly({tuple(rest): c})
            if e_u >= 0:
                r = r + base * d.pow(k - e_u)
            else:
                r = r + base * d.pow(k - e_u)
        p = r
    return p


def is_zero(v):
    p = to_poly(num(v))
    if p is None:
        return False
    if not p.t:
        return True
    return not clear_inverses(p).t


def same(a, b):
    """Semantic equality of two values under the normal form."""
    if a.key == b.key:
        return True
    pa, pb = to_poly(a), to_poly(b)
    if pa is not None and pb is not None:
        return is_zero(mk_num(pa - pb))
    if isinstance(a, Tup) and isinstance(b, Tup) and len(a.items) == len(b.items):
        return all(same(x, y) for x, y in zip(a.items, b.items))
    if isinstance(a, App) and isinstance(b, App) and a.fn == b.fn and len(a.args) == len(b.args) and len(a.kw) == len(b.kw):
        return all(same(x, y) for x, y in zip(a.args, b.args)) and all(
            k1 == k2 and same(v1, v2) for (k1, v1), (k2, v2) in zip(a.kw, b.kw)
        )
    return False


def const_of(v):
    """Python constant of a Const / constant Num, else raises KeyError."""
    if isinstance(v, Const):
        return v.value
    p = to_poly(v)
    if p is not None and p.is_const():
        c = p.const_value()
        return int(c) if c.denominator == 1 else c
    raise KeyError(v)


def is_const(v):
    try:
        const_of(v)
        return True
    except KeyError:
        return False


# --------------------------------------------------------------------------- booleans

TRUE = Const(True)
FALSE = Const(False)


def _sign_of_const_poly(p):
    return p.const_value()


def cmp0(op, p):
    """Canonical comparison `p op 0` for op in lt, le, eq, ne (p a Poly)."""
    if p.is_const():
        c = p.const_value()
        return Const({"lt": c < 0, "le": c <= 0, "eq": c == 0, "ne": c != 0}[op])
    if 1 <= len(p.t) <= 2 and any(len(m) == 1 and m[0][0] == INF and m[0][1] == 1 for m in p.t) and all(m == () or (len(m) == 1 and m[0][0] == INF and m[0][1] == 1) for m in p.t):
        # k*inf + c: the sign of k decides (inf >= -inf, 3 < inf)
        k = next(c for m, c in p.t.items() if m != ())
        if k != 0:
            return Const({"lt": k < 0, "le": k < 0, "eq": False, "ne": True}[op])
    if op == "lt" and _nonneg_poly(p):
        return FALSE
    if op == "le" and _nonneg_poly(-p) and False:
        return TRUE
    if op in ("eq", "ne"):
        # sign-normalise: make the first coefficient positive
        lead = sorted(p.t.items(), key=lambda mc: _mono_key(mc[0]))[0][1]
        if lead < 0:
            p = -p
    return App(op + "0", (mk_num(p),))


NONNEG_FNS = {"len", "ndim", "size", "count_lt", "count_le", "abs", "sqrt"}


def _nonneg_poly(p):
    """All coefficients >= 0 over atoms that are non-negative by construction."""
    for m, c in p.t.items():
        if c < 0:
            return False
        for a, e in m:
            if not (isinstance(a, App) and a.fn in NONNEG_FNS) and not (isinstance(a, Sym) and "nonneg" in a.tags) and not (e % 2 == 0):
                return False
    return True


def compare(op, a, b):
    """a op b with op a python comparison token."""
    pa, pb = to_poly(a), to_poly(b)
    if pa is None or pb is None:
        if op in ("==", "!="):
            if _is_ground(a) and _is_ground(b):
                r = a.key == b.key
                return Const(r if op == "==" else not r)
            for g_, t_ in ((a, b), (b, a)):
                # a ground value compared with a choice between ground values is the choice's condition (or its negation, or a constant)
                if _is_ground(g_) and isinstance(t_, App) and t_.fn == "ite" and len(t_.args) == 3 and _is_ground(t_.args[1]) and _is_ground(t_.args[2]):
                    r1, r2 = (g_.key == t_.args[1].key) == (op == "=="), (g_.key == t_.args[2].key) == (op == "==")
                    if r1 == r2:
                        return Const(r1)
                    return t_.args[0] if r1 else negate(t_.args[0])
            x, y = sorted((a, b), key=lambda v: v.key)
            r = App("eq", (x, y))
            return r if op == "==" else negate(r)
        return App("cmp" + op, (a, b))
    d = pa - pb
    if op == "<":
        return cmp0("lt", d)
    if op == "<=":
        return cmp0("le", d)
    if op == ">":
        return cmp0("lt", -d)
    if op == ">=":
        return cmp0("le", -d)
    if op == "==":
        return cmp0("eq", d)
    if op == "!=":
        return cmp0("ne", d)
    raise ValueError(op)


def _is_ground(v):
    if isinstance(v, (Const, EnumM)):
        return True
    if isinstance(v, Tup):
        return all(_is_ground(i) for i in v.items)
    return False


def negate(c):
    if isinstance(c, Const):
        return Const(not c.value)
    if isinstance(c, App):
        if c.fn == "not":
            return c.args[0]
        if c.fn == "lt0":
            return cmp0("le", -to_poly(c.args[0]))
        if c.fn == "le0":
            return cmp0("lt", -to_poly(c.args[0]))
        if c.fn == "eq0":
            return App("ne0", c.args)
        if c.fn == "ne0":
            return App("eq0", c.args)
        if c.fn == "and":
            return disj([negate(a) for a in c.args])
        if c.fn == "or":
            return conj([negate(a) for a in c.args])
    return App("not", (c,))


def _flat(fn, items):
    out = []
    for i in items:
        if isinstance(i, App) and i.fn == fn:
            out.extend(i.args)
        else:
            out.append(i)
    return out


def conj(items):
    items = _flat("and", items)
    res = []
    for i in items:
        if isinstance(i, Const):
            if not i.value:
                return FALSE
            continue
        if i not in res:
            res.append(i)
    for i in res:
        if negate(i) in res:
            return FALSE
    if not res:
        return TRUE
    if len(res) == 1:
        return res[0]
    return App("and", sorted(res, key=lambda v: v.key))


def disj(items):
    items = _flat("or", items)
    res = []
    for i in items:
        if isinstance(i, Const):
            if i.value:
                return TRUE
            continue
        if i not in res:
            res.append(i)
    for i in res:
        if negate(i) in res:
            return TRUE
    if not res:
        return FALSE
    if len(res) == 1:
        return res[0]
    return App("or", sorted(res, key=lambda v: v.key))


BOOL_FNS = {"lt0", "le0", "eq0", "ne0", "and", "or", "not", "eq", "isnan", "isfinite", "notnan", "all", "any", "m:all", "m:any",
            "isscalar", "isclose", "in", "isinstance", "callable", "is_none", "truthy", "array_equal", "hasattr", "allclose", "loop_returns", "issubdtype", "can_cast", "isinf", "isposinf", "isneginf", "isin"}


def is_boolish(v):
    return (isinstance(v, Const) and isinstance(v.value, bool)) or (
        isinstance(v, App) and v.fn in BOOL_FNS
    )


def ite(c, a, b):
    if isinstance(c, Const):
        return a if c.value else b
    if a == b:
        return a
    # nested selections with a shared arm are one selection: `if c1: if c2: x = a` is `if c1 and c2: x = a`
    if isinstance(a, App) and a.fn == "ite" and len(a.args) == 3 and a.args[2] == b:
        return ite(conj([c, a.args[0]]), a.args[1], b)
    if isinstance(b, App) and b.fn == "ite" and len(b.args) == 3 and b.args[1] == a:
        return ite(disj([c, b.args[0]]), a, b.args[2])
    # a selection by comparison of its own arms is their minimum / maximum: `if a < b: x = a else: x = b`
    if isinstance(c, App) and c.fn in ("lt0", "le0") and len(c.args) == 1:
        pa, pb, pc_ = to_poly(a), to_poly(b), to_poly(c.args[0])
        if pa is not None and pb is not None and pc_ is not None and not (pa - pb).is_const():
            from .simp import mk_app
            if pc_.t == (pa - pb).t:
                return mk_app("min", [a, b])
            if pc_.t == (pb - pa).t:
                return mk_app("max", [a, b])
    return App("ite", (c, a, b))


def walk(v, f):
    """Pre-order walk over a term (descends into Num atoms, App args, Tup items)."""
    f(v)
    if isinstance(v, Num):
        for a in v.poly.atoms():
            walk(a, f)
    elif isinstance(v, App):
        for a in v.args:
            walk(a, f)
        for _k, a in v.kw:
            walk(a, f)
    elif isinstance(v, Tup):
        for a in v.items:
            walk(a, f)
    elif isinstance(v, Star):
        walk(v.inner, f)


def atoms_of(v):
    out = []
    walk(v, lambda x: out.append(x) if isinstance(x, (Sym, App, Top)) else None)
    return out


def contains(v, pred):
    found = []

    def f(x):
        if pred(x):
            found.append(x)

    walk(v, f)
    return bool(found)


def has_top(v):
    return contains(v, lambda x: isinstance(x, Top))


def subst(v, mapping):
    """Substitute values for atoms (mapping: V -> V), re-normalising."""
    if v in mapping:
        return mapping[v]
    if isinstance(v, Num):
        pm = {}
        for a in v.poly.atoms():
            na = subst(a, mapping)
            if na != a:
                p = to_poly(na)
                if p is None:
                    return Top("subst non-numeric")
                pm[a] = p
        return mk_num(v.poly.subst(pm)) if pm else v
    if isinstance(v, App):
        from .simp import mk_app  # late import (simplifier depends on terms)

        return mk_app(v.fn, [subst(a, mapping) for a in v.args], [(k, subst(a, mapping)) for k, a in v.kw])
    if isinstance(v, Tup):
        return Tup([subst(a, mapping) for a in v.items])
    if isinstance(v, Star):
        return Star(subst(v.inner, mapping))
    return v


def show(v, limit=400):
    s = pretty(v)
    return s if len(s) <= limit else s[: limit - 3] + "..."


def pretty(v):
    if isinstance(v, Const):
        if isinstance(v.value, Fraction):
            return str(v.value) if v.value.denominator < 10**6 else repr(float(v.value))
        return repr(v.value)
    if isinstance(v, Sym):
        return v.name
    if isinstance(v, Top):
        return "?(%s)" % v.reason
    if isinstance(v, EnumM):
        return "%s.%s" % (v.cls.split(".")[-1], v.name)
    if isinstance(v, Tup):
        return "(" + ", ".join(pretty(i) for i in v.items) + ")"
    if isinstance(v, Star):
        return "*" + pretty(v.inner)
    if isinstance(v, Num):
        parts = []
        for m, c in sorted(v.poly.t.items(), key=lambda mc: _mono_key(mc[0])):
            ms = "*".join((pretty(a) if e == 1 else "%s^%d" % (pretty(a), e)) for a, e in m)
            if not ms:
                parts.append(str(c))
            elif c == 1:
                parts.append(ms)
            elif c == -1:
                parts.append("-" + ms)
            else:
                parts.append("%s*%s" % (c, ms))
        return "(" + " + ".join(parts) + ")"
    if isinstance(v, App):
        a = ", ".join(pretty(x) for x in v.args)
        k = ", ".join("%s=%s" % (n, pretty(x)) for n, x in v.kw)
        return "%s(%s)" % (v.fn, ", ".join(p for p in (a, k) if p))
    return repr(v)
