"""
Verdict collection, known findings, evidence and exit codes (DESIGN §1.2, §7).

HOLDS      -> counted in evidence
VIOLATION  -> `VIOLATION property=<id> replay=<path>` and exit 1 unless listed as known finding
INCONCLUSIVE / internal error -> `ANALYSIS-ERROR ...`, exit 2 (never a VIOLATION line)
"""
from __future__ import annotations

import hashlib
import json
import re
import os
import sys
import time
import traceback

VERIF = os.path.dirname(os.path.dirname(os.path.abspath(__file__)))
KNOWN_FINDINGS = os.path.join(VERIF, "known_findings.json")
STANDING_ASSUMPTIONS = ["numpy / scipy / pandas behave as sa/libmodel.py says", "declared easy counts are non-negative integers",
                        "loggers, clocks, warning filters and np.errstate neither produce nor change values"]


def load_known(pid):
    if not os.path.exists(KNOWN_FINDINGS):
        return {}
    with open(KNOWN_FINDINGS) as f:
        data = json.load(f)
    out = {}
    for e in data.get("findings", []):
        if e.get("property") == pid and e.get("status") == "known":
            out[e["key"]] = e
    return out


class Check:
    def __init__(self, pid, tier, level, seed=0):
        self.pid, self.tier, self.level, self.seed = pid, tier, level, seed
        self.t0 = time.time()
        self.holds = []        # (rule, key, fact)
        self.violations = []   # dict
        self.inconclusive = [] # (rule, msg)
        self.floors = {}       # rule -> (min, what)
        self.counts = {}       # rule -> instances analysed
        self.evaluations = 0   # evaluator paths explored
        self.trusted = set()
        self.explanation = ""
        self.rule_text = ""
        self.extra = {}
        self.samples = []
        self.assumptions = []
        self.analysed = {}
        self._seen = set()

    # ---- recording
    def _count(self, rule):
        self.counts[rule] = self.counts.get(rule, 0) + 1

    def hold(self, rule, instance, fact="", nontrivial=True):
        k = "%s:%s" % (rule, instance)
        if k in self._seen:
            return
        self._seen.add(k)
        self._count(rule)
        self.holds.append((rule, "%s:%s" % (rule, instance), str(fact), nontrivial))

    def violation(self, rule, construct, instance, derived, expected, where="", note=""):
        key = "%s:%s:%s" % (rule, construct, instance)
        if key in self._seen:
            return
        if re.search(r"ext:[\w\.:]+\(", str(derived)):
            # safety net: the derived fact contains a library application the model does not interpret (`ext:<name>`); a mismatch with the
            # expectation then says nothing about the code. Not decided (exit 2), never an alarm.
            self.unknown(rule, "%s: derived fact goes through an unmodelled library call: %s" % (instance, str(derived)[:200]))
            return
        self._seen.add(key)
        self._count(rule)
        self.violations.append({"rule": rule, "construct": construct, "instance": instance, "key": key,
                                "derived": str(derived), "expected": str(expected), "where": where, "note": note})

    def unknown(self, rule, msg):
        self.inconclusive.append((rule, msg))

    def floor(self, rule, minimum, what=""):
        self.floors[rule] = (minimum, what)

    def paths(self, n):
        self.evaluations += n

    # ---- finishing
    def finish(self):
        for rule, (minimum, what) in self.floors.items():
            if self.counts.get(rule, 0) < minimum:
                self.unknown(rule, "only %d instance(s) analysed, hand-confirmed floor is %d (%s)" % (self.counts.get(rule, 0), minimum, what))
        known = load_known(self.pid)
        unlisted = []
        listed = []
        seen_known = set()
        for v in self.violations:
            if v["key"] in known:
                listed.append(v)
                seen_known.add(v["key"])
            else:
                unlisted.append(v)
        lines = []
        for v in listed:
            if v["key"] in seen_known:
                pass
        printed = set()
        for v in listed:
            if v["key"] in printed:
                continue
            printed.add(v["key"])
            lines.append("KNOWN-FINDING: property=%s %s [%s]" % (self.pid, known[v["key"]].get("what", v["key"]), v["key"]))
        replay_paths = []
        for v in unlisted:
            rp = self.write_replay(v)
            replay_paths.append(rp)
            lines.append("VIOLATION property=%s replay=%s" % (self.pid, rp))
            lines.append("  rule %s at %s: %s" % (v["rule"], v["where"] or v["construct"], v["instance"]))
            lines.append("    derived : %s" % v["derived"][:600])
            lines.append("    expected: %s" % v["expected"][:600])
            if v["note"]:
                lines.append("    note    : %s" % v["note"])
        for rule, msg in self.inconclusive:
            lines.append("ANALYSIS-ERROR property=%s rule=%s %s" % (self.pid, rule, msg))
        code = 1 if unlisted else (2 if self.inconclusive else 0)
        self.write_evidence(len(unlisted), listed)
        n_hold = len(self.holds)
        lines.append("%s %s tier=%s: %d obligations, %d hold, %d violation(s) (%d known), %d inconclusive, %d evaluator paths, %.2fs" % (
            self.pid, {0: "OK", 1: "VIOLATED", 2: "INCONCLUSIVE"}[code], self.tier,
            n_hold + len(self.violations), n_hold, len(self.violations), len(listed), len(self.inconclusive), self.evaluations, time.time() - self.t0))
        print("\n".join(lines))
        return code

    def write_replay(self, v):
        d = os.path.join(os.environ.get("VERIF_OUT_DIR", VERIF), "replay", self.pid)
        os.makedirs(d, exist_ok=True)
        h = hashlib.sha256(v["key"].encode()).hexdigest()[:12]
        p = os.path.join(d, h + ".json")
        with open(p, "w") as f:
            json.dump({"property": self.pid, **v,
                       "explain_cmd": "/venv/bin/python /verif/check.py %s --explain '%s'" % (self.pid, v["key"])}, f, indent=1)
        return p

    def write_evidence(self, n_viol, listed):
        d = os.path.join(os.environ.get("VERIF_OUT_DIR", VERIF), "evidence")
        os.makedirs(d, exist_ok=True)
        distinct = len({k for (_r, k, _f, nt) in self.holds if nt})
        samples = self.samples or [{"obligation": k, "derived_fact": f} for (_r, k, f, nt) in self.holds if f][:12]
        if not samples:
            samples = [{"obligation": k} for (_r, k, _f, _nt) in self.holds][:5] or ["no obligation analysed"]
        cov = {
            "obligations": len(self.holds) + len(self.violations),
            "discharged": len(self.holds),
            "evaluations": max(self.evaluations, len(self.holds) + len(self.violations)),
            "distinct_nontrivial": distinct,
            "rule": self.rule_text,
            "samples": samples,
            "explanation": self.explanation,
            "checker_cmd": "/venv/bin/python /verif/check.py %s --tier %s" % (self.pid, self.tier),
            "trusted_base": sorted(self.trusted),
            "exhaustive": True,
            "per_rule_instances": dict(sorted(self.counts.items())),
            "analysed": self.analysed,
            "known_findings_reported": sorted({v["key"] for v in listed}),
            "inconclusive": ["%s: %s" % (r, m) for r, m in self.inconclusive],
        }
        cov.update(self.extra)
        ev = {"property_id": self.pid, "tier": self.tier, "seed": self.seed, "level": self.level,
              "coverage": cov, "assumptions": list(self.assumptions) + STANDING_ASSUMPTIONS, "wall_s": round(time.time() - self.t0, 3),
              "violations": n_viol}
        with open(os.path.join(d, self.pid + ".json"), "w") as f:
            json.dump(ev, f, indent=1, default=str)


def run_check(pid, tier, level, body, seed=0):
    """Run `body(check)` fail-closed: any exception is an ANALYSIS-ERROR (exit 2)."""
    from .progdb import AnalysisError

    chk = Check(pid, tier, level, seed)
    try:
        body(chk)
    except AnalysisError as e:
        chk.unknown("engine", "cannot derive fact: %s" % e)
    except RecursionError as e:
        chk.unknown("engine", "recursion limit: %s" % e)
    except Exception as e:  # noqa: BLE001
        tb = traceback.format_exc().strip().splitlines()
        chk.unknown("engine", "internal error %s: %s | %s" % (type(e).__name__, e, " / ".join(tb[-6:])))
    try:
        return chk.finish()
    except Exception as e:  # noqa: BLE001
        print("ANALYSIS-ERROR property=%s rule=report %s: %s" % (pid, type(e).__name__, e))
        return 2
