"""
May-alias analysis for array parameters (syntax-directed, flow-sensitive, intraprocedural).

The term language of the evaluator numbers VALUES: `sf(isf(x))` and `x` are the same term, so it cannot tell a freshly
computed array from the caller's own buffer.  Whether a returned object SHARES STORAGE with an argument is a property of
the code's shape, decided here: a name may alias a parameter when it is bound to the parameter itself or to a numpy
no-copy view of something that may alias it (np.asarray / asanyarray / atleast_nd / ravel / reshape / squeeze /
transpose, `.T`, `.view()`, basic slices).  Any other call, arithmetic, or advanced index yields a fresh array.
Branches are joined by union, loops are iterated to a fixed point (two passes suffice: the lattice is a set of
parameter names per variable and transfer functions only propagate).
"""
from __future__ import annotations

import ast

VIEW_FUNCS = {"asarray", "asanyarray", "atleast_1d", "atleast_2d", "ravel", "reshape", "squeeze", "transpose", "swapaxes", "moveaxis", "expand_dims",
              "ascontiguousarray", "broadcast_to", "array"}   # np.array(x, copy=False) handled below
VIEW_METHODS = {"reshape", "ravel", "view", "squeeze", "transpose", "swapaxes"}


def _basic_index(s):
    if isinstance(s, ast.Slice):
        return True
    if isinstance(s, ast.Constant):
        return s.value is Ellipsis or s.value is None
    if isinstance(s, ast.Tuple):
        return all(_basic_index(e) or (isinstance(e, ast.Constant) and isinstance(e.value, int)) for e in s.elts) and any(isinstance(e, ast.Slice) or (isinstance(e, ast.Constant) and e.value is Ellipsis) for e in s.elts)
    return False


# helpers whose RESULT may share storage with some of their parameters: {bare name: (parameter names, {aliased parameter names})};
# filled by `register_helpers` from the repository's own functions (one call level)
HELPER_RETURNS = {}


def alias_of(e, state):
    if isinstance(e, ast.Call):
        f0 = e.func
        nm0 = f0.id if isinstance(f0, ast.Name) else f0.attr if isinstance(f0, ast.Attribute) else None
        if nm0 in HELPER_RETURNS and not (isinstance(f0, ast.Attribute) and isinstance(f0.value, ast.Name) and f0.value.id in ("np", "numpy")):
            params, aliased = HELPER_RETURNS[nm0]
            out = set()
            for i, a in enumerate(e.args):
                if i < len(params) and params[i] in aliased:
                    out |= alias_of(a, state)
            for k in e.keywords:
                if k.arg in aliased:
                    out |= alias_of(k.value, state)
            return out
    if isinstance(e, (ast.Tuple, ast.List)):
        return set().union(*[alias_of(x, state) for x in e.elts]) if e.elts else set()
    if isinstance(e, ast.Name):
        return set(state.get(e.id, ()))
    if isinstance(e, ast.IfExp):
        return alias_of(e.body, state) | alias_of(e.orelse, state)
    if isinstance(e, ast.NamedExpr):
        return alias_of(e.value, state)
    if isinstance(e, ast.Attribute) and e.attr == "T":
        return alias_of(e.value, state)
    if isinstance(e, ast.Subscript):
        return alias_of(e.value, state) if _basic_index(e.slice) else set()
    if isinstance(e, ast.Call):
        f = e.func
        if isinstance(f, ast.Attribute) and isinstance(f.value, ast.Name) and f.value.id in ("np", "numpy") and f.attr in VIEW_FUNCS and e.args:
            if f.attr == "array" and not any(k.arg == "copy" and isinstance(k.value, ast.Constant) and k.value.value is False for k in e.keywords):
                return set()
            if any(k.arg == "copy" and isinstance(k.value, ast.Constant) and k.value.value is True for k in e.keywords):
                return set()
            return alias_of(e.args[0], state)
        if isinstance(f, ast.Attribute) and f.attr in VIEW_METHODS:
            return alias_of(f.value, state)
        if isinstance(f, ast.Attribute) and f.attr == "astype" and any(k.arg == "copy" and isinstance(k.value, ast.Constant) and k.value.value is False for k in e.keywords):
            return alias_of(f.value, state)
        return set()
    return set()


def _join(a, b):
    out = {}
    for k in set(a) | set(b):
        out[k] = set(a.get(k, ())) | set(b.get(k, ()))
    return out


def _bind(target, val, state):
    if isinstance(target, ast.Name):
        state[target.id] = set(val)
    elif isinstance(target, (ast.Tuple, ast.List)):
        for t in target.elts:
            _bind(t, set(val), state)   # unpacking a call result: fresh unless the callee is a registered helper whose result aliases its arguments


class Analysis:
    def __init__(self, fn_node, params=None):
        self.fn = fn_node
        names = [a.arg for a in fn_node.args.posonlyargs + fn_node.args.args + fn_node.args.kwonlyargs]
        self.params = [n for n in names if n not in ("self", "cls")] if params is None else list(params)
        self.sites = []   # (call node, {slot: alias set})
        self.returned = set()   # parameters the returned value may alias

    def run(self, callee_names):
        self.callee_names = set(callee_names)
        state = {p: {p} for p in self.params}
        self.block(self.fn.body, state)
        # de-duplicate sites visited twice (loop fixed point): keep the union per call node
        merged = {}
        for node, slots in self.sites:
            m = merged.setdefault(id(node), (node, {}))[1]
            for k, v in slots.items():
                m[k] = set(m.get(k, ())) | set(v)
        return list(merged.values())

    def visit_calls(self, node, state):
        for c in [n for n in ast.walk(node) if isinstance(n, ast.Call)]:
            f = c.func
            nm = f.id if isinstance(f, ast.Name) else f.attr if isinstance(f, ast.Attribute) else None
            if nm in self.callee_names:
                slots = {}
                for i, a in enumerate(c.args):
                    slots["arg%d" % i] = alias_of(a, state)
                for k in c.keywords:
                    if k.arg is not None:
                        slots[k.arg] = alias_of(k.value, state)
                self.sites.append((c, slots))

    def block(self, body, state):
        for st in body:
            state = self.stmt(st, state)
        return state

    def stmt(self, st, state):
        if isinstance(st, (ast.FunctionDef, ast.AsyncFunctionDef, ast.ClassDef)):
            return state
        if isinstance(st, ast.Return):
            if st.value is not None:
                self.visit_calls(st.value, state)
                self.returned |= alias_of(st.value, state)
            return state
        if isinstance(st, ast.Assign):
            self.visit_calls(st.value, state)
            if len(st.targets) == 1 and isinstance(st.targets[0], (ast.Tuple, ast.List)) and isinstance(st.value, (ast.Tuple, ast.List)) \
                    and len(st.targets[0].elts) == len(st.value.elts):
                vals = [alias_of(v, state) for v in st.value.elts]
                for t, v in zip(st.targets[0].elts, vals):
                    _bind(t, v, state) if isinstance(t, ast.Name) else None
                return state
            v = alias_of(st.value, state)
            for t in st.targets:
                _bind(t, v, state)
            return state
        if isinstance(st, ast.AnnAssign):
            if st.value is not None:
                self.visit_calls(st.value, state)
                _bind(st.target, alias_of(st.value, state), state)
            return state
        if isinstance(st, ast.AugAssign):
            self.visit_calls(st.value, state)
            return state   # in-place: the name keeps its storage
        if isinstance(st, ast.If):
            self.visit_calls(st.test, state)
            a = self.block(st.body, {k: set(v) for k, v in state.items()})
            b = self.block(st.orelse, {k: set(v) for k, v in state.items()})
            return _join(a, b)
        if isinstance(st, ast.Match):
            self.visit_calls(st.subject, state)
            out = None
            for case in st.cases:
                s_ = {k: set(v) for k, v in state.items()}
                for n in ast.walk(case.pattern):        # names captured by the pattern are bound to (parts of) the subject
                    nm = getattr(n, "name", None)
                    if isinstance(n, (ast.MatchAs, ast.MatchStar)) and nm:
                        s_[nm] = alias_of(st.subject, state) if isinstance(st.subject, ast.Name) else set().union(*[alias_of(e, state) for e in getattr(st.subject, "elts", [])] or [set()])
                r = self.block(case.body, s_)
                out = r if out is None else _join(out, r)
            return _join(out or state, state)
        if isinstance(st, (ast.For, ast.While)):
            if isinstance(st, ast.For):
                self.visit_calls(st.iter, state)
                _bind(st.target, set(), state)
            s = state
            for _ in range(2):
                s = _join(s, self.block(st.body, {k: set(v) for k, v in s.items()}))
            return _join(s, self.block(st.orelse, {k: set(v) for k, v in s.items()}))
        if isinstance(st, ast.With):
            for it in st.items:
                self.visit_calls(it.context_expr, state)
            return self.block(st.body, state)
        if isinstance(st, ast.Try):
            s = self.block(st.body, {k: set(v) for k, v in state.items()})
            for h in st.handlers:
                s = _join(s, self.block(h.body, {k: set(v) for k, v in state.items()}))
            s = self.block(st.orelse, s)
            return self.block(st.finalbody, s)
        self.visit_calls(st, state)
        return state


def construction_aliases(fn_node, callee_names, params=None):
    """[(call node, {slot: set(params it may alias)})] for every call to one of `callee_names` in the function."""
    return Analysis(fn_node, params).run(callee_names)


def register_helpers(functions):
    """Computes, for the given (name, FunctionDef) pairs, which parameters each function's RESULT may alias and registers the non-trivial
    ones in HELPER_RETURNS (two rounds, so that a helper calling another helper is covered)."""
    HELPER_RETURNS.clear()
    for _ in range(2):
        for name, node in functions:
            an = Analysis(node)
            an.run(set())
            if an.returned:
                params = [a.arg for a in node.args.posonlyargs + node.args.args if a.arg not in ("self", "cls")]
                HELPER_RETURNS[name] = (params, set(an.returned))
    return dict(HELPER_RETURNS)


# --------------------------------------------------------------------------------------------------------------------------------
# Shared local buffers: two live names bound to ONE freshly allocated array, one of them updated in place.
#
# The evaluator numbers values, not objects: after `empty = np.zeros(shape); return empty, empty` both results are the same TERM and the
# caller's `tp += k` re-binds only `tp` in the term world, while at run time it also changes the array read later through the other name.
# Decided on the code's shape: abstract objects are the allocation sites of numpy calls; names carry may-point-to sets; a helper of the same
# class / module is summarised by which positions of its returned tuple may be one object.

_INPLACE_METHODS = {"sort", "fill", "put", "itemset", "partition", "resize", "setfield", "byteswap"}


def _np_call(e):
    return isinstance(e, ast.Call) and isinstance(e.func, ast.Attribute) and isinstance(e.func.value, ast.Name) and e.func.value.id in ("np", "numpy")


class _Objects:
    def __init__(self, summaries):
        self.summaries = summaries   # {helper name: [set(positions sharing one array), ...]}
        self.findings = []

    def objs(self, e, st):
        if isinstance(e, ast.Name):
            return set(st.get(e.id, ()))
        if isinstance(e, ast.IfExp):
            return self.objs(e.body, st) | self.objs(e.orelse, st)
        if isinstance(e, ast.NamedExpr):
            return self.objs(e.value, st)
        if isinstance(e, ast.Attribute) and isinstance(e.value, ast.Name):
            # a field of a record returned by a summarised helper: `counts.above`
            out = set()
            for o in st.get(e.value.id, ()):
                if o[0] == "record":
                    out.add(("field", o[1], o[2], e.attr))
                    for g, grp in enumerate(self.summaries.get(o[3], ())):
                        if e.attr in grp:
                            out.add(("shared", o[1], o[2], g, o[3]))
            return out
        if isinstance(e, ast.Call) and not _np_call(e):
            f = e.func
            nm = f.id if isinstance(f, ast.Name) else f.attr if isinstance(f, ast.Attribute) else None
            if any(isinstance(k, str) for grp in self.summaries.get(nm, ()) for k in grp):
                return {("record", e.lineno, e.col_offset, nm)}      # the helper hands back a record whose fields may be one array
        if _np_call(e):
            if e.func.attr in ("asarray", "asanyarray", "ascontiguousarray") and e.args:
                return self.objs(e.args[0], st) | {("site", e.lineno, e.col_offset)}
            return {("site", e.lineno, e.col_offset)}
        # explicit views (`col = buf[..., 0]`, `flat = m.reshape(-1)`) are written through ON PURPOSE: they are not the accidental
        # sharing this analysis looks for, and two views of one buffer may be disjoint
        return set()

    def tuple_objs(self, e, st, n):
        """Per-position object sets of an expression unpacked into n targets."""
        if isinstance(e, (ast.Tuple, ast.List)) and len(e.elts) == n:
            return [self.objs(x, st) for x in e.elts]
        if isinstance(e, ast.IfExp):
            a, b = self.tuple_objs(e.body, st, n), self.tuple_objs(e.orelse, st, n)
            return [x | y for x, y in zip(a, b)]
        if isinstance(e, ast.Call):
            f = e.func
            nm = f.id if isinstance(f, ast.Name) else f.attr if isinstance(f, ast.Attribute) else None
            out = [set() for _ in range(n)]
            for g, grp in enumerate(self.summaries.get(nm, ())):
                for i in grp:
                    if isinstance(i, int) and i < n:
                        out[i].add(("shared", e.lineno, e.col_offset, g, nm))
            return out
        return [set() for _ in range(n)]


def _returned_sharing(fn_node):
    """Groups of positions of a returned tuple that may be ONE numpy-allocated array (`return empty, empty`)."""
    groups = []
    an = _Objects({})

    def block(body, st):
        for x in body:
            st = stmt(x, st)
        return st

    def stmt(x, st):
        if isinstance(x, ast.Return) and isinstance(x.value, ast.Tuple):
            sets = [an.objs(v, st) for v in x.value.elts]
            for i in range(len(sets)):
                grp = {j for j in range(len(sets)) if sets[i] & sets[j]}
                if len(grp) > 1 and grp not in groups:
                    groups.append(grp)
            return st
        if isinstance(x, ast.Return) and isinstance(x.value, ast.Call) and x.value.keywords and not _np_call(x.value):
            # a record built in the return statement: Record(below=none, above=none)
            items = [(k.arg, an.objs(k.value, st)) for k in x.value.keywords if k.arg is not None]
            for name_i, set_i in items:
                grp = {name_j for name_j, set_j in items if set_i & set_j}
                if len(grp) > 1 and grp not in groups:
                    groups.append(grp)
            return st
        if isinstance(x, ast.Assign):
            v = an.objs(x.value, st)
            for t in x.targets:
                if isinstance(t, ast.Name):
                    st[t.id] = set(v)
            return st
        if isinstance(x, ast.If):
            a = block(x.body, {k: set(v) for k, v in st.items()})
            b = block(x.orelse, {k: set(v) for k, v in st.items()})
            return _join(a, b)
        if isinstance(x, (ast.For, ast.While, ast.With, ast.Try)):
            for sub in ("body", "orelse", "finalbody"):
                st = block(getattr(x, sub, []) or [], st)
            return st
        return st
    block(fn_node.body, {})
    return groups


def _record_class_of(fn_node):
    """Name of the class a helper builds in its return statement (`return _Counts(below=..., above=...)`), else None."""
    for n in ast.walk(fn_node):
        if isinstance(n, ast.Return) and isinstance(n.value, ast.Call) and isinstance(n.value.func, ast.Name) and n.value.keywords:
            return n.value.func.id
    return None


def shared_buffer_findings(fn_node, helpers, classes=None):
    """[(line, text)] for in-place updates of a local array that a second, later-read name may also be bound to.
    helpers: {bare name: FunctionDef} of the functions callable from fn_node whose returned tuples are summarised.
    classes: {name: ClassDef} - record classes, for fields read back through a property of the record."""
    summaries = {}
    record_of = {}
    for nm, node in helpers.items():
        g = _returned_sharing(node)
        rc = _record_class_of(node)
        if rc is not None:
            record_of[nm] = rc
            g = g or [{"__record__"}]       # a record without shared fields: still a record whose fields can be written through
        if g:
            summaries[nm] = g
    an = _Objects(summaries)
    loads = {}
    for n in ast.walk(fn_node):
        if isinstance(n, ast.Name) and isinstance(n.ctx, ast.Load):
            loads.setdefault(n.id, []).append(n.lineno)
    out = []

    # loads of record attributes with the branch conditions they sit under: `x = r.a if c else r.b` reads r.a only on the c-arm
    attr_loads = {}

    def collect(n, conds):
        if isinstance(n, ast.Attribute) and isinstance(n.value, ast.Name) and isinstance(n.ctx, ast.Load):
            attr_loads.setdefault(n.value.id, []).append((n.lineno, n.attr, tuple(conds)))
        if isinstance(n, ast.IfExp):
            t = ast.unparse(n.test)
            collect(n.test, conds)
            collect(n.body, conds + [(t, True)])
            collect(n.orelse, conds + [(t, False)])
            return
        if isinstance(n, ast.If):
            t = ast.unparse(n.test)
            collect(n.test, conds)
            for c_ in n.body:
                collect(c_, conds + [(t, True)])
            for c_ in n.orelse:
                collect(c_, conds + [(t, False)])
            return
        for c_ in ast.iter_child_nodes(n):
            collect(c_, conds)
    collect(fn_node, [])

    def property_reads(cls_name, prop, field):
        cd = (classes or {}).get(cls_name)
        if cd is None:
            return False
        for x in cd.body:
            if isinstance(x, ast.FunctionDef) and x.name == prop:
                return any(isinstance(y, ast.Attribute) and isinstance(y.value, ast.Name) and y.value.id == "self" and y.attr == field for y in ast.walk(x))
        return False

    def updated(name, st, line, how, in_loop):
        mine = st.get(name, set())
        if not mine:
            return
        # the name holds a FIELD of a record that is read again later - the same field, or a property of the record computed from it
        for o in mine:
            if o[0] != "field":
                continue
            for rname, robjs in st.items():
                rec = next((r for r in robjs if r[0] == "record" and r[1:3] == o[1:3]), None)
                if rec is None:
                    continue
                pc = st.get("__pc__", set())
                for ln, attr, conds in attr_loads.get(rname, ()):
                    if not (ln > line or in_loop):
                        continue
                    if any((t_, not arm_) in pc for t_, arm_ in conds):
                        continue        # the read sits on the other arm of a test this path has already decided
                    if attr == o[3] or property_reads(record_of.get(rec[3]), attr, o[3]):
                        out.append((line, "%s of `%s` writes into the record field `%s.%s`, which `%s.%s` (line %d) is read from afterwards" % (how, name, rname, o[3], rname, attr, ln)))
                        break
        for other, objs in st.items():
            if other == name or not (objs & mine):
                continue
            later = [ln for ln in loads.get(other, ()) if ln > line or in_loop]
            if later:
                why = sorted(objs & mine)[0]
                src = ("the array returned twice by %s()" % why[4]) if why[0] == "shared" else "the array allocated at line %d" % why[1]
                out.append((line, "%s of `%s` also changes `%s` (read again at line %d): both names may be bound to %s" % (how, name, other, later[0], src)))

    # path-sensitive over branches (a disjunction of states, joined only beyond 64): `if c: a, b = x, y  else: a, b = y, x` never binds
    # a and b to one array on the same path
    def copy(st):
        return {k: set(v) for k, v in st.items()}

    def norm(states):
        uniq = []
        for s_ in states:
            if s_ not in uniq:
                uniq.append(s_)
        if len(uniq) > 64:
            j = {}
            for s_ in uniq:
                j = _join(j, s_)
            return [j]
        return uniq

    def block(body, states, in_loop):
        for x in body:
            states = norm([r for st in states for r in stmt(x, st, in_loop)])
        return states

    def stmt(x, st, in_loop):
        if isinstance(x, (ast.FunctionDef, ast.AsyncFunctionDef, ast.ClassDef)):
            return [st]
        if isinstance(x, ast.Assign):
            if isinstance(x.value, ast.IfExp):
                # `a, b = (x, y) if c else (y, x)`: one state per arm (the arms never hold together)
                out_ = []
                t_ = ast.unparse(x.value.test)
                for arm, val_ in ((x.value.body, True), (x.value.orelse, False)):
                    if (t_, not val_) in st.get("__pc__", set()):
                        continue        # this arm contradicts a test the path has already decided
                    y = ast.Assign(targets=x.targets, value=arm)
                    ast.copy_location(y, x)
                    s2 = copy(st)
                    s2["__pc__"] = set(s2.get("__pc__", set())) | {(t_, val_)}
                    out_ += stmt(y, s2, in_loop)
                return out_
            if len(x.targets) == 1 and isinstance(x.targets[0], (ast.Tuple, ast.List)) and all(isinstance(t, ast.Name) for t in x.targets[0].elts):
                sets = an.tuple_objs(x.value, st, len(x.targets[0].elts))
                for t, s_ in zip(x.targets[0].elts, sets):
                    st[t.id] = set(s_)
                return [st]
            v = an.objs(x.value, st)
            for t in x.targets:
                if isinstance(t, ast.Name):
                    st[t.id] = set(v)
                elif isinstance(t, ast.Subscript) and isinstance(t.value, ast.Name):
                    updated(t.value.id, st, x.lineno, "the element store", in_loop)
            return [st]
        if isinstance(x, ast.AugAssign):
            if isinstance(x.target, ast.Name):
                updated(x.target.id, st, x.lineno, "the in-place update `%s`" % ast.unparse(x)[:50], in_loop)
            elif isinstance(x.target, ast.Subscript) and isinstance(x.target.value, ast.Name):
                updated(x.target.value.id, st, x.lineno, "the in-place element update", in_loop)
            return [st]
        if isinstance(x, ast.Expr) and isinstance(x.value, ast.Call):
            c = x.value
            if isinstance(c.func, ast.Attribute) and isinstance(c.func.value, ast.Name) and c.func.attr in _INPLACE_METHODS:
                updated(c.func.value.id, st, x.lineno, "%s()" % c.func.attr, in_loop)
            for k in c.keywords:
                if k.arg == "out" and isinstance(k.value, ast.Name):
                    updated(k.value.id, st, x.lineno, "out=", in_loop)
            return [st]
        if isinstance(x, ast.If):
            t_ = ast.unparse(x.test)
            outs_ = []
            for body_, val_ in ((x.body, True), (x.orelse, False)):
                if (t_, not val_) in st.get("__pc__", set()):
                    continue
                s2 = copy(st)
                s2["__pc__"] = set(s2.get("__pc__", set())) | {(t_, val_)}
                outs_ += block(body_, [s2], in_loop)
            return outs_
        if isinstance(x, (ast.For, ast.While)):
            states = [st]
            for _ in range(2):
                states = norm(states + block(x.body, [copy(s_) for s_ in states], True))
            return norm(states + block(x.orelse, [copy(s_) for s_ in states], in_loop))
        if isinstance(x, ast.With):
            return block(x.body, [st], in_loop)
        if isinstance(x, ast.Try):
            states = block(x.body, [copy(st)], in_loop)
            for h in x.handlers:
                states = states + block(h.body, [copy(st)], in_loop)
            return block(x.finalbody, block(x.orelse, norm(states), in_loop), in_loop)
        if isinstance(x, (ast.Return, ast.Raise)):
            return []
        return [st]

    block(fn_node.body, [{}], False)
    seen = set()
    res = []
    for f in out:
        if f not in seen:
            seen.add(f)
            res.append(f)
    return res
