"""
May-alias analysis for array parameters (syntax-directed, flow-sensitive, intraprocedural).

The term language of the evaluator numbers VALUES: `sf(isf(x))` and `x` are the same term, so it cannot tell a freshly
computed array from the caller's own buffer.  Whether a returned object SHARES STORAGE with an argument is a property of
the code's shape, decided here: a name may alias a parameter when it is bound to the parameter itself or to a numpy
no-copy view of something that may alias it (np.asarray / asanyarray / atleast_nd / ravel / reshape / squeeze /
transpose, `.T`, `.view()`, basic slices).  Any other call, arithmetic, or advanced index yields a fresh array.
Branches are joined by union, loops are iterated to a fixed point (two passes suffice: the lattice is a set of
parameter names per variable and transfer functions only propagate).
"""
from __future__ import annotations

import ast

VIEW_FUNCS = {"asarray", "asanyarray", "atleast_1d", "atleast_2d", "ravel", "reshape", "squeeze", "transpose", "swapaxes", "moveaxis", "expand_dims",
              "ascontiguousarray", "broadcast_to", "array"}   # np.array(x, copy=False) handled below
VIEW_METHODS = {"reshape", "ravel", "view", "squeeze", "transpose", "swapaxes"}


def _basic_index(s):
    if isinstance(s, ast.Slice):
        return True
    if isinstance(s, ast.Constant):
        return s.value is Ellipsis or s.value is None
    if isinstance(s, ast.Tuple):
        return all(_basic_index(e) or (isinstance(e, ast.Constant) and isinstance(e.value, int)) for e in s.elts) and any(isinstance(e, ast.Slice) or (isinstance(e, ast.Constant) and e.value is Ellipsis) for e in s.elts)
    return False


def alias_of(e, state):
    if isinstance(e, ast.Name):
        return set(state.get(e.id, ()))
    if isinstance(e, ast.IfExp):
        return alias_of(e.body, state) | alias_of(e.orelse, state)
    if isinstance(e, ast.NamedExpr):
        return alias_of(e.value, state)
    if isinstance(e, ast.Attribute) and e.attr == "T":
        return alias_of(e.value, state)
    if isinstance(e, ast.Subscript):
        return alias_of(e.value, state) if _basic_index(e.slice) else set()
    if isinstance(e, ast.Call):
        f = e.func
        if isinstance(f, ast.Attribute) and isinstance(f.value, ast.Name) and f.value.id in ("np", "numpy") and f.attr in VIEW_FUNCS and e.args:
            if f.attr == "array" and not any(k.arg == "copy" and isinstance(k.value, ast.Constant) and k.value.value is False for k in e.keywords):
                return set()
            if any(k.arg == "copy" and isinstance(k.value, ast.Constant) and k.value.value is True for k in e.keywords):
                return set()
            return alias_of(e.args[0], state)
        if isinstance(f, ast.Attribute) and f.attr in VIEW_METHODS:
            return alias_of(f.value, state)
        if isinstance(f, ast.Attribute) and f.attr == "astype" and any(k.arg == "copy" and isinstance(k.value, ast.Constant) and k.value.value is False for k in e.keywords):
            return alias_of(f.value, state)
        return set()
    return set()


def _join(a, b):
    out = {}
    for k in set(a) | set(b):
        out[k] = set(a.get(k, ())) | set(b.get(k, ()))
    return out


def _bind(target, val, state):
    if isinstance(target, ast.Name):
        state[target.id] = set(val)
    elif isinstance(target, (ast.Tuple, ast.List)):
        for t in target.elts:
            _bind(t, set(), state)   # unpacking a call result: fresh; unpacking a tuple literal is handled by the caller


class Analysis:
    def __init__(self, fn_node, params=None):
        self.fn = fn_node
        names = [a.arg for a in fn_node.args.posonlyargs + fn_node.args.args + fn_node.args.kwonlyargs]
        self.params = [n for n in names if n not in ("self", "cls")] if params is None else list(params)
        self.sites = []   # (call node, {slot: alias set})

    def run(self, callee_names):
        self.callee_names = set(callee_names)
        state = {p: {p} for p in self.params}
        self.block(self.fn.body, state)
        # de-duplicate sites visited twice (loop fixed point): keep the union per call node
        merged = {}
        for node, slots in self.sites:
            m = merged.setdefault(id(node), (node, {}))[1]
            for k, v in slots.items():
                m[k] = set(m.get(k, ())) | set(v)
        return list(merged.values())

    def visit_calls(self, node, state):
        for c in [n for n in ast.walk(node) if isinstance(n, ast.Call)]:
            f = c.func
            nm = f.id if isinstance(f, ast.Name) else f.attr if isinstance(f, ast.Attribute) else None
            if nm in self.callee_names:
                slots = {}
                for i, a in enumerate(c.args):
                    slots["arg%d" % i] = alias_of(a, state)
                for k in c.keywords:
                    if k.arg is not None:
                        slots[k.arg] = alias_of(k.value, state)
                self.sites.append((c, slots))

    def block(self, body, state):
        for st in body:
            state = self.stmt(st, state)
        return state

    def stmt(self, st, state):
        if isinstance(st, (ast.FunctionDef, ast.AsyncFunctionDef, ast.ClassDef)):
            return state
        if isinstance(st, ast.Assign):
            self.visit_calls(st.value, state)
            if len(st.targets) == 1 and isinstance(st.targets[0], (ast.Tuple, ast.List)) and isinstance(st.value, (ast.Tuple, ast.List)) \
                    and len(st.targets[0].elts) == len(st.value.elts):
                vals = [alias_of(v, state) for v in st.value.elts]
                for t, v in zip(st.targets[0].elts, vals):
                    _bind(t, v, state) if isinstance(t, ast.Name) else None
                return state
            v = alias_of(st.value, state)
            for t in st.targets:
                _bind(t, v, state)
            return state
        if isinstance(st, ast.AnnAssign):
            if st.value is not None:
                self.visit_calls(st.value, state)
                _bind(st.target, alias_of(st.value, state), state)
            return state
        if isinstance(st, ast.AugAssign):
            self.visit_calls(st.value, state)
            return state   # in-place: the name keeps its storage
        if isinstance(st, ast.If):
            self.visit_calls(st.test, state)
            a = self.block(st.body, {k: set(v) for k, v in state.items()})
            b = self.block(st.orelse, {k: set(v) for k, v in state.items()})
            return _join(a, b)
        if isinstance(st, ast.Match):
            self.visit_calls(st.subject, state)
            out = None
            for case in st.cases:
                s_ = {k: set(v) for k, v in state.items()}
                for n in ast.walk(case.pattern):        # names captured by the pattern are bound to (parts of) the subject
                    nm = getattr(n, "name", None)
                    if isinstance(n, (ast.MatchAs, ast.MatchStar)) and nm:
                        s_[nm] = alias_of(st.subject, state) if isinstance(st.subject, ast.Name) else set().union(*[alias_of(e, state) for e in getattr(st.subject, "elts", [])] or [set()])
                r = self.block(case.body, s_)
                out = r if out is None else _join(out, r)
            return _join(out or state, state)
        if isinstance(st, (ast.For, ast.While)):
            if isinstance(st, ast.For):
                self.visit_calls(st.iter, state)
                _bind(st.target, set(), state)
            s = state
            for _ in range(2):
                s = _join(s, self.block(st.body, {k: set(v) for k, v in s.items()}))
            return _join(s, self.block(st.orelse, {k: set(v) for k, v in s.items()}))
        if isinstance(st, ast.With):
            for it in st.items:
                self.visit_calls(it.context_expr, state)
            return self.block(st.body, state)
        if isinstance(st, ast.Try):
            s = self.block(st.body, {k: set(v) for k, v in state.items()})
            for h in st.handlers:
                s = _join(s, self.block(h.body, {k: set(v) for k, v in state.items()}))
            s = self.block(st.orelse, s)
            return self.block(st.finalbody, s)
        self.visit_calls(st, state)
        return state


def construction_aliases(fn_node, callee_names, params=None):
    """[(call node, {slot: set(params it may alias)})] for every call to one of `callee_names` in the function."""
    return Analysis(fn_node, params).run(callee_names)
