"""
Exact evaluation of *derived terms* (never repository code) on a representative of an
order-type cell.  Numbers are Fractions; array atoms are bound to concrete generic
representatives (tuples); `nextafter` produces an infinitesimal shift (value, +-1) that is
only ever compared, never used in arithmetic.  Anything outside this small vocabulary
raises CannotEvaluate, which rules report as INCONCLUSIVE.
"""
from __future__ import annotations

from fractions import Fraction
import math

from .terms import App, Const, Num, Sym, Tup, V, EnumM


class CannotEvaluate(Exception):
    pass


class Eps:
    """x + sign*epsilon (sign in -1, 0, +1): result of nextafter; ordered lexicographically."""

    __slots__ = ("x", "s")

    def __init__(self, x, s):
        self.x, self.s = Fraction(x), s

    def key(self):
        return (self.x, self.s)

    def __repr__(self):
        return "%s%s" % (self.x, {1: "+eps", -1: "-eps", 0: ""}[self.s])


def ekey(v):
    if isinstance(v, Eps):
        return v.key()
    if isinstance(v, bool):
        return (Fraction(int(v)), 0)
    return (Fraction(v), 0)


class Arr(tuple):
    """Concrete representative array (tuple of Fractions / Eps / bools)."""


def _bcast(f, *xs):
    n = None
    for x in xs:
        if isinstance(x, Arr):
            n = len(x) if n is None else n
    if n is None:
        return f(*xs)
    return Arr(f(*[(x[i] if isinstance(x, Arr) else x) for x in xs]) for i in range(n))


def _num(x):
    if isinstance(x, Eps):
        if x.s == 0:
            return x.x
        raise CannotEvaluate("arithmetic on an infinitesimally shifted value")
    if isinstance(x, bool):
        return Fraction(int(x))
    if isinstance(x, (int, Fraction)):
        return Fraction(x)
    raise CannotEvaluate("not a number: %r" % (x,))


def evaluate(v, env):
    """env: dict mapping atoms (V) to Fraction / Arr / bool.  Results are memoised in env['__memo__']."""
    if v in env:
        return env[v]
    memo = env.get("__memo__")
    if memo is None:
        memo = env["__memo__"] = {}
    k = v.key
    if k in memo:
        return memo[k]
    r = _evaluate(v, env)
    memo[k] = r
    return r


def _evaluate(v, env):
    if isinstance(v, Const):
        x = v.value
        if isinstance(x, bool):
            return x
        if isinstance(x, (int, Fraction)):
            return Fraction(x)
        if x is None:
            return None
        if x is Ellipsis:
            return Ellipsis
        if isinstance(x, str):
            return x
        raise CannotEvaluate("constant %r" % (x,))
    if isinstance(v, Num):
        tot = Fraction(0)
        totarr = None
        for m, c in v.poly.t.items():
            term = Fraction(c)
            for a, e in m:
                val = evaluate(a, env)

                def pw(x, e=e):
                    x = _num(x)
                    if e < 0 and x == 0:
                        raise CannotEvaluate("division by zero")
                    return x ** e

                term = _bcast(lambda t_, x: _num(t_) * pw(x), term, val)
            tot = _bcast(lambda a_, b_: _num(a_) + _num(b_), tot, term)
        return tot
    if isinstance(v, Tup):
        return Arr(evaluate(i, env) for i in v.items)
    if isinstance(v, App):
        return eval_app(v, env)
    if isinstance(v, Sym):
        raise CannotEvaluate("unbound symbol %s" % v.name)
    raise CannotEvaluate("cannot evaluate %s" % type(v).__name__)


def eval_app(v, env):
    fn, a = v.fn, v.args
    E = lambda i: evaluate(a[i], env)  # noqa: E731
    if fn == "inv":
        x = _num(E(0))
        if x == 0:
            raise CannotEvaluate("division by zero")
        return 1 / x
    if fn in ("min", "max"):
        vals = [evaluate(x, env) for x in a]
        f = min if fn == "min" else max
        return _bcast(lambda *xs: f(xs, key=ekey), *vals)
    if fn in ("floor", "ceil", "trunc"):
        g = {"floor": math.floor, "ceil": math.ceil, "trunc": math.trunc}[fn]
        return _bcast(lambda x: Fraction(g(_num(x))), E(0))
    if fn in ("floordiv", "mod") and len(a) == 2:
        import math as _m

        def fd(x, y):
            x, y = _num(x), _num(y)
            if y == 0:
                raise CannotEvaluate("division by zero")
            q = _m.floor(Fraction(x) / Fraction(y))
            return Fraction(q) if fn == "floordiv" else Fraction(x) - Fraction(y) * q
        return _bcast(fd, E(0), E(1))
    if fn == "abs":
        return _bcast(lambda x: abs(_num(x)), E(0))
    if fn in ("lt0", "le0", "eq0", "ne0"):
        op = {"lt0": lambda x: x < 0, "le0": lambda x: x <= 0, "eq0": lambda x: x == 0, "ne0": lambda x: x != 0}[fn]
        return _bcast(lambda x: op(_num(x)), E(0))
    if fn == "and":
        return _bcast(lambda *xs: all(xs), *[evaluate(x, env) for x in a])
    if fn == "or":
        return _bcast(lambda *xs: any(xs), *[evaluate(x, env) for x in a])
    if fn == "not":
        return _bcast(lambda x: not x, E(0))
    if fn == "truthy":
        return _bcast(lambda x: bool(x), E(0))
    if fn == "sum" and len(a) == 1 and (not v.kw or dict(v.kw).get("axis") in (None, Const(None), Const(0), Const(-1))):
        x = E(0)
        if isinstance(x, Arr) and not any(isinstance(i, Arr) for i in x):
            return sum((_num(i) for i in x), Fraction(0))     # 1-d representative arrays only
        if not isinstance(x, Arr):
            return _num(x)
        raise CannotEvaluate("sum over a nested array")
    if fn == "flip" and len(a) == 1:
        x = E(0)
        if isinstance(x, Arr) and not any(isinstance(i, Arr) for i in x):
            return Arr(reversed(x))       # representatives are 1-d: flipping every axis reverses the array
        if not isinstance(x, Arr):
            return x
        raise CannotEvaluate("flip of a nested array")
    if fn in ("any", "all") and len(a) == 1 and not v.kw:
        x = E(0)
        xs = list(x) if isinstance(x, Arr) else [x]
        return (any if fn == "any" else all)(bool(i) for i in xs)
    if fn == "ite":
        c = E(0)
        if isinstance(c, Arr):
            return _bcast(lambda c_, x, y: x if c_ else y, c, E(1), E(2))
        return E(1) if c else E(2)
    if fn == "where":
        return _bcast(lambda c_, x, y: x if c_ else y, E(0), E(1), E(2))
    if fn in ("fresh", "asarray", "sort_checked"):
        return E(0)
    if fn == "full" and len(a) == 2:
        return E(1)          # constant array: every element is the fill value (representatives use scalar targets)
    if fn == "full_like" and len(a) == 2:
        return _bcast(lambda _x, y: y, E(0), E(1))
    if fn == "sort":
        x = E(0)
        return Arr(sorted(x, key=ekey)) if isinstance(x, Arr) else x
    if fn == "concat":
        out = []
        for x in a:
            val = evaluate(x, env)
            out.extend(val if isinstance(val, Arr) else [val])
        return Arr(out)
    if fn in ("union1d", "unique"):
        out = []
        for x in a:
            val = evaluate(x, env)
            out.extend(val if isinstance(val, Arr) else [val])
        return Arr(sorted({ekey(x): x for x in out}.values(), key=ekey))
    if fn == "shape" and len(a) == 1:
        x = E(0)
        if isinstance(x, Arr) and any(isinstance(i, Arr) for i in x):
            raise CannotEvaluate("shape of a nested array")
        # representatives are scalars or 1-d arrays; shapes only occur in (dis)equalities of shapes, which the normal form turns into
        # differences: a shape is encoded as one number (length for 1-d, -1 for a scalar) so that equal shapes have equal codes
        return Fraction(len(x)) if isinstance(x, Arr) else Fraction(-1)
    if fn == "len":
        x = E(0)
        if not isinstance(x, Arr):
            raise CannotEvaluate("len of scalar")
        return Fraction(len(x))
    if fn == "slice":
        vals = [evaluate(x, env) for x in a]
        return slice(*[None if x is None else int(_num(x)) for x in vals])
    if fn == "reshape" and len(a) == 2 and a[1] == Const(-1):
        fn, a = "flatten", a[:1]
    if fn in ("flatten", "ravel"):
        x = E(0)
        out = []

        def fl(y):
            if isinstance(y, Arr):
                for z in y:
                    fl(z)
            else:
                out.append(y)
        fl(x)
        return Arr(out)
    if fn == "nextafter":
        x, d = E(0), a[1]
        from .terms import INF as _INF, neg as _neg, same as _same

        def direction(t):
            if isinstance(t, Tup):
                return [direction(i) for i in t.items]
            if t == _INF:
                return 1
            if _same(t, _neg(_INF)):
                return -1
            raise CannotEvaluate("nextafter direction")

        def apply(dd):
            if isinstance(dd, list):
                return Arr(apply(i) for i in dd) if len(dd) != 1 else apply(dd[0]) if not isinstance(x, Arr) else Arr([apply(dd[0])]) if False else apply(dd[0])
            return _bcast(lambda v_: Eps(_num(v_), dd), x)

        dirs = direction(d)
        if isinstance(dirs, list):
            return Arr(apply(i) for i in dirs)
        return apply(dirs)
    if fn == "trapezoid":
        y, x = E(0), E(1)
        if not (isinstance(y, Arr) and isinstance(x, Arr) and len(x) == len(y)):
            raise CannotEvaluate("trapezoid of mismatched arrays")
        tot = Fraction(0)
        for i in range(len(x) - 1):
            tot += (_num(x[i + 1]) - _num(x[i])) * (_num(y[i + 1]) + _num(y[i])) / 2
        return tot
    if fn == "getitem":
        base, idx = E(0), E(1)
        if not isinstance(base, Arr):
            parts = idx if isinstance(idx, Arr) else [idx]
            if all(p_ is None or isinstance(p_, slice) or p_ is Ellipsis for p_ in parts):
                return base      # broadcasting bookkeeping on a scalar representative
            raise CannotEvaluate("subscript of scalar")
        if isinstance(idx, slice):
            return Arr(base[idx])

        def pick(i):
            i = _num(i)
            if i.denominator != 1 or not (-len(base) <= i < len(base)):
                raise CannotEvaluate("index %s out of range" % i)
            return base[int(i)]

        if isinstance(idx, Arr) and idx and all(isinstance(b, bool) for b in idx):
            return Arr(x for x, b in zip(base, idx) if b)
        return _bcast(pick, idx)
    if fn == "nextafter_up":
        return _bcast(lambda x: Eps(_num(x), 1), E(0))
    if fn == "nextafter_down":
        return _bcast(lambda x: Eps(_num(x), -1), E(0))
    if fn == "store":
        base, idx, val = E(0), E(1), E(2)
        if isinstance(base, Arr):
            if isinstance(idx, Arr) and all(isinstance(b, bool) for b in idx):
                return Arr((val[i] if isinstance(val, Arr) else val) if b else x for i, (x, b) in enumerate(zip(base, idx)))
            raise CannotEvaluate("store with non-mask index")
        if isinstance(idx, bool):
            return val if idx else base
        raise CannotEvaluate("store into scalar with index %r" % (idx,))
    if fn == "count_lt":
        arr, t = E(0), E(1)
        return _bcast(lambda tt: Fraction(sum(1 for x in arr if ekey(x) < ekey(tt))), t)
    if fn == "count_le":
        arr, t = E(0), E(1)
        return _bcast(lambda tt: Fraction(sum(1 for x in arr if ekey(x) <= ekey(tt))), t)
    if fn == "gdiv":
        n, d = E(0), E(1)
        return _bcast(lambda x, y: None if _num(y) == 0 else _num(x) / _num(y), n, d)
    if fn == "isclose":
        x, y = E(0), E(1)
        return _bcast(lambda u, w: abs(_num(u) - _num(w)) <= Fraction(1, 10 ** 8) + Fraction(1, 10 ** 5) * abs(_num(w)), x, y)
    if fn == "isscalar":
        return not isinstance(E(0), Arr)
    if fn == "is_none":
        return E(0) is None
    raise CannotEvaluate("operator %s" % fn)


def holds(pc, env):
    """Truth of a path condition under env."""
    for c, taken in pc:
        val = evaluate(c, env)
        if isinstance(val, Arr):
            raise CannotEvaluate("array-valued path condition")
        if bool(val) != taken:
            return False
    return True
