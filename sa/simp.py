"""
Smart constructor for operator applications: the short list of domain identities the
normal form knows (DESIGN §3 E1).  Everything else stays an uninterpreted application.
"""
from __future__ import annotations

from fractions import Fraction
import math

from .terms import (
    App, Const, Num, Poly, Sym, Top, Tup, V, FALSE, TRUE, INF, NAN,
    add, cmp0, conj, const_of, disj, div, is_const, ite, mk_num, mul, neg, negate, sub, to_poly,
    _mono_key,
)

COMMUTATIVE = {"min", "max"}


def _all_const(args):
    return all(is_const(a) for a in args)


def _scalar_int_index(i):
    if isinstance(i, Const):
        return isinstance(i.value, int) and not isinstance(i.value, bool)
    return isinstance(i, Sym) and "loopvar" in i.tags and "int" in i.tags


def _scalar_count(v):
    """Numeric constants, lengths / sizes of arrays, and polynomials of those: zero-dimensional whatever the operands' shapes."""
    if isinstance(v, Const):
        return isinstance(v.value, (int, float, Fraction)) and not isinstance(v.value, bool)
    if isinstance(v, App) and v.fn in ("len", "size", "ndim"):
        return True
    if isinstance(v, (Sym, App)) and to_poly(v) is None:
        return False
    p = to_poly(v)
    if p is None or isinstance(v, Sym):
        return False
    return all(all(isinstance(a, App) and a.fn in ("len", "size", "ndim") for a, _e in m) for m, _c in p.t.items())


def _pair_component(v, k, width):
    """v[k] for v built by elementwise max/min from literal tuples (all of one length) and scalar counts; None otherwise."""
    if type(v) is Tup:
        if width[0] is None:
            width[0] = len(v.items)
        if len(v.items) != width[0] or not (-width[0] <= k < width[0]):
            return None
        return v.items[k]
    if isinstance(v, App) and v.fn in ("max", "min") and not v.kw and len(v.args) >= 2:
        parts = [a_ if _scalar_count(a_) else _pair_component(a_, k, width) for a_ in v.args]
        if any(p_ is None for p_ in parts) or width[0] is None:
            return None
        return mk_app(v.fn, parts)
    return None


def _integer_valued(v):
    """Integer constants, symbols tagged `int`, lengths / counts, and integer polynomials of those."""
    if isinstance(v, Const):
        return isinstance(v.value, int) and not isinstance(v.value, bool)
    if isinstance(v, Sym):
        return "int" in v.tags
    if isinstance(v, App):
        return v.fn in ("len", "count_lt", "count_le", "floor", "ceil", "trunc", "size", "ndim")
    p = to_poly(v)
    if p is None:
        return False
    return all(Fraction(c).denominator == 1 and all(e > 0 and _integer_valued(a) for a, e in m) for m, c in p.t.items())


def _perm_arg(p):
    """X for p = argsort(X, ...) (a permutation of range(size(X)))."""
    if isinstance(p, App) and p.fn == "argsort" and p.args:
        return p.args[0]
    return None


def _is_perm(p):
    if _perm_arg(p) is not None:
        return True
    # inverse permutation written as a scatter: inv = empty_like(p); inv[p] = arange(len(p))
    if isinstance(p, App) and p.fn == "store" and len(p.args) == 3 and _is_perm(p.args[1]) and isinstance(p.args[2], App) and p.args[2].fn == "arange":
        return True
    return False


def _inverse_perms(p, q):
    """q is the inverse of the permutation p (or p of q)."""
    for a, b in ((p, q), (q, p)):
        x = _perm_arg(b)
        if x is not None and x == a:          # b = argsort(a)
            return True
        if isinstance(b, App) and b.fn == "store" and len(b.args) == 3 and b.args[1] == a:   # b[a] = arange(n)
            return True
    return False


def _bounds(v):
    """(lower, upper) terms of a value where a range fact is known, else (None, None)."""
    if isinstance(v, App) and v.fn in ("count_lt", "count_le", "count_ge", "count_gt") and v.args:
        return Const(0), App("len", (v.args[0],))
    if is_const(v):
        return v, v
    p = to_poly(v)
    if p is not None and not p.is_const():
        # ceil(x) - x  /  x - floor(x)
        for a in p.atoms():
            if isinstance(a, App) and a.fn in ("ceil", "floor") and len(a.args) == 1:
                x = to_poly(a.args[0])
                if x is None:
                    continue
                want = (Poly.atom(a) - x) if a.fn == "ceil" else (x - Poly.atom(a))
                if not (p - want).t:
                    return Const(0), Const(1)
    return None, None


def _leq(a, b):
    """a <= b for all values (from range facts only)."""
    _la, ua = _bounds(a)
    lb, _ub = _bounds(b)
    if ua is not None and (ua.key == b.key):
        return True          # count <= len(X)
    if isinstance(a, App) and a.fn.startswith("count_") and a.args:
        try:
            from .libmodel import length
            from .terms import same
            L = length(None, a.args[0])
            if L is not None and hasattr(L, "key") and (L.key == b.key or same(L, b)):
                return True  # count <= len(X), with len(X) in the library model's normal form
        except Exception:  # noqa: BLE001
            pass
    if lb is not None and (lb.key == a.key) and not is_const(b):
        return True          # 0 <= count
    if ua is not None and lb is not None and is_const(ua) and is_const(lb) and Fraction(const_of(ua)) <= Fraction(const_of(lb)) and not (is_const(a) and is_const(b)):
        return True
    return False


def mk_app(fn, args=(), kw=()):
    args = list(args)
    kw = list(kw)
    if fn == "ite":
        return ite(*args)
    if fn == "and":
        return conj(args)
    if fn == "or":
        return disj(args)
    if fn == "not":
        return negate(args[0])
    if fn in ("lt0", "le0", "eq0", "ne0"):
        p = to_poly(args[0])
        if p is not None:
            return cmp0(fn[:2], p)
    if fn in COMMUTATIVE:
        flat = []
        for a in args:
            if isinstance(a, App) and a.fn == fn and not a.kw:
                flat.extend(a.args)
            else:
                flat.append(a)
        consts = [a for a in flat if is_const(a)]
        rest = []
        for a in flat:
            if not is_const(a) and a not in rest:
                rest.append(a)
        if consts:
            vals = [Fraction(const_of(c)) for c in consts]
            c = min(vals) if fn == "min" else max(vals)
            rest.append(Const(c))
        # range facts: counting atoms lie in [0, len(X)], ceil(x) - x and x - floor(x) in [0, 1]:
        # an operand that is provably dominated drops out (clipping a value to a range it is already in)
        if len(rest) > 1:
            keep = list(rest)
            for a in rest:
                for b in rest:
                    if a is b or a not in keep or b not in keep:
                        continue
                    if _leq(a, b):           # a <= b always
                        keep.remove(b if fn == "min" else a)
            rest = keep
        if len(rest) == 1:
            return rest[0]
        return App(fn, sorted(rest, key=lambda v: v.key))
    if fn in ("floor", "ceil") and len(args) == 1:
        a = args[0]
        if is_const(a):
            c = Fraction(const_of(a))
            return Const(math.floor(c) if fn == "floor" else math.ceil(c))
        if isinstance(a, App) and a.fn in ("floor", "ceil", "len", "count_lt", "count_le"):
            return a
    if fn == "mod" and len(args) == 2 and args[1] == Const(1) and _integer_valued(args[0]):
        return Const(0)          # n % 1 for an integer-valued n
    if fn == "abs" and len(args) == 1 and is_const(args[0]):
        return Const(abs(Fraction(const_of(args[0]))))
    if fn == "ppf" and len(args) == 1:
        return _ppf(args[0])
    if fn == "cdf" and len(args) == 1:
        a = args[0]
        if isinstance(a, App) and a.fn == "ppf":
            return a.args[0]
        p = to_poly(a)
        # cdf(-x) = 1 - cdf(x): normalise sign so that the leading coefficient is positive
        if p is not None and p.t and not p.is_const():
            lead = sorted(p.t.items(), key=lambda mc: _mono_key(mc[0]))
            lead = [c for m, c in lead if m != ()][0]
            if lead < 0:
                return sub(Const(1), mk_app("cdf", [mk_num(-p)]))
        if p is not None and p.is_const() and p.const_value() == 0:
            return Const(Fraction(1, 2))
    if fn == "reshape" and len(args) == 2 and not kw:
        x, shp = args
        if isinstance(x, Sym) and "rank0" in x.tags and isinstance(shp, Tup) and shp.items and all(i == Const(1) for i in shp.items):
            # a 0-d array reshaped to (1, ..., 1) is the array with that many unit axes inserted: t.reshape(1, 1) = t[None, None]
            return mk_app("getitem", [x, Tup([Const(None)] * len(shp.items)) if len(shp.items) > 1 else Const(None)])
        # reshape(reshape(X, -1), shape(X)) = X ; reshape(reshape(X, -1), -1) = reshape(X, -1)
        if isinstance(x, App) and x.fn == "reshape" and len(x.args) == 2 and x.args[1] == Const(-1):
            if shp == App("shape", (x.args[0],)):
                return x.args[0]
            if shp == Const(-1):
                return x
        # an elementwise count reshaped: reshape(count(S, X), s) = count(S, reshape(X, s))
        if isinstance(x, App) and x.fn in ("count_lt", "count_le") and len(x.args) == 2:
            return App(x.fn, (x.args[0], mk_app("reshape", [x.args[1], shp])))
    if fn == "expand_dims" and len(args) == 1 and dict(kw or []).get("axis") == Const(0):
        return mk_app("getitem", [args[0], Const(None)])
    if fn == "getitem" and len(args) == 2:
        base, idx = args
        if isinstance(idx, Const) and isinstance(idx.value, int) and not isinstance(idx.value, bool) and isinstance(base, App) \
                and base.fn in ("max", "min") and not base.kw:
            # component k of an elementwise max/min over literal pairs (a, b) and scalar counts is that max/min of the k-th components
            comp = _pair_component(base, idx.value, [None])
            if comp is not None:
                return comp
        if _is_perm(idx):
            # permutation algebra: counts are elementwise in the needle, and a permutation followed by its inverse is the identity
            if isinstance(base, App) and base.fn in ("count_lt", "count_le") and len(base.args) == 2:
                return App(base.fn, (base.args[0], mk_app("getitem", [base.args[1], idx])))
            if isinstance(base, App) and base.fn == "getitem" and len(base.args) == 2 and _is_perm(base.args[1]) and _inverse_perms(base.args[1], idx):
                inner = base.args[0]
                return inner if (isinstance(inner, App) and inner.fn == "reshape") else mk_app("reshape", [inner, Const(-1)])
        if isinstance(base, App) and base.fn == "diagonal" and len(base.args) == 1 and isinstance(idx, Tup) and len(idx.items) == 2 \
                and idx.items[0] == Const(Ellipsis) and {k: v for k, v in (base.kw or [])}.get("axis1") in (Const(-1), Const(-2)) \
                and {k: v for k, v in (base.kw or [])}.get("axis2") in (Const(-1), Const(-2)) and len(base.kw) == 2:
            # element j of the diagonal over the last two axes: diagonal(M)[..., j] = M[..., j, j]
            return mk_app("getitem", [base.args[0], Tup([Const(Ellipsis), idx.items[1], idx.items[1]])])
        _full = App("slice", (Const(None), Const(None), Const(None)))
        if isinstance(idx, App) and idx.fn == "slice" and len(idx.args) == 3:
            lo_, hi_, st_ = idx.args
            if isinstance(st_, App) and st_.fn == "ite" and len(st_.args) == 3:
                # a step chosen by a condition: x[::(-1 if c else 1)] = (x[::-1] if c else x)
                c_, a_, b_ = st_.args
                return mk_app("ite", [c_, mk_app("getitem", [base, App("slice", (lo_, hi_, a_))]), mk_app("getitem", [base, App("slice", (lo_, hi_, b_))])])
            if lo_ == Const(None) and hi_ == Const(None) and st_ == Const(1):
                return base         # x[::1] = x
        if isinstance(base, App) and base.fn == "attr:T" and len(base.args) == 1 and not isinstance(idx, Tup) and not (isinstance(idx, App) and idx.fn == "slice"):
            inner = base.args[0]
            two_d = isinstance(inner, App) and inner.fn == "reshape" and len(inner.args) == 2 and isinstance(inner.args[1], Tup) and len(inner.args[1].items) == 2
            if two_d:
                return mk_app("getitem", [inner, Tup([_full, idx])])      # row j of the transpose of a 2-d array is its column j
        if isinstance(base, App) and base.fn == "stack" and len(base.args) == 1 and isinstance(base.args[0], Tup) and dict(base.kw or []).get("axis") == Const(-1) \
                and not isinstance(idx, Tup) and not (isinstance(idx, App) and idx.fn == "slice") and idx != Const(None):
            # stack([a, b], axis=-1)[j] = stack([a[j], b[j]], axis=-1)
            return App("stack", (Tup([mk_app("getitem", [it, idx]) for it in base.args[0].items]),), base.kw)
        if isinstance(idx, Tup) and type(idx) is Tup and idx.items.count(Const(Ellipsis)) == 1 and _full in idx.items:
            # a full slice next to the Ellipsis is absorbed by it: x[..., :, j] = x[..., j], x[:, ..., j] = x[..., j]
            items = list(idx.items)
            e = items.index(Const(Ellipsis))
            changed = False
            while e + 1 < len(items) and items[e + 1] == _full:
                del items[e + 1]
                changed = True
            while e > 0 and items[e - 1] == _full:
                del items[e - 1]
                e -= 1
                changed = True
            if changed:
                return mk_app("getitem", [base, items[0] if len(items) == 1 else Tup(items)])
        if isinstance(idx, Tup) and type(idx) is Tup and Const(Ellipsis) not in idx.items and idx.items and idx.items[-1] == _full:
            # trailing full slices select everything: x[None, :] = x[None]
            items = list(idx.items)
            while items and items[-1] == _full:
                items.pop()
            if not items:
                return base
            return mk_app("getitem", [base, items[0] if len(items) == 1 else Tup(items)])
        if idx == _full:
            return base
        if idx == Const(None) and isinstance(base, App) and base.fn == "getitem" and len(base.args) == 2 and base.args[1] == Const(None):
            return App("getitem", (base.args[0], Tup([Const(None), Const(None)])))  # x[None][None] = x[None, None]
        if isinstance(base, App) and base.fn == "getitem" and len(base.args) == 2 and isinstance(base.args[1], Tup) and type(base.args[1]) is Tup \
                and len(base.args[1].items) == 2 and base.args[1].items[0] == _full and is_const(base.args[1].items[1]) \
                and isinstance(const_of(base.args[1].items[1]), int) and not isinstance(idx, Tup) and idx != Const(None) and idx != Const(Ellipsis):
            # a column first, then rows: A[:, c][i] = A[i, c] for every kind of row index i (integer, slice, mask, index array)
            return mk_app("getitem", [base.args[0], Tup([idx, base.args[1].items[1]])])
        if isinstance(base, App) and base.fn == "getitem" and len(base.args) == 2 and _scalar_int_index(base.args[1]) and _scalar_int_index(idx):
            # two scalar integer subscripts in a row are one two-axis subscript: A[j][0] = A[j, 0]
            return mk_app("getitem", [base.args[0], Tup([base.args[1], idx])])
        args = [base, idx]
        if isinstance(base, App) and base.fn == "getitem" and len(base.args) == 2 and isinstance(base.args[1], Tup) and len(base.args[1].items) == 2:
            # inserting a unit axis and taking it out again: x[:, None][:, 0] = x ; t[None, :][0] = t ; t[None, None][0] = t[None]
            b0, (p0, p1) = base.args[0], base.args[1].items
            full = App("slice", (Const(None), Const(None), Const(None)))
            none = Const(None)
            if p0 == full and p1 == none and isinstance(idx, Tup) and len(idx.items) == 2 and idx.items[0] == full and idx.items[1] == Const(0):
                return b0
            if p0 == none and p1 == full and idx == Const(0):
                return b0
            if p0 == none and p1 == none and idx == Const(0):
                return App("getitem", (b0, none))
        if isinstance(base, App) and base.fn == "getitem" and len(base.args) == 2 and base.args[1] == Const(None) and idx == Const(0):
            return base.args[0]      # x[None][0] = x  (x[None, :] is normalised to x[None])
        if isinstance(base, Tup) and is_const(idx):
            i = const_of(idx)
            if isinstance(i, int) and -len(base.items) <= i < len(base.items):
                return base.items[i]
    if fn == "ite" and len(args) == 3:
        c, a, b = args
        if isinstance(c, Const):
            return a if c.value else b
        if a == b:
            return a
    if fn == "where" and len(args) == 3:
        c, a, b = args
        if isinstance(c, Const):
            return a if c.value else b
        if a == b:
            return a
        # canonical polarity: where(not c, a, b) = where(c, b, a); an equality test selects like the swapped inequality test
        if isinstance(c, App) and c.fn == "not" and len(c.args) == 1:
            return mk_app("where", [c.args[0], b, a])
        if isinstance(c, App) and c.fn == "eq0":
            return mk_app("where", [App("ne0", c.args), b, a])
        # a guarded quotient selected under its own guard is the plain quotient: where(g, divide(n, d, out=f, where=g), e)
        if isinstance(a, App) and a.fn == "gdiv" and len(a.args) == 4 and a.args[3] == c:
            from .terms import div as _div
            return App("where", (c, _div(a.args[0], a.args[1]), b))
    return App(fn, args, kw)


def _ppf(x):
    """Standard normal quantile; ppf(1-x) = -ppf(x); ppf(cdf(t)) = t; ppf(1/2) = 0."""
    if isinstance(x, App) and x.fn == "cdf":
        return x.args[0]
    p = to_poly(x)
    if p is not None:
        if p.is_const() and p.const_value() == Fraction(1, 2):
            return Const(0)
        if p.const_value() == 1 and not p.is_const():
            items = sorted(((m, c) for m, c in p.t.items() if m != ()), key=lambda mc: _mono_key(mc[0]))
            if items[0][1] < 0:
                return neg(_ppf(mk_num(Poly.const(1) - p)))
        # 1 - cdf(t) -> ppf = -t
        q = Poly.const(1) - p
        a = q.as_atom()
        if a is not None and isinstance(a, App) and a.fn == "cdf":
            return neg(a.args[0])
    return App("ppf", (x,))


def norm_fn(name, x, loc=None, scale=None):
    """scipy.stats.norm.{cdf,sf,ppf,isf} with loc/scale reduced to the standard normal."""
    loc = Const(0) if loc is None else loc
    scale = Const(1) if scale is None else scale
    if name in ("cdf", "sf"):
        z = div(sub(x, loc), scale)
        c = mk_app("cdf", [z])
        return c if name == "cdf" else sub(Const(1), c)
    if name in ("ppf", "isf"):
        q = mk_app("ppf", [x])
        if name == "isf":
            q = neg(q)
        return add(loc, mul(scale, q))
    raise KeyError(name)
