#!/venv/bin/python
"""
Entry point:  check.py <property-id> [--tier quick|thorough] [--root /repo] [--explain KEY]

Every run parses /repo's current working tree (stdlib ast only; nothing from the
repository is imported or executed) and decides the property's armed rules.
Exit 0 = all obligations hold (or are listed known findings), 1 = VIOLATION, 2 = ANALYSIS-ERROR.
"""
import importlib
import os
import sys

sys.path.insert(0, os.path.dirname(os.path.abspath(__file__)))
sys.setrecursionlimit(20000)


def main(argv):
    if len(argv) < 2:
        print(__doc__)
        return 2
    pid = argv[1].upper()
    tier = os.environ.get("VERIF_TIER", "quick")
    root = os.environ.get("VERIF_REPO", "/repo")
    explain = None
    i = 2
    while i < len(argv):
        if argv[i] == "--tier":
            tier = argv[i + 1]; i += 2
        elif argv[i] == "--root":
            root = argv[i + 1]; i += 2
        elif argv[i] == "--explain":
            explain = argv[i + 1]; i += 2
        else:
            i += 1
    try:
        seed = int(os.environ.get("VERIF_SEED", "0"))
    except ValueError:
        seed = 0
    from sa.report import run_check
    try:
        mod = importlib.import_module("sa.rules." + pid.lower())
    except ImportError as e:
        print("ANALYSIS-ERROR property=%s no rule module: %s" % (pid, e))
        return 2

    def body(chk):
        from sa.spec import Ctx
        ctx = Ctx(root)
        st = ctx.db.stats()
        chk.analysed = dict(st, tree_digest=ctx.db.digest(), root=root)
        mod.run(ctx, chk, tier)
        if tier == "thorough" and os.environ.get("VERIF_NO_SELFTEST") != "1":
            from sa import selftest
            selftest.run(pid, mod, chk, root)

    code = run_check(pid, tier, mod.LEVEL, body, seed)
    sys.stdout.flush()
    return code


if __name__ == "__main__":
    try:
        rc = main(sys.argv)
    except SystemExit:
        raise
    except BaseException as e:  # noqa: BLE001
        print("ANALYSIS-ERROR internal %s: %s" % (type(e).__name__, e))
        rc = 2
    sys.exit(rc)
